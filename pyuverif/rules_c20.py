"""C20 - compiled kernels stay inside their arrays: rules B1..B7."""
from __future__ import annotations

import ast
import os
import re

from .pymodel import Program
from .cymodel import CyProgram, CyFunc, X, pp, walk, names_in
from .cmodel import load_c, Poly
from .cinterp import CInterp, is_int_type, is_ptr_type
from .kernels import itemsize
from .report import Run, AnalysisError

C_SIZEOF = {"char": 1, "signed char": 1, "unsigned char": 1, "short": 2, "int": 4,
            "unsigned int": 4, "long": 8, "unsigned long": 8, "long long": 8,
            "float": 4, "double": 8, "bint": 4}     # LP64 (stated assumption)


# ---------------------------------------------------------------------------
# B1

def b1(run: Run, prog: Program, cy: CyProgram):
    setup = os.path.join(run.repo, "setup.py")
    if not os.path.exists(setup):
        raise AnalysisError("setup.py vanished")
    with open(setup, encoding="utf-8") as f:
        tree = ast.parse(f.read())
    directives = None
    for n in ast.walk(tree):
        if isinstance(n, ast.Dict):
            keys = [k.value for k in n.keys if isinstance(k, ast.Constant)]
            if "boundscheck" in keys or "compiler_directives" in keys:
                d = {}
                for k, v in zip(n.keys, n.values):
                    if isinstance(k, ast.Constant) and isinstance(v, ast.Constant):
                        d[k.value] = v.value
                if "boundscheck" in d:
                    directives = d
        if isinstance(n, ast.Call):
            for kw in n.keywords:
                if kw.arg == "compiler_directives" and isinstance(kw.value, ast.Dict):
                    d = {}
                    for k, v in zip(kw.value.keys, kw.value.values):
                        if isinstance(k, ast.Constant) and isinstance(v, ast.Constant):
                            d[k.value] = v.value
                    directives = d
    if directives is None:
        raise AnalysisError("setup.py: compiler directives not found")
    ok = directives.get("boundscheck") is True
    run.oblige("B1", "setup.py:boundscheck", ok, sample={"directives": directives})
    if not ok:
        run.add("B1", "setup.py/boundscheck", "setup.py:1",
                f"setup.py compiles the kernels with boundscheck="
                f"{directives.get('boundscheck')!r}: every typed-buffer index that is "
                f"out of range then touches foreign memory instead of raising IndexError")
    ok = directives.get("wraparound") is False
    run.oblige("B1", "setup.py:wraparound", ok, nontrivial=False)
    # the extension list must cover the four packages
    pk = set()
    for n in ast.walk(tree):
        if isinstance(n, (ast.List, ast.Tuple)):
            vals = [e.value for e in n.elts if isinstance(e, ast.Constant)
                    and isinstance(e.value, str)]
            if {"core", "timeseries"} <= set(vals):
                pk = set(vals)
    want = {m.split(".")[1] for m in cy.modules}
    run.oblige("B1", "setup.py:extensions", want <= pk, sample={"packages": sorted(pk)})
    if not want <= pk:
        raise AnalysisError(f"setup.py builds {sorted(pk)}, analysed modules {sorted(want)}")
    # no local override
    n_funcs = 0
    for m in cy.modules.values():
        for d in m.header_directives:
            bad = re.search(r"boundscheck\s*=\s*False|wraparound\s*=\s*True", d)
            run.oblige("B1", f"{m.name}:header", not bad)
            if bad:
                run.add("B1", f"{m.name}/header-directive", f"{m.relpath}:1",
                        f"{m.relpath} overrides the global directives: `{d}`")
        for f in m.funcs.values():
            n_funcs += 1
            bad = [d for d in f.decorators if re.search(
                r"boundscheck\(False\)|wraparound\(True\)|initializedcheck\(False\)", d.replace(" ", ""))]
            withs = [s for s in walk(f.body) if isinstance(s, X) and s.k == "other"
                     and "With" in str(s.a[0])]
            run.oblige("B1", f"{f.name}:decorators", not bad and not withs,
                       nontrivial=any(t.kind in ("buffer", "memview") for _, t in f.args)
                       or any(t.kind == "buffer" for t, _, _ in f.locals.values()))
            for d in bad:
                run.add("B1", f"{f.name}/decorator", f.where,
                        f"kernel {f.name} is decorated with `@{d}`: its buffer accesses "
                        f"are no longer checked; an index outside the array (e.g. a "
                        f"caller passing matrices smaller than the size argument) reads "
                        f"or writes foreign memory instead of raising IndexError")
            for w in withs:
                run.add("B1", f"{f.name}/with-directive", f.where,
                        f"kernel {f.name} uses a `with cython....` block (directive "
                        f"override)")
        # textual safety net for `with cython.boundscheck(False)` (parsed as other)
        if re.search(r"with\s+cython\.boundscheck\(\s*False", m.source):
            run.add("B1", f"{m.name}/with-boundscheck", f"{m.relpath}:1",
                    f"{m.relpath} contains `with cython.boundscheck(False)`")
    run.floor("kernels scanned for directive overrides", n_funcs, 60, hard=True)


# ---------------------------------------------------------------------------
# raw pointer hand-offs

class HandOff:
    def __init__(self, wrapper: CyFunc, call: X, cname: str):
        self.wrapper = wrapper
        self.call = call
        self.cname = cname
        self.args = []      # per C parameter: dict


def _data_pointer_helpers(m) -> dict:
    """cdef helpers of the module that only wrap the hand-off idiom:
    `return <T*> PyArray_DATA(<its one array parameter>)` -> {name: cast type}"""
    out = {}
    for hname, hf in m.funcs.items():
        body = [s for s in hf.body if not (s.k == "expr" and s.a and
                                           getattr(s.a[0], "k", "") == "str")]
        if len(hf.args) == 1 and len(body) == 1 and body[0].k == "return" and \
                body[0].a[0] is not None and body[0].a[0].k == "cast" and \
                body[0].a[0].a[1].k == "call" and \
                pp(body[0].a[0].a[1].a[0]).endswith("PyArray_DATA") and \
                len(body[0].a[0].a[1].a[1]) == 1 and \
                pp(body[0].a[0].a[1].a[1][0]) == hf.args[0][0]:
            out[hname] = body[0].a[0]
    return out


def _normalise_handoff(m, f, call: X) -> X:
    """The hand-off call with every pointer argument in the direct form
    `<T*> PyArray_DATA(array)`: typed pointer locals bound once are replaced by
    their value, calls of data-pointer helpers by the cast they return."""
    helpers = _data_pointer_helpers(m)

    def direct(arg, depth=0):
        if arg.k == "name" and depth < 3:
            ploc = f.locals.get(arg.a[0])
            cand = []
            if ploc is not None and ploc[1] is not None:
                cand.append(ploc[1])
            for st_ in walk(f.body):
                if isinstance(st_, X) and st_.k == "assign" and \
                        any(t_.k == "name" and t_.a[0] == arg.a[0] for t_ in st_.a[0]):
                    cand.append(st_.a[1])
            if len(cand) == 1 and f.argtype(arg.a[0]) is None and (
                    cand[0].k == "cast" or (
                        cand[0].k == "call" and cand[0].a[0].k == "name"
                        and cand[0].a[0].a[0] in helpers)):
                return direct(cand[0], depth + 1)
            return arg
        if arg.k == "call" and arg.a[0].k == "name" and arg.a[0].a[0] in helpers and \
                len(arg.a[1]) == 1 and not arg.a[2]:
            c = helpers[arg.a[0].a[0]]
            return X("cast", c.a[0], X("call", c.a[1].a[0], [arg.a[1][0]], {},
                                       line=arg.line), line=arg.line)
        return arg
    return X("call", call.a[0], [direct(a) for a in call.a[1]], *call.a[2:],
             line=call.line)


def _handoffs(cy: CyProgram):
    out = []
    for m in cy.modules.values():
        for f in m.funcs.values():
            for s in walk(f.body):
                if isinstance(s, X) and s.k == "call" and s.a[0].k == "name" and \
                        s.a[0].a[0] in m.externs:
                    out.append(HandOff(f, _normalise_handoff(m, f, s), s.a[0].a[0]))
    return out


def _c_functions(run: Run, cy: CyProgram):
    cfuncs = {}
    for m in cy.modules.values():
        for inc in m.extern_files:
            rel = os.path.join(os.path.dirname(m.relpath), inc)
            r = load_c(run.repo, rel)
            if r["unhandled"]:
                raise AnalysisError(f"{rel}: unsupported C constructs {r['unhandled'][:3]}")
            for k, v in r["funcs"].items():
                cfuncs[k] = v
    return cfuncs


def _shape_of_local(f: CyFunc, name):
    t = f.locals.get(name)
    if t is None:
        return None
    init = t[1]
    if init is None:
        # declared first, allocated by the one top-level assignment that follows:
        # `a = np.zeros(shape)`, or element k of `a, b = [np.zeros(s) for s in
        # (shape_a, shape_b)]`
        cand = []
        for st in f.body:
            if st.k != "assign":
                continue
            for tg in st.a[0]:
                if tg.k == "name" and tg.a[0] == name:
                    cand.append(st.a[1])
                elif tg.k == "tuple" and any(e.k == "name" and e.a[0] == name
                                             for e in tg.a[0]):
                    pos = [e.k == "name" and e.a[0] == name for e in tg.a[0]].index(True)
                    v = st.a[1]
                    if v.k == "listcomp" and v.a[1].k == "name" and \
                            v.a[2].k in ("tuple", "list") and \
                            len(v.a[2].a[0]) == len(tg.a[0]):
                        from .loopir import _subst_names_x
                        cand.append(_subst_names_x(v.a[0], {v.a[1].a[0]: v.a[2].a[0][pos]}))
                    elif v.k in ("tuple", "list") and len(v.a[0]) == len(tg.a[0]):
                        cand.append(v.a[0][pos])
                    else:
                        cand.append(None)
        # every other store into the name (in nested code) disqualifies
        nested = sum(1 for st in walk(f.body) if isinstance(st, X) and st.k == "assign"
                     and any((tg.k == "name" and tg.a[0] == name) or
                             (tg.k == "tuple" and any(e.k == "name" and e.a[0] == name
                                                      for e in tg.a[0]))
                             for tg in st.a[0]))
        if len(cand) != 1 or cand[0] is None or nested != 1:
            return None
        init = cand[0]
    if init.k == "call" and pp(init.a[0]) in ("np.zeros", "np.empty", "np.ones") \
            and init.a[1]:
        sh = init.a[1][0]
        dims = sh.a[0] if sh.k in ("tuple", "list") else [sh]
        return [d for d in dims], pp(init.a[0])
    return None


def _poly_of(x: X, mapping: dict) -> Poly | None:
    if x.k == "num" and isinstance(x.a[0], int):
        return Poly.const(x.a[0])
    if x.k == "name":
        if x.a[0] in mapping:
            return mapping[x.a[0]]
        return None
    if x.k == "bin" and x.a[0] in ("+", "-", "*"):
        l, r = _poly_of(x.a[1], mapping), _poly_of(x.a[2], mapping)
        if l is None or r is None:
            return None
        return l + r if x.a[0] == "+" else (l - r if x.a[0] == "-" else l * r)
    return None


def b2_b3_shapes(run: Run, prog: Program, cy: CyProgram, cfuncs, sites, handoffs):
    """Element width, contiguity, and the shape (in C parameter names) of every
    pointer handed to C."""
    shapes = {}       # cname -> {ptr param: ([Poly dims], init kind)}
    contracts = {}    # (wrapper name, buffer param) -> [wrapper int param per axis]
    n_ptr = 0
    # B4: contracts from python call sites
    state_ties = []
    for s in sites:
        k = s.kernel
        if not any(h.wrapper is k for h in handoffs):
            continue
        f = s.func
        argmap = dict(zip([a for a, _ in k.args], s.call.args))
        # shape bindings visible in the caller: N, M = X.shape ; n = X.shape[k]; len(X)
        binds = {}
        for st in ast.walk(f.node):
            if isinstance(st, ast.Assign) and isinstance(st.value, ast.Attribute) and \
                    st.value.attr == "shape" and isinstance(st.targets[0], ast.Tuple):
                base = ast.unparse(st.value.value)
                for ax, el in enumerate(st.targets[0].elts):
                    if isinstance(el, ast.Name):
                        binds[el.id] = (base, ax)
            elif isinstance(st, ast.Assign) and isinstance(st.targets[0], ast.Name) and \
                    isinstance(st.value, ast.Subscript) and \
                    isinstance(st.value.value, ast.Attribute) and \
                    st.value.value.attr == "shape" and \
                    isinstance(st.value.slice, ast.Constant):
                binds[st.targets[0].id] = (ast.unparse(st.value.value.value),
                                           st.value.slice.value)
        for (pn, pt) in k.args:
            if pt.kind != "buffer":
                continue
            a = argmap.get(pn)
            if a is None:
                continue
            base = a
            while isinstance(base, ast.Call) and ast.unparse(base.func) == "to_cy":
                base = base.args[0]
            bsrc = ast.unparse(base)
            axes = [None] * pt.ndim
            ashape = _attr_shape(prog, f, base)
            for (qn, qt) in k.args:
                if qt.kind != "simple":
                    continue
                v = argmap.get(qn)
                if isinstance(v, ast.Name) and v.id in binds:
                    src, ax = binds[v.id]
                    if _same_shape_source(f, bsrc, src) and ax < pt.ndim:
                        axes[ax] = qn
                elif v is not None and ashape is not None and len(ashape) == pt.ndim:
                    # object state: the extent expression is literally an axis of
                    # the symbolic shape of the array expression
                    vs = ast.unparse(v)
                    for ax, dsrc in enumerate(ashape):
                        if dsrc == vs and axes[ax] is None:
                            axes[ax] = qn
                            state_ties.append((s, k, pn, v, base))
            if ashape is not None and len(set(ashape)) == 1 and any(axes):
                # square arrays: one extent serves every axis
                one = [a for a in axes if a][0]
                axes = [a or one for a in axes]
            if any(a_ is None for a_ in axes):
                # an explicit guard `if X.shape != (e0, e1): raise` before the
                # call ties every axis of X to the extent passed as e_k
                for st in ast.walk(f.node):
                    if not (isinstance(st, ast.If) and st.lineno < s.call.lineno and
                            any(isinstance(x, ast.Raise) for x in st.body)):
                        continue
                    for c in ast.walk(st.test):
                        if isinstance(c, ast.Compare) and len(c.ops) == 1 and \
                                isinstance(c.ops[0], ast.NotEq) and \
                                isinstance(c.left, ast.Attribute) and \
                                c.left.attr == "shape" and \
                                ast.unparse(c.left.value) == bsrc and \
                                isinstance(c.comparators[0], ast.Tuple) and \
                                len(c.comparators[0].elts) == pt.ndim:
                            for ax, ex in enumerate(c.comparators[0].elts):
                                for (qn, qt) in k.args:
                                    v = argmap.get(qn)
                                    if qt.kind == "simple" and v is not None and \
                                            ast.unparse(v) == ast.unparse(ex) and \
                                            axes[ax] is None:
                                        axes[ax] = qn
            key = (k.name, pn)
            contracts.setdefault(key, []).append((s, axes, bsrc))
    _b4_state_freshness(run, prog, state_ties)
    # per hand-off
    for h in handoffs:
        w, call = h.wrapper, h.call
        cf = cfuncs.get(h.cname)
        ext = w.module.externs[h.cname]
        if cf is None:
            raise AnalysisError(f"C function {h.cname} not found in the included source")
        if len(call.a[1]) != len(cf.params):
            run.add("B2", f"{w.name}/{h.cname}/arity", w.where,
                    f"{w.name} calls {h.cname} with {len(call.a[1])} arguments, the C "
                    f"definition has {len(cf.params)}")
            continue
        # wrapper int -> C param name (position-wise)
        w2c = {}
        for arg, (cn, ct) in zip(call.a[1], cf.params):
            if arg.k == "name" and (w.vartype(arg.a[0]) is not None and
                                    w.vartype(arg.a[0]).kind == "simple"):
                w2c.setdefault(arg.a[0], Poly.sym(cn))
        shp = {}
        for i, (arg, (cn, ct), (en, et)) in enumerate(zip(call.a[1], cf.params, ext[1])):
            if not is_ptr_type(ct):
                continue
            n_ptr += 1
            inst = f"{w.name}->{h.cname}:{cn}"
            # a typed pointer local bound once to `<T*> PyArray_DATA(x)` stands
            # for that expression
            if arg.k == "name":
                ploc = w.locals.get(arg.a[0])
                cand = []
                if ploc is not None and ploc[1] is not None:
                    cand.append(ploc[1])
                for st_ in walk(w.body):
                    if isinstance(st_, X) and st_.k == "assign" and \
                            any(t_.k == "name" and t_.a[0] == arg.a[0] for t_ in st_.a[0]):
                        cand.append(st_.a[1])
                if len(cand) == 1 and cand[0].k == "cast":
                    arg = cand[0]
            # shape: <T*> cnp.PyArray_DATA(x)
            if not (arg.k == "cast" and arg.a[1].k == "call" and
                    pp(arg.a[1].a[0]).endswith("PyArray_DATA")):
                run.oblige("B2", inst, False)
                run.add("B2", f"{w.name}/{h.cname}/{cn}/form", w.where,
                        f"{w.name} passes `{pp(arg)}` for pointer parameter {cn}: not a "
                        f"`<T*> PyArray_DATA(array)` hand-off")
                continue
            cast_t = arg.a[0].rstrip("*").strip()
            x = arg.a[1].a[1][0]
            if x.k != "name":
                raise AnalysisError(f"{w.where}: PyArray_DATA of a non-name {pp(x)}")
            xt = w.vartype(x.a[0])
            if xt is None or xt.kind != "buffer":
                run.oblige("B2", inst, False)
                run.add("B2", f"{w.name}/{h.cname}/{cn}/untyped", w.where,
                        f"{w.name} hands the data pointer of the untyped object "
                        f"`{x.a[0]}` to C")
                continue
            # --- B2 width
            npdt = cy.types["c"].get(xt.name)
            arr_size = itemsize(npdt) if npdt else 0
            cast_c = cy.types["c"].get(cast_t)
            cast_size = itemsize(cast_c) if cast_c else C_SIZEOF.get(cast_t, 0)
            c_elem = ct.rstrip("*").strip()
            c_size = C_SIZEOF.get(c_elem, 0)
            ok = arr_size and arr_size == cast_size == c_size
            run.oblige("B2", inst, bool(ok), sample={
                "where": f"{w.module.relpath}:{call.line}", "array": str(xt),
                "cast": cast_t, "c_parameter": ct, "sizes": [arr_size, cast_size, c_size]})
            if not ok:
                run.add("B2", f"{w.name}/{h.cname}/{cn}/width",
                        f"{w.module.relpath}:{call.line}",
                        f"{w.name} hands `{x.a[0]}` ({xt}, {arr_size}-byte elements) to "
                        f"{h.cname} as `<{cast_t}*>` ({cast_size} bytes); the C definition "
                        f"declares `{ct} {cn}` ({c_size} bytes, LP64): every element "
                        f"access reads/writes {c_size} bytes where the array has "
                        f"{arr_size}, i.e. beyond the end of the buffer")
            # extern re-declaration vs definition (pointer params)
            e_elem = str(et).rstrip("*").strip() if et.kind == "ptr" else None
            if e_elem is not None:
                e_c = cy.types["c"].get(e_elem)
                e_size = itemsize(e_c) if e_c else C_SIZEOF.get(e_elem, 0)
                okx = e_size == c_size
                run.oblige("B2", inst + ":extern-decl", okx, nontrivial=False)
                if not okx and ok:
                    run.add("B2", f"{w.name}/{h.cname}/{cn}/extern-decl",
                            f"{w.module.relpath}:{ext[3]}",
                            f"`cdef extern` declares {cn} as {et} but the C definition "
                            f"uses {ct}")
            # --- B3 contiguity
            local = _shape_of_local(w, x.a[0])
            is_param = w.argtype(x.a[0]) is not None
            contiguous = xt.mode == "c" or local is not None
            if not contiguous and is_param:
                # every python call site passes a fresh C-ordered copy
                css = [s for s in sites if s.kernel is w]
                argi = [a for a, _ in w.args].index(x.a[0])
                def _is_to_cy(s_):
                    a_ = s_.call.args[argi]
                    if isinstance(a_, ast.Name):     # a local bound once to to_cy(...)
                        from .idioms import single_defs
                        a_ = single_defs(s_.func.node).get(a_.id, a_)
                    return isinstance(a_, ast.Call) and ast.unparse(a_.func) == "to_cy"
                contiguous = bool(css) and all(_is_to_cy(s_) for s_ in css) and \
                    cy.types["to_cy_c_copy"]
                how = "call sites pass to_cy(...)"
            else:
                how = "mode='c'" if xt.mode == "c" else "local allocation"
            run.oblige("B3", inst, contiguous, sample={"how": how})
            if not contiguous:
                run.add("B3", f"{w.name}/{h.cname}/{cn}/contiguity", w.where,
                        f"{w.name} hands the raw data pointer of `{x.a[0]}` to C, but "
                        f"the buffer is not declared mode='c' and not every call site "
                        f"passes a fresh C-ordered array: a transposed/strided view "
                        f"would be read with row-major offsets")
            # --- B10: the array whose data pointer is taken is an array (a typed
            # buffer parameter accepts None unless declared `not None`, and
            # PyArray_DATA(None) reads through a NULL/garbage object)
            if is_param:
                nn = bool(getattr(xt, "not_none", False))
                how_nn = "declared `not None`"
                if not nn:
                    css = [s for s in sites if s.kernel is w]
                    argi = [a for a, _ in w.args].index(x.a[0])

                    def _is_array(s_):
                        if argi >= len(s_.call.args):
                            return False
                        a_ = s_.call.args[argi]
                        if isinstance(a_, ast.Name):
                            from .idioms import single_defs
                            a_ = single_defs(s_.func.node).get(a_.id, a_)
                        return isinstance(a_, ast.Call) and (
                            ast.unparse(a_.func) == "to_cy" or
                            ast.unparse(a_.func).startswith("np."))
                    nn = bool(css) and all(_is_array(s_) for s_ in css)
                    how_nn = "every call site passes to_cy(...) / a numpy constructor"
                run.oblige("B10", inst, nn, sample={"how": how_nn})
                if not nn:
                    run.add("B10", f"{w.name}/{h.cname}/{cn}/none", w.where,
                            f"{w.name} takes the data pointer of `{x.a[0]}` "
                            f"(PyArray_DATA) but the parameter is not declared `not None` "
                            f"and not every call site passes a freshly made array: None "
                            f"is accepted by the typed-buffer check and its data pointer "
                            f"is read from a non-array object")
            # --- shapes for B5
            if local is not None:
                dims, kind = local
                pd = [_poly_of(d, w2c) for d in dims]
                if any(p_ is None for p_ in pd):
                    raise AnalysisError(f"{w.where}: shape {[pp(d) for d in dims]} of "
                                        f"`{x.a[0]}` not expressible in C parameters")
                shp[cn] = (pd, kind, x.a[0])
            else:
                cons = contracts.get((w.name, x.a[0]), [])
                dims = None
                for (s, axes, bsrc) in cons:
                    if all(a is not None for a in axes):
                        dims = axes
                tied = dims is not None
                run.oblige("B4", inst, tied, sample={
                    "call_sites": [s.where for s, _, _ in cons],
                    "axes": [a for _, a, _ in cons]})
                if not tied:
                    # intended shape = that of a sibling buffer parameter with the
                    # same declared type that *is* tied
                    for (pn2, pt2) in w.args:
                        if pn2 != x.a[0] and pt2.kind == "buffer" and \
                                (pt2.name, pt2.ndim) == (xt.name, xt.ndim):
                            for (s, axes, bsrc) in contracts.get((w.name, pn2), []):
                                if all(a is not None for a in axes):
                                    dims = axes
                    for (s, axes, bsrc) in cons:
                        run.add("B4", f"{s.func.qualname}/{w.name}/{x.a[0]}", s.where,
                                f"{s.func.qualname} passes `{bsrc}` as `{x.a[0]}` to "
                                f"{w.name}, which hands its raw pointer to {h.cname}; the "
                                f"extents the C code uses are taken from another array's "
                                f"shape and `{bsrc}` is never checked against them: a "
                                f"smaller array is read past its end")
                if dims is None:
                    shp[cn] = (None, "param", x.a[0])
                else:
                    shp[cn] = ([w2c.get(d) for d in dims], "param", x.a[0])
                    if any(p_ is None for p_ in shp[cn][0]):
                        shp[cn] = (None, "param", x.a[0])
        shapes[h.cname] = shp
        h.w2c = w2c
    run.floor("raw pointer hand-offs", n_ptr, 20, hard=True)
    return shapes


SHAPE_KEEP = ("argsort", "astype", "copy")


def _strip_shape_keeping(e):
    while True:
        if isinstance(e, ast.Call) and isinstance(e.func, ast.Attribute) and \
                e.func.attr in SHAPE_KEEP:
            e = e.func.value
            continue
        if isinstance(e, ast.BinOp) and isinstance(e.right, ast.Constant):
            e = e.left
            continue
        if isinstance(e, ast.BinOp) and isinstance(e.left, ast.Constant):
            e = e.right
            continue
        if isinstance(e, ast.Call) and ast.unparse(e.func) == "to_cy":
            e = e.args[0]
            continue
        return e


def _local_defs(fnode):
    defs = {}
    for st in ast.walk(fnode):
        if isinstance(st, ast.Assign) and isinstance(st.targets[0], ast.Name):
            defs.setdefault(st.targets[0].id, []).append(st.value)
    return defs


def _returns_shape_of_param(m) -> str | None:
    """Name of the parameter whose shape every return value of m has."""
    defs = _local_defs(m.node)
    out = set()
    for r in ast.walk(m.node):
        if isinstance(r, ast.Return) and r.value is not None:
            e = _strip_shape_keeping(r.value)
            hops = 0
            while isinstance(e, ast.Name) and e.id not in m.params and hops < 6:
                d = defs.get(e.id)
                if not d or len(d) != 1:
                    return None
                e = _strip_shape_keeping(d[0])
                hops += 1
            if isinstance(e, ast.Name) and e.id in m.params:
                out.add(e.id)
            else:
                return None
    return out.pop() if len(out) == 1 else None


def _b4_state_freshness(run: Run, prog: Program, ties):
    """An extent taken from object state (`self.N`) is tied to a buffer taken
    from object state (`self.get_R()`) only as long as both are rewritten
    together: every public entry point that rewrites the size cell must also
    rewrite the cells the buffer is read from, otherwise the kernel is handed the
    new extent with the old, smaller buffer."""
    from .pymodel import iter_events
    from .rules_c01 import CacheModel
    cm = CacheModel(prog)
    seen = set()
    for (s, k, pn, v, base) in ties:
        f = s.func
        if f.cls is None or not f.params:
            continue
        sn = f.params[0]
        size_cells = {x.attr for x in ast.walk(v) if isinstance(x, ast.Attribute)
                      and isinstance(x.value, ast.Name) and x.value.id == sn}
        if not size_cells:
            continue
        # cells the buffer expression reads (through getters / methods)
        t = prog.tree(f, f.cls, {})
        arr_cells = set()
        wrapper = ast.Expr(value=base)
        for x in ast.walk(base):
            if isinstance(x, ast.Attribute) and isinstance(x.value, ast.Name) and \
                    x.value.id == sn:
                m = prog.lookup(f.cls, x.attr)
                if m is not None and m.kind in ("method", "getter"):
                    mt = prog.tree(m, f.cls, {})
                    arr_cells |= {e.cell for e in iter_events(mt) if e.kind == "read"
                                  and e.cell and not e.cell.startswith("graph")
                                  and e.cell not in size_cells
                                  and e.cell != "silence_level"}
                elif m is None:
                    arr_cells.add(x.attr)
        arr_cells -= size_cells
        if not arr_cells:
            continue
        # an explicit guard `if X.shape != (extent, ...): raise` in the caller ties
        # the buffer to the extent at the call, whatever happened before
        vs = ast.unparse(v)
        guarded = set()
        for st in ast.walk(f.node):
            if isinstance(st, ast.If) and any(isinstance(x, ast.Raise) for x in st.body):
                for c in ast.walk(st.test):
                    if isinstance(c, ast.Compare) and len(c.ops) == 1 and \
                            isinstance(c.ops[0], ast.NotEq) and \
                            isinstance(c.left, ast.Attribute) and c.left.attr == "shape" \
                            and isinstance(c.comparators[0], ast.Tuple) and \
                            all(ast.unparse(e) == vs for e in c.comparators[0].elts):
                        guarded.add(ast.unparse(c.left.value))
        if ast.unparse(base) in guarded:
            run.oblige("B4", f"{f.qualname}->{k.name}:{pn}:shape-guard", True,
                       sample={"guard": f"{ast.unparse(base)}.shape != ({vs}, ...)"})
            continue
        for C in [c for c in prog.classes.values() if f.cls in c.mro]:
            for a in cm.activations(C):
                tr = prog.tree(a, C, {})
                evs = list(iter_events(tr))
                wsize = [e for e in evs if e.kind in ("write", "assign")
                         and e.cell in size_cells]
                if not wsize:
                    continue
                warr = {e.cell for e in evs if e.kind in ("write", "assign")}
                stale = sorted(arr_cells - warr)
                wq = wsize[0].func.qualname
                key = (f.qualname, k.name, wq, tuple(stale))
                if key in seen:
                    continue
                seen.add(key)
                run.oblige("B4", f"{f.qualname}->{k.name}:fresh-after:{wq}",
                           not stale, sample={"size_cells": sorted(size_cells),
                                              "buffer_cells": sorted(arr_cells)})
                if stale:
                    run.add("B4", f"{f.qualname}/{k.name}/stale-shape/{wq}",
                            wsize[0].where,
                            f"{f.qualname} passes the extent `{ast.unparse(v)}` together "
                            f"with `{ast.unparse(base)}` to {k.name} (raw pointers in C); "
                            f"{wq} (reached e.g. from {a.qualname}) rewrites "
                            f"{sorted(size_cells)} but not "
                            f"{stale}: after it the kernel walks the new extent over the "
                            f"old buffer - beyond its end when the network grew")


def _same_shape_source(f, a_src: str, b_src: str) -> bool:
    """Is the array expression a_src the same array as / shape-preservingly
    derived from b_src inside function f?"""
    if a_src == b_src:
        return True
    defs = _local_defs(f.node)
    # an explicit guard `if A.shape != B.shape: raise ...` ties the two
    for st in ast.walk(f.node):
        if isinstance(st, ast.If) and isinstance(st.test, ast.Compare) and \
                isinstance(st.test.ops[0], ast.NotEq) and \
                any(isinstance(x, ast.Raise) for x in st.body):
            l, r = ast.unparse(st.test.left), ast.unparse(st.test.comparators[0])
            if {l, r} == {f"{a_src}.shape", f"{b_src}.shape"}:
                return True
    seen = set()
    work = [a_src]
    while work:
        cur = work.pop()
        if cur in seen:
            continue
        seen.add(cur)
        if cur == b_src:
            return True
        for v in defs.get(cur, []):
            e = _strip_shape_keeping(v)
            if isinstance(e, ast.Name):
                work.append(e.id)
            elif isinstance(e, ast.Call) and isinstance(e.func, ast.Attribute) and \
                    isinstance(e.func.value, ast.Name) and e.func.value.id == "self" \
                    and f.cls is not None and e.args:
                m = None
                for c in f.cls.mro:
                    if e.func.attr in c.methods:
                        m = c.methods[e.func.attr]
                        break
                if m is not None:
                    pn = _returns_shape_of_param(m)
                    if pn is not None:
                        ps = m.params if m.kind == "static" else m.params[1:]
                        if pn in ps and ps.index(pn) < len(e.args) and \
                                isinstance(e.args[ps.index(pn)], ast.Name):
                            work.append(e.args[ps.index(pn)].id)
    return False


def _attr_shape(prog: Program, f, expr) -> list | None:
    """Symbolic shape (list of source strings) of an expression built from
    object state: self.m() / self.cell / X.toarray() / sparse.lil_matrix(..) /
    np.linalg.pinv / np.diag / sum / binary arithmetic."""
    cls = f.cls

    def dim_src(x, ctx):
        # an extent held in a local stands for what it was bound to
        if ctx is not None:
            from .idioms import inline_locals
            x = inline_locals(ctx, x)
        return ast.unparse(x)

    def shape(e, depth=0, ctx=None):
        if depth > 20 or e is None:
            return None
        if isinstance(e, ast.Call):
            fn = ast.unparse(e.func)
            if isinstance(e.func, ast.Attribute) and e.func.attr in (
                    "toarray", "todense", "copy", "astype", "tocsc", "tolil"):
                return shape(e.func.value, depth + 1, ctx)
            if fn.endswith(("lil_matrix", "csc_matrix", "csr_matrix", "coo_matrix")) \
                    and e.args:
                a = e.args[0]
                if isinstance(a, ast.Tuple):
                    return [dim_src(x, ctx) for x in a.elts]
                return shape(a, depth + 1, ctx)
            if fn in ("np.linalg.pinv", "np.linalg.inv"):
                sh = shape(e.args[0], depth + 1, ctx)
                return list(reversed(sh)) if sh else None
            if fn == "np.diag" and e.args:
                sh = shape(e.args[0], depth + 1, ctx)
                if sh and len(sh) == 1:
                    return [sh[0], sh[0]]
                return None
            if fn == "sum" and e.args:
                sh = shape(e.args[0], depth + 1, ctx)
                return sh[1:] if sh and len(sh) > 1 else None
            if fn in ("np.zeros", "np.ones", "np.empty") and e.args:
                a = e.args[0]
                if isinstance(a, ast.Tuple):
                    return [dim_src(x, ctx) for x in a.elts]
                return None
            if fn == "to_cy" and e.args:
                return shape(e.args[0], depth + 1, ctx)
            if isinstance(e.func, ast.Attribute) and isinstance(e.func.value, ast.Name) \
                    and e.func.value.id == "self" and cls is not None:
                m = prog.lookup(cls, e.func.attr)
                if m is None:
                    return None
                shs = [shape(r.value, depth + 1, m.node) for r in ast.walk(m.node)
                       if isinstance(r, ast.Return) and r.value is not None]
                if shs and all(x == shs[0] and x is not None for x in shs):
                    return shs[0]
                return None
            return None
        if isinstance(e, ast.BinOp):
            l, r = shape(e.left, depth + 1, ctx), shape(e.right, depth + 1, ctx)
            if l and r:
                return l if len(l) >= len(r) else r
            return l or r
        if isinstance(e, ast.Attribute) and isinstance(e.value, ast.Name) and \
                e.value.id == "self" and cls is not None:
            shs = []
            for c in cls.mro:
                for m in c.methods.values():
                    for n in ast.walk(m.node):
                        if isinstance(n, ast.Assign) and any(
                                isinstance(t, ast.Attribute) and t.attr == e.attr and
                                isinstance(t.value, ast.Name) and t.value.id == "self"
                                for t in n.targets):
                            if isinstance(n.value, ast.Constant) and n.value.value is None:
                                continue
                            shs.append(shape(n.value, depth + 1, m.node))
            if shs and all(x == shs[0] and x is not None for x in shs):
                return shs[0]
            return None
        if isinstance(e, ast.Name) and ctx is not None:
            ds = [n.value for n in ast.walk(ctx) if isinstance(n, ast.Assign)
                  and len(n.targets) == 1 and isinstance(n.targets[0], ast.Name)
                  and n.targets[0].id == e.id]
            shs = [shape(d, depth + 1, ctx) for d in ds]
            if shs and all(x == shs[0] and x is not None for x in shs):
                return shs[0]
            return None
        return None
    return shape(expr, 0, f.node)


# ---------------------------------------------------------------------------
# B5 / B6

def b5_b6(run: Run, prog, cy, cfuncs, shapes, handoffs, sites):
    n_acc = 0
    for h in handoffs:
        cf = cfuncs[h.cname]
        it = CInterp(cf, cfuncs)
        it.run(cf.body)
        shp = dict(shapes.get(h.cname, {}))
        for name, cnt in it.alloca.items():
            shp[name] = ([cnt], "alloca", name)
            # B9: a stack allocation whose size grows with an extent of the data
            # has no bound: the stack is a fixed few MB, alloca does not fail but
            # moves the stack pointer past its end
            grows = sorted(cnt.symbols() & {n for n, t in cf.params if is_int_type(t)})
            fixed = cnt.is_const()
            run.oblige("B9", f"{h.cname}:{name}", fixed or not grows, sample={
                "where": cf.where, "elements": str(cnt)})
            if grows:
                run.add("B9", f"{h.cname}/{name}/stack-allocation", cf.where,
                        f"{h.cname}: `{name}` is allocated on the stack (alloca) with "
                        f"{cnt} elements, i.e. proportional to the parameter(s) {grows} "
                        f"that the callers do not bound: for a long series the "
                        f"allocation runs past the end of the stack and the first "
                        f"accesses land outside it")
        # sizes and loop bounds: extent parameters
        extents = set()
        for base, (dims, kind, arr) in shp.items():
            for d in dims or []:
                extents |= d.symbols()
        for s in it.syms.values():
            if s.origin == "loop":
                for b in (s.lo, s.hi):
                    if b is not None:
                        extents |= {x for x in b.symbols() if x in dict(cf.params)}
        int_params = {n for n, t in cf.params if is_int_type(t)}
        index_params = int_params - extents
        # content facts -> data symbol ranges
        for base, syms in it.data_syms.items():
            vals = it.content.get(base, [])
            dims, kind, arr = shp.get(base, (None, None, None))
            lo = hi = None
            first = True
            ok_init = kind in ("np.zeros",) or _fully_written_before_reads(it, base, dims)
            cand = [v for v, ln in vals]
            if kind == "np.zeros":
                cand.append(Poly.const(0))
            los, his = [], []
            for v in cand:
                l, u = it.bounds(v)
                los.append(l)
                his.append(u)
            if cand and all(l is not None for l in los) and ok_init:
                # all lower bounds must be >= 0 -> use 0 when every one is nonneg
                if all(it.nonneg(l) for l in los):
                    lo = Poly.const(0)
            if cand and all(u is not None for u in his) and ok_init:
                best = his[0]
                for u in his[1:]:
                    if it.leq(best, u):
                        best = u
                    elif not it.leq(u, best):
                        best = None
                        break
                hi = best
            for sname in syms:
                it.syms[sname].lo = lo
                it.syms[sname].hi = hi
        # B6: float->int casts feeding array contents
        for (e, fvar, sname, has_lo, has_hi) in it.casts:
            inst = f"{h.cname}:{fvar}@{e.line}"
            run.oblige("B6", inst + ":upper", has_hi, sample={
                "where": f"{cf.relpath}:{e.line}", "expr": pp(e)})
            if not has_hi:
                run.add("B6", f"{h.cname}/{fvar}/upper-clamp", f"{cf.relpath}:{e.line}",
                        f"{h.cname}: the bin index `{pp(e)}` is not dominated by the "
                        f"test `{fvar} < 1.0`: a sample at the top of the range indexes "
                        f"one past the last bin")
            lower = has_lo or _lower_fact(run, cy, cf, h, fvar, it, sites)
            run.oblige("B6", inst + ":lower", lower)
            if lower and not has_lo:
                it.syms[sname].lo = Poly.const(0)
            if not lower:
                run.add("B6", f"{h.cname}/{fvar}/lower-clamp", f"{cf.relpath}:{e.line}",
                        f"{h.cname}: the bin index `{pp(e)}` has no lower clamp and the "
                        f"caller does not guarantee `{fvar} >= 0` (range_min must be the "
                        f"minimum over *every* array that is binned with it): a sample "
                        f"below range_min yields a negative index into the histograms")
        # preconditions enforced by the wrapper (`if n < 1: raise ...`)
        guarded = _guarded_positive(h)
        run.extra.setdefault("guarded_positive", {})[h.cname] = sorted(guarded)
        # scalars that merge a clamped cast with its clamp value (if/else joins):
        # their range follows the ranges just established for the casts
        for sname, (pa, pb) in getattr(it, "joins", {}).items():
            la, ha = it.bounds(pa)
            lb, hb = it.bounds(pb)
            lo = hi = None
            if la is not None and lb is not None:
                lo = la if it.leq(la, lb, guarded) else (lb if it.leq(lb, la, guarded)
                                                         else None)
            if ha is not None and hb is not None:
                hi = ha if it.leq(hb, ha, guarded) else (hb if it.leq(ha, hb, guarded)
                                                         else None)
            if sname in it.syms:
                it.syms[sname].lo, it.syms[sname].hi = lo, hi
        # re-resolve data symbols whose content came from those casts
        for base, syms in it.data_syms.items():
            vals = it.content.get(base, [])
            dims, kind, arr = shp.get(base, (None, None, None))
            ok_init = kind in ("np.zeros",) or _fully_written_before_reads(it, base, dims)
            cand = [v for v, ln in vals] + ([Poly.const(0)] if kind == "np.zeros" else [])
            bl = [it.bounds(v) for v in cand]
            lo = Poly.const(0) if cand and ok_init and all(
                l is not None and it.nonneg(l, guarded) for l, u in bl) else None
            hi = None
            if cand and ok_init and all(u is not None for l, u in bl):
                hi = bl[0][1]
                for l, u in bl[1:]:
                    if it.leq(hi, u, guarded):
                        hi = u
                    elif not it.leq(u, hi, guarded):
                        hi = None
                        break
            for sname in syms:
                it.syms[sname].lo, it.syms[sname].hi = lo, hi
        # B5: every access inside its buffer
        seen = set()
        for a in it.accesses:
            key = (a.base, str(a.offset), a.kind)
            if key in seen:
                continue
            seen.add(key)
            n_acc += 1
            dims, kind, arr = shp.get(a.base, (None, None, None))
            inst = f"{h.cname}:{a.base}[{a.offset}]:{a.kind}"
            if dims is None:
                run.oblige("B5", inst, False)
                run.add("B5", f"{h.cname}/{a.base}/no-shape", f"{cf.relpath}:{a.line}",
                        f"{h.cname}: no shape contract for `{a.base}` (see B4): "
                        f"`{a.expr}` cannot be bounded")
                continue
            size = Poly.const(1)
            for d in dims:
                size = size * d
            lo, hi = it.bounds(a.offset)
            used_index_params = a.offset.symbols() & index_params
            pos = it.positive_extents(a.loops) | guarded
            ok_lo = lo is not None and it.nonneg(lo, pos) and not used_index_params
            ok_hi = hi is not None and it.leq(hi, size - Poly.const(1), pos) and \
                not used_index_params
            ok = ok_lo and ok_hi
            if used_index_params:
                # bounds with the index parameter treated as checked
                p_ = sorted(used_index_params)[0]
                wrapper_checks = _range_checked(h.wrapper, p_, h) or \
                    _callers_range_check(h, p_, sites, cf)
                if wrapper_checks:
                    # 0 <= p < extent established by the caller: bound it like a
                    # loop counter over the first axis it multiplies
                    from .cinterp import Sym
                    ext = dims[0]
                    it.syms[p_] = Sym(p_, Poly(), ext - Poly.const(1), origin="loop")
                    lo, hi = it.bounds(a.offset)
                    ok = lo is not None and it.nonneg(lo, pos) and hi is not None and \
                        it.leq(hi, size - Poly.const(1), pos)
                    it.syms[p_] = Sym(p_, origin="param")
                    used_index_params = set() if ok else used_index_params
            run.oblige("B5", inst, ok, sample={
                "where": f"{cf.relpath}:{a.line}", "access": a.expr,
                "offset": str(a.offset), "upper_bound": str(hi), "size": str(size)})
            if ok:
                _b8_layout(run, h, cf, a, dims, arr)
                continue
            if used_index_params:
                p_ = sorted(used_index_params)[0]
                wrapper_checks = False
                if not wrapper_checks:
                    pub = sorted({s.func.qualname for s in sites if s.kernel is h.wrapper})
                    run.add("B5", f"{h.cname}/{a.base}/index-param/{p_}",
                            f"{cf.relpath}:{a.line}",
                            f"{h.cname}: `{a.expr}` indexes `{a.base}` (size {size}) with "
                            f"the scalar parameter `{p_}`, which neither the wrapper "
                            f"{h.wrapper.name} nor its caller(s) {pub} range-check: an "
                            f"invalid node index reads foreign memory instead of raising")
                continue
            stable = re.sub(r"[?#]\d+", "", str(a.offset).replace(" ", ""))
            run.add("B5", f"{h.cname}/{a.base}/{'read' if a.kind == 'r' else 'write'}/"
                    f"{stable}", f"{cf.relpath}:{a.line}",
                    f"{h.cname}: `{a.expr}` {'reads' if a.kind == 'r' else 'writes'} "
                    f"`{a.base}` at offset {a.offset} (up to {hi}); the array "
                    f"`{arr}` has {size} elements (shape {[str(d) for d in dims]}): not "
                    f"provably inside the buffer for all sizes (e.g. when "
                    f"{_witness(size, hi)})")
    run.floor("distinct C memory accesses analysed", n_acc, 60, hard=True)


def _b8_layout(run, h, cf, a, dims, arr):
    """Row-major layout: in a 2-D array with rows of dims[1] elements the row
    index is multiplied by dims[1].  An in-bounds access whose index is
    multiplied by dims[0] instead (dims[0] != dims[1]) addresses the transposed
    layout: right size, wrong elements.  That is no violation of C20 (every
    access stays inside the buffer) - the obligations are collected in
    `run.layout` and decided by C10 (rule A5), which re-uses this analysis."""
    if len(dims) != 2 or dims[0] == dims[1] or not all(
            len(d.t) == 1 and list(d.t.values()) == [1] and len(next(iter(d.t))) == 1
            for d in dims):
        return
    d0, d1 = (next(iter(d.t))[0] for d in dims)
    if not hasattr(run, "layout"):
        run.layout = []
    for key, c in sorted(a.offset.t.items()):
        idx = [x for x in key if x not in (d0, d1)]
        ext = [x for x in key if x in (d0, d1)]
        if len(idx) != 1 or len(ext) != 1:
            continue
        ok = ext[0] == d1
        run.layout.append({
            "instance": f"{h.cname}:{a.base}:stride@{re.sub(r'[?#][0-9]+', '', idx[0])}",
            "ok": ok, "file": cf.relpath,
            "sample": {"where": f"{cf.relpath}:{a.line}", "offset": str(a.offset),
                       "shape": [d0, d1]},
            "key": f"{h.cname}/{a.base}/row-stride", "where": f"{cf.relpath}:{a.line}",
            "message": (
                f"{h.cname}: `{a.expr}` addresses `{a.base}` at offset {a.offset}, i.e. "
                f"with rows of {d0} elements, but the array `{arr}` handed over has "
                f"shape ({d0}, {d1}) - rows of {d1} elements: every access is inside the "
                f"buffer but reads the transposed layout")})


def _guarded_positive(h) -> set:
    """C parameters whose wrapper argument is checked `< 1` / `<= 0` -> raise."""
    out = set()
    w = h.wrapper

    def checked_names(body):
        """names n for which `if n < 1 (or n <= 0): raise` stands in `body`"""
        names = set()
        for s in walk(body):
            if isinstance(s, X) and s.k == "if":
                for cond, b in s.a[0]:
                    if not any(x.k == "raise" for x in b):
                        continue
                    for c in ([cond] if cond.k != "boolop" else cond.a[1]):
                        if c.k == "cmp" and c.a[1].k == "name" and c.a[2].k == "num":
                            if (c.a[0] == "<" and c.a[2].a[0] >= 1) or \
                                    (c.a[0] == "<=" and c.a[2].a[0] >= 0):
                                names.add(c.a[1].a[0])
        return names
    wnames = set(checked_names(w.body))
    # the same test factored into a validation helper of the module, called as
    # a statement at the top level of the wrapper: _require_positive(n, "n")
    for st in w.body:
        if st.k == "expr" and st.a[0].k == "call" and st.a[0].a[0].k == "name":
            g = w.module.funcs.get(st.a[0].a[0].a[0])
            if g is None or len(g.args) != len(st.a[0].a[1]):
                continue
            chk = checked_names(g.body)
            for (pn, _), a in zip(g.args, st.a[0].a[1]):
                if pn in chk and a.k == "name":
                    wnames.add(a.a[0])
    for wname in wnames:
        p_ = h.w2c.get(wname)
        if p_ is not None:
            out |= p_.symbols()
    return out


def _witness(size: Poly, hi) -> str:
    if hi is None:
        return "the index is unbounded"
    d = (size - Poly.const(1)) - hi
    neg = [f"{'*'.join(k)}" for k, v in d.t.items() if v < 0 and k]
    return f"the terms {neg} dominate, i.e. size-1-maxoffset = {d} < 0"


def _fully_written_before_reads(it: CInterp, base, dims) -> bool:
    if not dims:
        return False
    size = Poly.const(1)
    for d in dims:
        size = size * d
    for a in it.accesses:
        if a.base == base and a.kind == "w" and a.cond_depth == 0:
            lo, hi = it.bounds(a.offset)
            if lo is not None and hi is not None and lo == Poly() and \
                    hi == size - Poly.const(1):
                syms = a.offset.symbols()
                if all(it.syms[s].origin == "loop" for s in syms if s in it.syms
                       and "#" in s):
                    return True
    return False


def _range_checked(w: CyFunc, cparam: str, h) -> bool:
    # wrapper-level: `if not 0 <= i < N: raise` style checks
    for s in walk(w.body):
        if isinstance(s, X) and s.k == "if":
            for cond, b in s.a[0]:
                if cparam in names_in(cond) and any(x.k == "other" or
                                                    (x.k == "expr") for x in b):
                    return True
    return False


def _callers_range_check(h, cparam, sites, cf) -> bool:
    """Every Python call site of the wrapper checks `0 <= arg < extent` (raising
    otherwise) before the call, for the argument that becomes C parameter
    `cparam`."""
    w = h.wrapper
    # which wrapper parameter is forwarded as cparam?
    cidx = [cn for cn, _ in cf.params].index(cparam)
    arg = h.call.a[1][cidx]
    if arg.k != "name" or w.argtype(arg.a[0]) is None:
        return False
    widx = [a for a, _ in w.args].index(arg.a[0])
    css = [s for s in sites if s.kernel is w]
    if not css:
        return False
    for s in css:
        v = s.call.args[widx]
        vs = ast.unparse(v)
        ok = False
        for st in ast.walk(s.func.node):
            if isinstance(st, ast.If) and any(isinstance(x, ast.Raise) for x in st.body) \
                    and st.lineno < s.call.lineno:
                t = ast.unparse(st.test).replace(" ", "")
                if t.startswith(f"not0<={vs}<") or \
                        (f"{vs}<0" in t and (f"{vs}>=" in t)):
                    ok = True
        if not ok:
            return False
    return True


def _subst_x(x, mapping: dict):
    """Copy of an IR tree with `name` nodes replaced by expressions."""
    if isinstance(x, X):
        if x.k == "name" and x.a[0] in mapping:
            return mapping[x.a[0]]
        return X(x.k, *[_subst_x(v, mapping) for v in x.a], line=x.line)
    if isinstance(x, list):
        return [_subst_x(v, mapping) for v in x]
    if isinstance(x, tuple):
        return tuple(_subst_x(v, mapping) for v in x)
    return x


def _defs_through_helpers(cf, fvar, it: CInterp, depth=0):
    """Right-hand sides of the definitions of the float local `fvar`: in the
    kernel itself, or in a same-file C helper the kernel calls - then with the
    helper's parameters replaced by the arguments of each call."""
    out = []
    for s in walk(cf.body):
        if not isinstance(s, X):
            continue
        if s.k == "assign" and any(t.k == "name" and t.a[0] == fvar for t in s.a[0]):
            out.append(s.a[1])
        elif s.k == "cdecl":
            out.extend(init for name, _t, init in s.a[0]
                       if name == fvar and init is not None)
        elif s.k == "call" and s.a[0].k == "name" and s.a[0].a[0] in it.cfuncs \
                and depth < 3:
            hf = it.cfuncs[s.a[0].a[0]]
            if hf is cf or len(hf.params) != len(s.a[1]):
                continue
            mp = {pn: a for (pn, _), a in zip(hf.params, s.a[1])}
            # pointer locals of the helper that walk one of its pointer
            # parameters (`p = data + off`) stand for that parameter
            ptr_params = {pn for pn, pt in hf.params if is_ptr_type(pt)}
            loc = {}
            for st_ in walk(hf.body):
                if isinstance(st_, X) and st_.k == "assign" and len(st_.a[0]) == 1 and \
                        st_.a[0][0].k == "name" and st_.a[0][0].a[0] not in mp:
                    roots_ = names_in(st_.a[1]) & ptr_params
                    if len(roots_) == 1:
                        loc.setdefault(st_.a[0][0].a[0], set()).add(next(iter(roots_)))
            for ln_, roots_ in loc.items():
                if len(roots_) == 1:
                    mp[ln_] = mp[next(iter(roots_))]
            for e in _defs_through_helpers(hf, fvar, it, depth + 1):
                out.append(_subst_x(e, mp))
    return out


def _lower_fact(run, cy, cf, h, fvar, it: CInterp, sites) -> bool:
    """`fvar = scaling * (x - range_min)` is >= 0 when range_min is the minimum
    over every array whose elements are binned with it and scaling > 0."""
    d = it.float_defs.get(fvar)
    if d is None:
        return False
    # which C pointer params are read in definitions of fvar, and which scalar
    # is subtracted
    bases = set()
    sub = None
    for e in _defs_through_helpers(cf, fvar, it):
        if True:
            if e.k == "bin" and e.a[0] == "*":
                for part in (e.a[1], e.a[2]):
                    if part.k == "bin" and part.a[0] == "-" and part.a[2].k == "name":
                        sub = part.a[2].a[0]
                        der = part.a[1]
                        # *p  |  p[k]  |  *(p + k): the pointer the sample is read from
                        if der.k == "deref" and der.a[0].k == "name":
                            bases.add(der.a[0].a[0])
                        elif der.k == "index" and der.a[0].k == "name":
                            bases.add(der.a[0].a[0])
                        elif der.k == "index":
                            # (p + off)[k]: the one pointer the base is built from
                            pn = [n_ for n_ in names_in(der.a[0])
                                  if it.env.get(n_, ("",))[0] == "ptr" or
                                  (n_ in dict(cf.params) and
                                   is_ptr_type(dict(cf.params)[n_]))]
                            if len(pn) == 1:
                                bases.add(pn[0])
                        elif der.k == "deref":
                            pn = [n_ for n_ in names_in(der.a[0])
                                  if it.env.get(n_, ("",))[0] == "ptr" or
                                  (n_ in dict(cf.params) and
                                   is_ptr_type(dict(cf.params)[n_]))]
                            if len(pn) == 1:
                                bases.add(pn[0])
    if sub is None or not bases:
        return False
    # map local pointers back to the parameter they were derived from
    roots = set()
    for b in bases:
        v = it.env.get(b)
        root = None
        for a in it.accesses:
            pass
        # local pointer names are assigned from `param + offset`
        for s in walk(cf.body):
            if isinstance(s, X) and s.k == "assign" and any(
                    t.k == "name" and t.a[0] == b for t in s.a[0]):
                for nme in names_in(s.a[1]):
                    if nme in dict(cf.params) and is_ptr_type(dict(cf.params)[nme]):
                        root = nme
                        roots.add(nme)
            # ... or declared with that initialiser (possibly in several scopes:
            # every one of them is a root)
            if isinstance(s, X) and s.k == "cdecl":
                for dn, dt, di in s.a[0]:
                    if dn == b and di is not None:
                        for nme in names_in(di):
                            if nme in dict(cf.params) and \
                                    is_ptr_type(dict(cf.params)[nme]):
                                roots.add(nme)
                                root = nme
        roots.add(root or b)
    # wrapper level: which arrays are those, and how is `sub` (range_min) computed
    w = h.wrapper
    cidx = {cn: i for i, (cn, _) in enumerate(cf.params)}
    call = h.call
    arrays = set()
    for r in roots:
        if r not in cidx:
            return False
        arg = call.a[1][cidx[r]]
        if arg.k == "cast" and arg.a[1].k == "call":
            arrays.add(pp(arg.a[1].a[1][0]))
    rm = call.a[1][cidx[sub]] if sub in cidx else None
    if rm is None or rm.k != "name":
        return False
    rname = rm.a[0]
    # (a) computed in the wrapper
    if rname in w.locals and w.locals[rname][1] is not None:
        src = pp(w.locals[rname][1])
        mins = set(re.findall(r"(\w+)\.min\(\)", src)) | \
            set(re.findall(r"np\.min\((\w+)\)", src))
        ok = arrays <= mins and ("min" in src)
        run.extra.setdefault("B6_facts", []).append(
            {"kernel": h.cname, "range_min": src, "binned_arrays": sorted(arrays),
             "covered": ok})
        return ok
    # (b) a wrapper parameter: every python call site computes it as the minimum
    # of the very array it passes
    if w.argtype(rname) is None:
        return False
    css = [s for s in sites if s.kernel is w]
    if not css:
        return False
    pnames = [a for a, _ in w.args]
    from .idioms import inline_simple_helpers, inline_locals
    for s in css:
        argmap = dict(zip(pnames, s.call.args))
        rv = argmap.get(rname)
        if not isinstance(rv, ast.Name):
            return False
        # the value of the argument with locals and private helpers (also
        # tuple-returning ones) replaced by what they stand for
        def resolve(hname, _c=s.func.cls):
            if _c is None or not hname.startswith("_"):
                return None
            for k_ in _c.mro:
                if hname in k_.methods:
                    return k_.methods[hname].node
            return None
        fnode = inline_simple_helpers(s.func.node, resolve)
        val = inline_locals(fnode, rv)
        if isinstance(val, ast.Name):
            return False
        dsrc = ast.unparse(val)
        for arr in arrays:
            a = argmap.get(arr)
            base = a
            while isinstance(base, ast.Call) and ast.unparse(base.func) == "to_cy":
                base = base.args[0]
            # both sides with locals inlined: the same array expression
            b = ast.unparse(inline_locals(fnode, base))
            if f"{b}.min()" not in dsrc and f"np.min({b})" not in dsrc:
                return False
        run.extra.setdefault("B6_facts", []).append(
            {"kernel": h.cname, "range_min": dsrc, "site": s.where, "covered": True})
    return True


# ---------------------------------------------------------------------------
# B7: fixed width arithmetic in the kernels

def b7(run: Run, cy: CyProgram):
    """Products evaluated in a narrow signed C integer type."""
    rng = {"DEGREE_t": 2 ** 15 - 1, "NODE_t": 2 ** 31 - 1, "int": 2 ** 31 - 1,
           "LAG_t": 127, "ADJ_t": 127, "MASK_t": 127, "long": 2 ** 63 - 1}
    n = 0
    for f in cy.all_funcs():
        inner = set()
        for s in walk(f.body):
            if isinstance(s, X) and s.k == "bin" and s.a[0] == "*":
                for ch in (s.a[1], s.a[2]):
                    if ch.k == "bin" and ch.a[0] == "*":
                        inner.add(id(ch))
        for s in walk(f.body):
            if not (isinstance(s, X) and s.k == "bin" and s.a[0] == "*"):
                continue
            if id(s) in inner:
                continue        # part of a longer chain
            # every operand must be integer typed (no float buffers/locals)
            isfloat = False
            for nm in names_in(s):
                t = f.vartype(nm)
                if t is None:
                    continue
                cname = t.name
                if t.kind in ("buffer", "memview"):
                    dt = cy.types["c"].get(cname, "")
                    if dt.startswith("float"):
                        isfloat = True
                elif cname in ("double", "float", "FIELD_t", "DFIELD_t", "WEIGHT_t",
                               "DWEIGHT_t"):
                    isfloat = True
            widened = any(isinstance(x, X) and x.k == "cast" and
                          x.a[0] in ("double", "float", "long double", "DFIELD_t",
                                     "DWEIGHT_t") for x in walk(s))
            if widened and not isfloat:
                nfac = 0

                def cnt(e):
                    nonlocal nfac
                    if e.k == "bin" and e.a[0] == "*":
                        cnt(e.a[1]); cnt(e.a[2])
                    else:
                        nfac += 1
                cnt(s)
                if nfac >= 3:
                    n += 1
                    run.oblige("B7", f"{f.name}:{pp(s).replace(' ', '')[:50]}", True,
                               sample={"where": f"{f.module.relpath}:{s.line}",
                                       "widened_to": "double"})
                continue
            if isfloat or any(isinstance(x, X) and x.k == "num" and
                              isinstance(x.a[0], float) for x in walk(s)):
                continue
            facs = []

            def flat(e):
                if e.k == "bin" and e.a[0] == "*":
                    flat(e.a[1])
                    flat(e.a[2])
                else:
                    facs.append(e)
            flat(s)
            if len(facs) < 3:
                continue
            types = set()
            for fac in facs:
                for nm in names_in(fac):
                    t = f.vartype(nm)
                    if t is not None and t.kind == "simple":
                        types.add(t.name)
            if not types or not types <= set(rng):
                continue
            # C integer promotion: the product is evaluated in the widest operand
            # type (at least int)
            width = max(rng[t] for t in types | {"int"})
            # value range of each factor: the declared range of its variables
            val = 1
            for fac in facs:
                m = 1
                for nm in names_in(fac):
                    t = f.vartype(nm)
                    if t is not None and t.kind == "simple":
                        m = max(m, _value_range(f, nm, rng))
                val *= m
            n += 1
            key = pp(s).replace(" ", "")
            ok = val <= width
            run.oblige("B7", f"{f.name}:{key[:50]}", ok, sample={
                "where": f"{f.module.relpath}:{s.line}", "types": sorted(types),
                "max_value": val, "type_max": width})
            if not ok:
                run.add("B7", f"{f.name}/overflow/{key[:60]}",
                        f"{f.module.relpath}:{s.line}",
                        f"{f.name}: `{pp(s)}` multiplies {len(facs)} factors of type "
                        f"{sorted(types)} in a {width.bit_length()+1}-bit signed "
                        f"integer; with values up to {_fmt(val)} the product exceeds "
                        f"{_fmt(width)} (signed overflow is undefined behaviour; here "
                        f"for degrees >= {_overflow_degree(len(facs), width)})")
    run.floor("B7 integer product chains", n, 2)


def _value_range(f: CyFunc, nm: str, rng) -> int:
    """Upper bound of an integer local from the range of what is assigned to it."""
    t = f.vartype(nm)
    base = rng.get(t.name, 2 ** 63 - 1)
    srcs = []
    for s in walk(f.body):
        if isinstance(s, X) and s.k == "assign" and any(
                x.k == "name" and x.a[0] == nm for x in s.a[0]):
            srcs.append(s.a[1])
    best = base
    if srcs:
        m = 0
        for v in srcs:
            if v.k == "index" and v.a[0].k == "name":
                bt = f.vartype(v.a[0].a[0])
                if bt is not None and bt.kind == "buffer":
                    m = max(m, rng.get(bt.name, base))
                    continue
            m = base
        best = min(base, m) if m else base
    return best


def _fmt(v):
    return f"{v:.3g}" if v > 10 ** 6 else str(v)


def _overflow_degree(nfac, width):
    d = 1
    while True:
        p = 1
        for t in range(nfac):
            p *= max(d - t, 1)
        if p > width:
            return d
        d += 1


# ---------------------------------------------------------------------------

def check(run: Run, prog: Program, cy: CyProgram, sites):
    run.rule("B1", "typed buffers are bounds-checked: boundscheck=True globally and no "
             "kernel, header or with-block overrides it")
    run.rule("B2", "every raw pointer hand-off casts to an element type of the "
             "array's item size, and the C definition uses that width")
    run.rule("B3", "arrays whose raw pointer is handed to C are C-contiguous")
    run.rule("B10", "an array parameter whose raw data pointer is taken cannot be None")
    run.rule("B9", "no stack allocation (alloca) whose size grows with an extent of the "
             "data")
    run.rule("B4", "every extent the C code uses is tied to the shape of the buffer it "
             "indexes at the wrapper or at each Python call site")
    run.rule("B5", "every dereference in the C functions lies inside its buffer for all "
             "sizes (affine pointer analysis with induction variables)")
    run.rule("B6", "data-dependent indices are clamped on both sides (or the missing "
             "side is discharged by the caller's range computation)")
    run.rule("B7", "no integer product chain can exceed its C type (type-range "
             "interval analysis)")
    run.explanation = (
        "Memory-safety argument for the compiled layer: typed buffers are "
        "checked by directive (B1), so only raw pointers remain; for those the "
        "element width, contiguity, size provenance and an affine in-bounds proof "
        "of every C dereference are decided from the sources (Cython parse tree + "
        "clang AST), for all sizes rather than sampled shapes.")
    run.assumptions += [
        "LP64: long = 8 bytes, int = 4 bytes", "all extents are >= 0",
        "numpy/igraph/scipy internals are not analysed",
        "float64 -> float32 rounding is monotone (range_min fact)"]
    b1(run, prog, cy)
    handoffs = _handoffs(cy)
    cfuncs = _c_functions(run, cy)
    run.floor("C functions", len(cfuncs), 6, hard=True)
    shapes = b2_b3_shapes(run, prog, cy, cfuncs, sites, handoffs)
    b5_b6(run, prog, cy, cfuncs, shapes, handoffs, sites)
    b7(run, cy)
    run.units = {"pyx_modules": len(cy.modules),
                 "kernels": sum(len(m.funcs) for m in cy.modules.values()),
                 "c_functions": sorted(cfuncs), "handoffs": len(handoffs)}
