"""C06 - queries are pure (rules P1, P2, P3): alias + in-place mutation analysis.

Flow-sensitive within a function (statement order, may-alias union at joins),
inter-procedural through mutation / return-origin summaries (fixpoint).
"""
from __future__ import annotations

import ast
import re
from dataclasses import dataclass, field
from typing import Optional

from .pymodel import (Program, FuncInfo, ClassInfo, mangle, INPLACE_METHODS,
                      _returned_cell, _basic_slice)
from .report import Run, AnalysisError

ALIAS_ATTRS = {"T", "real", "imag", "flat"}
ALIAS_METHODS = {"reshape", "view", "ravel", "squeeze", "swapaxes", "transpose"}
ALIAS_FUNCS = {"np.asarray", "np.ascontiguousarray", "np.swapaxes", "np.transpose",
               "np.atleast_1d", "np.atleast_2d", "np.atleast_3d", "np.asanyarray",
               "np.squeeze", "np.ravel", "np.reshape", "np.asfortranarray"}
ARRAY_INPLACE_METHODS = {"sort", "fill", "resize", "put", "itemset", "partition",
                         "setfield", "eliminate_zeros", "setdiag", "sort_indices"}
INPLACE_FUNCS_ARG0 = {"np.fill_diagonal", "np.put", "np.copyto", "np.place",
                      "np.putmask", "random.shuffle", "np.random.shuffle", "shuffle",
                      "np.ndarray.sort", "numpy.ndarray.sort", "np.ndarray.fill",
                      "list.sort", "numpy.random.shuffle"}
ARRAYISH_ATTRS = {"shape", "mean", "max", "min", "astype", "sum", "T", "copy", "std",
                  "flatten", "reshape", "dtype", "ndim", "size", "transpose", "argsort",
                  "conjugate", "dot", "any", "all", "argmax", "argmin", "ravel",
                  "swapaxes", "squeeze", "tolist", "var", "cumsum", "nonzero", "fill"}
DOC_INPLACE = re.compile(r"in[ -]?place|\bmodif|overwrit|changed matri", re.I)


@dataclass
class Mutation:
    func: FuncInfo
    node: ast.AST
    origins: frozenset
    how: str
    target_src: str
    index_src: str = ""
    value_src: str = ""
    stmt_index: tuple = ()      # position for post-dominance checks
    exempt: str = ""            # reason when part of a restore pair
    tentative: bool = False     # `x op= y` on a name without array evidence

    @property
    def where(self):
        return f"{self.func.module.relpath}:{self.node.lineno}"


class FuncAnalysis:
    """One pass over a function body."""

    def __init__(self, an: "Purity", f: FuncInfo):
        self.an = an
        self.p = an.p
        self.f = f
        self.cls = f.cls
        self.selfname = f.params[0] if f.kind in ("method", "getter", "setter") \
            and f.params else None
        self.env: dict[str, frozenset] = {}
        self.mutations: list[Mutation] = []
        self.returns: set = set()
        self.stored: dict[str, set] = {}      # cell -> origins stored by reference
        self.cellenv: dict[str, frozenset] = {}   # cell -> origins (flow-sensitive)
        self.calls_passing: list = []         # (callee, argpos/kw, origins, node)
        self.arg_nodes: dict = {}
        for p in f.params + f.kwonly:
            if p != self.selfname:
                self.env[p] = frozenset([f"param:{p}"])
        a = f.node.args
        if a.vararg:
            self.env[a.vararg.arg] = frozenset()
        if a.kwarg:
            self.env[a.kwarg.arg] = frozenset()

    # -- origins of an expression
    def origins(self, e) -> frozenset:
        if e is None:
            return frozenset()
        if isinstance(e, ast.Name):
            return self.env.get(e.id, frozenset())
        if isinstance(e, ast.Attribute):
            if self.selfname and isinstance(e.value, ast.Name) and \
                    e.value.id == self.selfname:
                return self.cell_origins(e.attr)
            if e.attr in ALIAS_ATTRS:
                return self.origins(e.value)
            return frozenset()
        if isinstance(e, ast.Subscript):
            if _basic_slice(e.slice) or self._slice_objects_only(e.slice):
                return self.origins(e.value)
            return frozenset()
        if isinstance(e, ast.IfExp):
            return self.origins(e.body) | self.origins(e.orelse)
        if isinstance(e, ast.BoolOp):
            out = frozenset()
            for v in e.values:
                out |= self.origins(v)
            return out
        if isinstance(e, (ast.Tuple, ast.List)):
            return frozenset()
        if isinstance(e, ast.Call):
            return self.call_origins(e)
        if isinstance(e, ast.Starred):
            return self.origins(e.value)
        return frozenset()

    def _slice_names(self) -> set:
        """Local names every definition of which is a `slice(...)` object (or
        None), directly or as the result of a nested function that returns
        only `slice(...)` / None: indexing with them selects a view."""
        if getattr(self, "_sln", None) is not None:
            return self._sln
        nested = {}
        for n in ast.walk(self.f.node):
            if isinstance(n, ast.FunctionDef) and n is not self.f.node:
                rets = [r.value for r in ast.walk(n) if isinstance(r, ast.Return)]
                nested[n.name] = rets

        def is_slice(v, depth=0):
            if isinstance(v, ast.Call) and isinstance(v.func, ast.Name):
                if v.func.id == "slice":
                    return True
                rets = nested.get(v.func.id)
                if rets and depth < 2:
                    real = [r for r in rets if not (r is None or (
                        isinstance(r, ast.Constant) and r.value is None))]
                    return bool(real) and all(is_slice(r, depth + 1) for r in real)
            if isinstance(v, ast.IfExp):
                return is_slice(v.body, depth) and (is_slice(v.orelse, depth) or (
                    isinstance(v.orelse, ast.Constant) and v.orelse.value is None))
            return False
        defs: dict = {}
        for n in ast.walk(self.f.node):
            if isinstance(n, ast.Assign) and len(n.targets) == 1:
                t, v = n.targets[0], n.value
                if isinstance(t, ast.Name):
                    defs.setdefault(t.id, []).append(v)
                elif isinstance(t, ast.Tuple) and isinstance(v, ast.Tuple) and \
                        len(t.elts) == len(v.elts):
                    for a, b in zip(t.elts, v.elts):
                        if isinstance(a, ast.Name):
                            defs.setdefault(a.id, []).append(b)
                else:
                    for a in ast.walk(t):
                        if isinstance(a, ast.Name):
                            defs.setdefault(a.id, []).append(None)
            elif isinstance(n, (ast.AugAssign, ast.For, ast.comprehension, ast.With,
                                ast.NamedExpr)):
                tg = getattr(n, "target", None)
                for a in ast.walk(tg) if tg is not None else ():
                    if isinstance(a, ast.Name):
                        defs.setdefault(a.id, []).append(None)
        params = set(self.f.params + self.f.kwonly)
        self._sln = {k for k, vs in defs.items() if k not in params and vs and
                     all(v is not None and is_slice(v) for v in vs)}
        return self._sln

    def _slice_objects_only(self, sl) -> bool:
        elts = sl.elts if isinstance(sl, ast.Tuple) else [sl]
        names = [x for x in elts if isinstance(x, ast.Name)]
        if not names:
            return False
        sn = self._slice_names()
        return all((isinstance(x, ast.Name) and x.id in sn) or
                   (not isinstance(x, ast.Name) and _basic_slice(x)) for x in elts)

    def cell_origins(self, attr) -> frozenset:
        if self.cls is not None:
            pr = self.p.lookup_prop(self.cls, attr)
            if pr is not None and "get" in pr:
                rc = _returned_cell(pr["get"])
                if rc:
                    return frozenset([f"state:{mangle(pr['get'].cls.name, rc)}"])
                return self.an.ret_origins_for(pr["get"], self, [], {})
            if self.p.lookup(self.cls, attr) is not None:
                return frozenset()
        owner = self.cls.name if self.cls else ""
        cell = mangle(owner, attr)
        return frozenset([f"state:{cell}"]) | self.cellenv.get(cell, frozenset())

    def call_origins(self, e: ast.Call) -> frozenset:
        fn = e.func
        name = ast.unparse(fn)
        if name in ALIAS_FUNCS and e.args:
            return self.origins(e.args[0])
        if isinstance(fn, ast.Attribute) and fn.attr in ALIAS_METHODS:
            return self.origins(fn.value)
        if isinstance(fn, ast.Attribute) and fn.attr == "astype":
            for k in e.keywords:
                if k.arg == "copy" and isinstance(k.value, ast.Constant) and \
                        k.value.value is False:
                    return self.origins(fn.value)
            return frozenset()
        if name in ("np.array",):
            for k in e.keywords:
                if k.arg == "copy" and isinstance(k.value, ast.Constant) and \
                        k.value.value is False:
                    return self.origins(e.args[0]) if e.args else frozenset()
            return frozenset()
        # dispatch through a registry dict held in a cell: the value may be
        # what any of the registered functions returns
        regs = self.an.registry_targets(self, e)
        if regs:
            out = frozenset()
            for tg in regs:
                out |= self.an.ret_origins_for(tg, self, e.args, {
                    k.arg: k.value for k in e.keywords if k.arg}, call=None)
            return out
        target, recv_cls, held = self.an.resolve_call(self, e)
        if target is None:
            return frozenset()
        return self.an.ret_origins_for(target, self, e.args, {k.arg: k.value
                                                             for k in e.keywords if k.arg},
                                       recv_cls=recv_cls, held=held, call=e)

    # -- statements
    def run(self):
        self.block(self.f.node.body, ())
        return self

    def block(self, stmts, pos):
        for i, st in enumerate(stmts):
            self.stmt(st, pos + (i,))

    def join(self, a: dict, b: dict) -> dict:
        out = dict(a)
        for k, v in b.items():
            out[k] = out.get(k, frozenset()) | v
        return out

    def stmt(self, st, pos):
        if isinstance(st, ast.Assign):
            self.scan_expr(st.value, pos)
            for t in st.targets:
                self.assign(t, st.value, st, pos)
        elif isinstance(st, ast.AnnAssign):
            if st.value is not None:
                self.scan_expr(st.value, pos)
                self.assign(st.target, st.value, st, pos)
        elif isinstance(st, ast.AugAssign):
            self.scan_expr(st.value, pos)
            self.augassign(st, pos)
        elif isinstance(st, ast.Expr):
            self.scan_expr(st.value, pos)
        elif isinstance(st, ast.Return):
            if st.value is not None:
                self.scan_expr(st.value, pos)
                if isinstance(st.value, (ast.Tuple, ast.List)):
                    for el in st.value.elts:
                        self.returns |= self.origins(el)
                elif isinstance(st.value, ast.Dict):
                    for el in st.value.values:
                        self.returns |= self.origins(el)
                else:
                    self.returns |= self.origins(st.value)
        elif isinstance(st, ast.If):
            self.scan_expr(st.test, pos)
            before = dict(self.env)
            cbefore = dict(self.cellenv)
            self.block(st.body, pos + ("t",))
            e1, c1 = self.env, self.cellenv
            self.env = dict(before)
            self.cellenv = dict(cbefore)
            self.block(st.orelse, pos + ("e",))
            self.env = self.join(e1, self.env)
            self.cellenv = self.join(c1, self.cellenv)
        elif isinstance(st, (ast.For, ast.AsyncFor)):
            self.scan_expr(st.iter, pos)
            # iterating an array yields views of its rows
            self.bind_target(st.target, self.origins(st.iter))
            before = dict(self.env)
            self.block(st.body, pos + ("l",))
            self.env = self.join(before, self.env)
            self.block(st.body, pos + ("l",))     # second pass: loop-carried aliases
            self.env = self.join(before, self.env)
            self.block(st.orelse, pos + ("lo",))
        elif isinstance(st, ast.While):
            self.scan_expr(st.test, pos)
            before = dict(self.env)
            self.block(st.body, pos + ("l",))
            self.env = self.join(before, self.env)
            self.block(st.orelse, pos + ("lo",))
        elif isinstance(st, (ast.With, ast.AsyncWith)):
            for it in st.items:
                self.scan_expr(it.context_expr, pos)
                if it.optional_vars is not None:
                    self.bind_target(it.optional_vars, frozenset())
            self.block(st.body, pos + ("w",))
        elif isinstance(st, ast.Try):
            self.block(st.body, pos + ("try",))
            e1 = dict(self.env)
            for h in st.handlers:
                self.block(h.body, pos + ("h",))
                e1 = self.join(e1, self.env)
            self.env = e1
            self.block(st.orelse, pos + ("tro",))
            self.block(st.finalbody, pos + ("fin",))
        elif isinstance(st, ast.Delete):
            for t in st.targets:
                if isinstance(t, ast.Name):
                    self.env.pop(t.id, None)
                elif isinstance(t, ast.Subscript):
                    self.mutate(t.value, st, "del-item", pos, index=t.slice)
        elif isinstance(st, ast.FunctionDef):
            pass     # closures: not followed
        elif isinstance(st, (ast.Raise, ast.Assert)):
            for ch in ast.iter_child_nodes(st):
                if isinstance(ch, ast.expr):
                    self.scan_expr(ch, pos)

    def bind_target(self, t, orig):
        if isinstance(t, ast.Name):
            self.env[t.id] = orig
        elif isinstance(t, (ast.Tuple, ast.List)):
            for el in t.elts:
                self.bind_target(el, frozenset())

    def assign(self, t, value, st, pos):
        if isinstance(t, ast.Name):
            self.env[t.id] = self.origins(value)
        elif isinstance(t, (ast.Tuple, ast.List)):
            if isinstance(value, (ast.Tuple, ast.List)) and len(value.elts) == len(t.elts):
                for a, b in zip(t.elts, value.elts):
                    self.assign(a, b, st, pos)
            else:
                # unpacking the tuple returned by a callee: per-element origins
                # are not tracked; a returned tuple's origin applies to each
                o = self.origins(value) if isinstance(value, ast.Call) else frozenset()
                for el in t.elts:
                    self.bind_target(el, o)
        elif isinstance(t, ast.Subscript):
            self.mutate(t.value, st, "item-store", pos, index=t.slice, value=value)
        elif isinstance(t, ast.Attribute):
            if self.selfname and isinstance(t.value, ast.Name) and \
                    t.value.id == self.selfname:
                o = self.origins(value)
                cell = mangle(self.cls.name if self.cls else "", t.attr)
                self.cellenv[cell] = frozenset(o)
                if o:
                    self.stored.setdefault(cell, set()).update(o)
            elif t.attr in ("shape", "real", "imag", "data", "dtype"):
                # x.shape = ... reshapes the array object in place
                self.mutate(t.value, st, f".{t.attr}=", pos, value=value)

    def augassign(self, st, pos):
        t = st.target
        if isinstance(t, ast.Name):
            o = self.env.get(t.id, frozenset())
            if o and self.arrayish(t.id):
                self.mutate(t, st, "augassign", pos, value=st.value)
            elif o and any(x.startswith("param:") for x in o):
                # in place iff the argument is an ndarray: decided at the call
                # sites from the inferred type of what is passed
                self.mutate(t, st, "augassign", pos, value=st.value)
                self.mutations[-1].tentative = True
        elif isinstance(t, ast.Subscript):
            self.mutate(t.value, st, "item-augassign", pos, index=t.slice,
                        value=st.value)
        elif isinstance(t, ast.Attribute):
            # self.x += ... on an array cell is in-place
            if self.selfname and isinstance(t.value, ast.Name) and \
                    t.value.id == self.selfname:
                pass

    _arrayish_cache = None

    def arrayish(self, name) -> bool:
        """Is there evidence in this function that `name` holds an array?"""
        if self._arrayish_cache is None:
            self._arrayish_cache = {}
        if name in self._arrayish_cache:
            return self._arrayish_cache[name]
        res = False
        for n in ast.walk(self.f.node):
            if isinstance(n, ast.Attribute) and isinstance(n.value, ast.Name) and \
                    n.value.id == name and n.attr in ARRAYISH_ATTRS:
                res = True
            elif isinstance(n, ast.Subscript) and isinstance(n.value, ast.Name) and \
                    n.value.id == name and not isinstance(n.ctx, ast.Store) and \
                    isinstance(n.slice, (ast.Slice, ast.Tuple)):
                res = True
        # names bound to array-returning origins (cached/state) count as arrays
        if not res:
            o = self.env.get(name, frozenset())
            if any(x.startswith(("cached:", "shared:")) for x in o):
                res = True
        self._arrayish_cache[name] = res
        return res

    def _range_loop_vars(self):
        if getattr(self, "_rlv", None) is None:
            self._rlv = {x.id for n in ast.walk(self.f.node) if isinstance(n, ast.For)
                         and isinstance(n.iter, ast.Call)
                         and ast.unparse(n.iter.func) == "range"
                         for x in ast.walk(n.target) if isinstance(x, ast.Name)}
        return self._rlv

    def mutate(self, base, node, how, pos, index=None, value=None):
        o = self.origins(base)
        # the base of a store may itself be a basic slice / view chain; `a[i][j] =
        # v` with i an integer loop counter stores into the row view a[i]
        b = base
        def counter_index(sl):
            # an integer loop counter, alone or next to basic slices: a view
            if isinstance(sl, ast.Name):
                return sl.id in self._range_loop_vars()
            if isinstance(sl, ast.Tuple):
                return any(isinstance(x, ast.Name) for x in sl.elts) and all(
                    counter_index(x) if isinstance(x, ast.Name) else _basic_slice(x)
                    for x in sl.elts)
            return False
        while not o and isinstance(b, ast.Subscript) and counter_index(b.slice):
            b = b.value
            o = self.origins(b)
        if not o:
            return
        self.mutations.append(Mutation(
            self.f, node, frozenset(o), how, ast.unparse(base),
            ast.unparse(index) if index is not None else "",
            ast.unparse(value) if value is not None else "", pos))

    # -- expression scan: in-place calls, calls passing aliased arguments
    def scan_expr(self, e, pos):
        for n in ast.walk(e):
            if not isinstance(n, ast.Call):
                continue
            fn = n.func
            name = ast.unparse(fn)
            if name in INPLACE_FUNCS_ARG0 and n.args:
                self.mutate(n.args[0], n, name, pos,
                            value=n.args[1] if len(n.args) > 1 else None)
                continue
            for k in n.keywords:
                if k.arg == "out":
                    self.mutate(k.value, n, "out=", pos)
            if isinstance(fn, ast.Attribute) and fn.attr in ARRAY_INPLACE_METHODS:
                self.mutate(fn.value, n, "." + fn.attr, pos)
                continue
            target, recv_cls, held = self.an.resolve_call(self, n)
            if target is None:
                # dispatch through a registry dict held in a cell:
                #   self.<registry>[key](args)
                for tg in self.an.registry_targets(self, n):
                    ps = tg.params[1:] if tg.kind == "method" else tg.params
                    for pn, a in zip(ps, n.args):
                        o = self.origins(a)
                        if o:
                            self.calls_passing.append((tg, pn, frozenset(o), n, pos,
                                                       ast.unparse(a)))
                            self.arg_nodes[(id(n), pn)] = a
                continue
            params = target.params
            if target.kind in ("method", "getter", "setter") and params:
                params = params[1:]
            # explicit Base.m(self, ...) passes self first
            args = list(n.args)
            if isinstance(fn, ast.Attribute) and isinstance(fn.value, ast.Name) and \
                    target.kind == "method" and args and self.selfname and \
                    isinstance(args[0], ast.Name) and args[0].id == self.selfname and \
                    self.p.resolve_name(self.f.module, fn.value.id) and \
                    self.p.resolve_name(self.f.module, fn.value.id)[0] == "class":
                args = args[1:]
            for pn, a in zip(params, args):
                o = self.origins(a)
                if o:
                    self.calls_passing.append((target, pn, frozenset(o), n, pos,
                                               ast.unparse(a)))
                    self.arg_nodes[(id(n), pn)] = a
            for k in n.keywords:
                if k.arg in params:
                    o = self.origins(k.value)
                    if o:
                        self.calls_passing.append((target, k.arg, frozenset(o), n, pos,
                                                   ast.unparse(k.value)))
                        self.arg_nodes[(id(n), k.arg)] = k.value


class Purity:
    def __init__(self, prog: Program):
        self.p = prog
        self.fa: dict[FuncInfo, FuncAnalysis] = {}
        self.mut_params: dict[FuncInfo, dict] = {}    # f -> {param: Mutation}
        self.ret: dict[FuncInfo, frozenset] = {}
        self._method_owners = {}
        for c in prog.classes.values():
            for n in c.methods:
                self._method_owners.setdefault(n, []).append(c)
        self._in_progress = set()
        self.inferer = None
        try:
            from .kernels import Inferer
            from .cymodel import load_types

            class _T:
                types = load_types(prog.repo)
            self.inferer = Inferer(prog, _T())
        except Exception:      # inference is an optional refinement
            self.inferer = None

    # -- call resolution
    def resolve_call(self, fa: FuncAnalysis, e: ast.Call):
        """-> (FuncInfo | None, receiver class, held-object cell)"""
        fn = e.func
        f = fa.f
        if isinstance(fn, ast.Name):
            r = self.p.resolve_name(f.module, fn.id)
            if r and r[0] == "func":
                return r[1], None, None
            return None, None, None
        if isinstance(fn, ast.Attribute):
            v = fn.value
            if isinstance(v, ast.Name):
                if fa.selfname and v.id == fa.selfname and fa.cls is not None:
                    m = self.p.lookup(fa.cls, fn.attr)
                    return m, fa.cls, None
                r = self.p.resolve_name(f.module, v.id)
                if r and r[0] == "class":
                    return self.p.lookup(r[1], fn.attr), r[1], None
                if v.id == "cls" and f.kind == "class" and f.cls is not None:
                    return self.p.lookup(f.cls, fn.attr), f.cls, None
            # self.cell.method(): object held in a cell
            if isinstance(v, ast.Attribute) and isinstance(v.value, ast.Name) and \
                    fa.selfname and v.value.id == fa.selfname:
                owners = self._method_owners.get(fn.attr, [])
                cands = [c for c in owners if c.name not in ("NetCDFDictionary",)]
                if cands:
                    # most derived definitions first; union of behaviours
                    best = sorted(cands, key=lambda c: -len(c.mro))[0]
                    return best.methods[fn.attr], best, v.attr
        return None, None, None

    def registry_targets(self, fa: FuncAnalysis, e: ast.Call):
        fn = e.func
        if not (isinstance(fn, ast.Subscript) and isinstance(fn.value, ast.Attribute)
                and isinstance(fn.value.value, ast.Name) and fa.selfname
                and fn.value.value.id == fa.selfname and fa.cls is not None):
            return []
        reg = fn.value.attr
        out = []
        for c in fa.cls.mro:
            for m in c.methods.values():
                for n in ast.walk(m.node):
                    if isinstance(n, ast.Assign) and \
                            isinstance(n.targets[0], ast.Attribute) and \
                            n.targets[0].attr == reg and isinstance(n.value, ast.Dict):
                        for v in n.value.values:
                            if isinstance(v, ast.Attribute) and \
                                    isinstance(v.value, ast.Name):
                                r = self.p.resolve_name(m.module, v.value.id)
                                if r and r[0] == "class":
                                    t = self.p.lookup(r[1], v.attr)
                                    if t is not None and t not in out:
                                        out.append(t)
        return out

    def analysis(self, f: FuncInfo) -> FuncAnalysis:
        if f not in self.fa:
            self.fa[f] = FuncAnalysis(self, f)
            self.fa[f].run()
        return self.fa[f]

    def ret_origins_for(self, target: FuncInfo, caller: FuncAnalysis, args, kwargs,
                        recv_cls=None, held=None, call=None) -> frozenset:
        """Origins (in the caller's terms) that the value returned by the call
        may alias."""
        label = target.qualname
        if target.cached:
            if held:
                return frozenset([f"shared:{held}.{label}"])
            return frozenset([f"cached:{label}"])
        base = self.ret.get(target)
        if base is None:
            if target in self._in_progress:
                return frozenset()
            self._in_progress.add(target)
            try:
                base = frozenset(self.analysis(target).returns)
            finally:
                self._in_progress.discard(target)
            self.ret[target] = base
        out = set()
        params = target.params
        if target.kind in ("method", "getter", "setter") and params:
            params = params[1:]
        a = list(args)
        if call is not None and isinstance(call.func, ast.Attribute) and \
                isinstance(call.func.value, ast.Name) and target.kind == "method" \
                and a and caller.selfname and isinstance(a[0], ast.Name) and \
                a[0].id == caller.selfname:
            r = self.p.resolve_name(caller.f.module, call.func.value.id)
            if r and r[0] == "class":
                a = a[1:]
        for o in base:
            if o.startswith("param:"):
                pn = o[6:]
                if pn in params:
                    i = params.index(pn)
                    if i < len(a):
                        out |= caller.origins(a[i])
                    elif pn in kwargs:
                        out |= caller.origins(kwargs[pn])
            elif o.startswith("state:"):
                if held:
                    out.add(f"shared:{held}.{label}")
                elif recv_cls is not None and caller.selfname and \
                        (caller.cls is not None and recv_cls in caller.cls.mro):
                    out.add(o)
                else:
                    # state of another (new / foreign) object: not ours
                    pass
            else:
                if held and o.startswith("cached:"):
                    out.add(f"shared:{held}.{o[7:]}")
                else:
                    out.add(o)
        return frozenset(out)

    def is_array_arg(self, fa: FuncAnalysis, node, pn) -> bool:
        """Is the value passed for parameter pn at this call inferred to be an
        ndarray (known dtype)?"""
        a = fa.arg_nodes.get((id(node), pn))
        if a is None or self.inferer is None:
            return False
        env = self.inferer.env_at(fa.f, fa.cls, node)
        t = self.inferer.infer(a, env, fa.f, fa.cls)
        return t.dtype is not None

    def real_mutation(self, fa, target, pn, node) -> bool:
        m = self.mut_params.get(target, {}).get(pn)
        if m is None:
            return False
        if not m.tentative:
            return True
        return self.is_array_arg(fa, node, pn)

    # -- summaries
    def compute(self):
        funcs = list(self.p.functions())
        for f in funcs:
            self.analysis(f)
        # restore pairs first (they cancel mutations)
        for fa in self.fa.values():
            mark_restore_pairs(fa)
        for f, fa in self.fa.items():
            d = {}
            for m in sorted(fa.mutations, key=lambda m: m.tentative):
                if m.exempt:
                    continue
                for o in m.origins:
                    if o.startswith("param:"):
                        d.setdefault(o[6:], m)
            self.mut_params[f] = d
        changed = True
        rounds = 0
        while changed and rounds < 20:
            changed = False
            rounds += 1
            for f, fa in self.fa.items():
                for (target, pn, o, node, pos, src) in fa.calls_passing:
                    if pn in self.mut_params.get(target, {}):
                        for x in o:
                            tt = self.mut_params[target][pn].tentative
                            cur = self.mut_params[f].get(x[6:]) \
                                if x.startswith("param:") else None
                            if x.startswith("param:") and \
                                    (cur is None or (cur.tentative and not tt)):
                                self.mut_params[f][x[6:]] = Mutation(
                                    f, node, frozenset([x]), f"via {target.qualname}"
                                    f"({pn})", src, stmt_index=pos,
                                    tentative=self.mut_params[target][pn].tentative)
                                changed = True


def _stmts_between_are_straight(fa: FuncAnalysis, a: Mutation, b: Mutation) -> bool:
    """b post-dominates a: same block, and nothing in between can leave the
    function (return / raise / break / continue)."""
    if a.stmt_index[:-1] != b.stmt_index[:-1]:
        return False
    # locate the block
    def get_block(body, pos):
        cur = body
        i = 0
        while i < len(pos) - 1:
            st = cur[pos[i]]
            tag = pos[i + 1]
            if tag == "t":
                cur = st.body
            elif tag == "e":
                cur = st.orelse
            elif tag in ("l", "w", "try"):
                cur = st.body
            elif tag in ("lo", "tro"):
                cur = st.orelse
            elif tag == "fin":
                cur = st.finalbody
            elif tag == "h":
                return None
            i += 2
        return cur
    blk = get_block(fa.f.node.body, a.stmt_index)
    if blk is None:
        return False
    lo, hi = a.stmt_index[-1], b.stmt_index[-1]
    if not (isinstance(lo, int) and isinstance(hi, int) and lo < hi):
        return False
    for st in blk[lo + 1:hi]:
        for n in ast.walk(st):
            if isinstance(n, (ast.Return, ast.Raise, ast.Break, ast.Continue)):
                return False
    return True


def _diag_value(fa, m):
    """Source text of the value a mutation stores on the whole main diagonal of
    its target (np.fill_diagonal, X.flat[::n+1] = v, X[diag_indices] = v ...)."""
    from .idioms import diagonal_store
    if m.how == "np.fill_diagonal":
        return m.value_src
    if m.how != "item-store":
        return None
    node = m.node
    # the mutation node is the statement (or its target); find the Assign
    for st in ast.walk(fa.f.node):
        if isinstance(st, ast.Assign) and (st is node or node in st.targets or
                                           any(node is x for x in ast.walk(st.targets[0]))):
            d = diagonal_store(st, fa.f.node)
            if d is not None:
                return ast.unparse(d[1])
    return None


def mark_restore_pairs(fa: FuncAnalysis):
    """Accepted restore idioms (DESIGN.md C06/P1):
    (i)  m = np.isinf(X); X[m] = v; ...; X[m] = np.inf
    (ii) np.fill_diagonal(X, a); ...; np.fill_diagonal(X, 0)   with X a
         path-length matrix (zero diagonal: distance of a node to itself)."""
    muts = fa.mutations
    # definitions  name = np.isinf(X)
    isinf_of = {}
    for n in ast.walk(fa.f.node):
        if isinstance(n, ast.Assign) and len(n.targets) == 1 and \
                isinstance(n.targets[0], ast.Name) and isinstance(n.value, ast.Call) \
                and ast.unparse(n.value.func) == "np.isinf" and n.value.args:
            isinf_of[n.targets[0].id] = ast.unparse(n.value.args[0])
    for i, a in enumerate(muts):
        if a.exempt:
            continue
        for b in muts[i + 1:]:
            if b.exempt or b.target_src != a.target_src:
                continue
            if a.how == b.how == "item-store" and a.index_src == b.index_src and \
                    isinf_of.get(a.index_src) == a.target_src and \
                    b.value_src in ("np.inf", "numpy.inf", "float('inf')") and \
                    _stmts_between_are_straight(fa, a, b):
                # the mask must not be reassigned and X not otherwise edited
                if not any(c is not a and c is not b and c.target_src == a.target_src
                           and a.stmt_index < c.stmt_index < b.stmt_index
                           for c in muts):
                    a.exempt = b.exempt = "restore-pair(isinf mask)"
                    break
            da, db = _diag_value(fa, a), _diag_value(fa, b)
            if da is not None and db is not None and db in ("0", "0.0") and \
                    _stmts_between_are_straight(fa, a, b) and \
                    all(o in ("cached:Network.path_lengths",) or
                        o.startswith("param:") for o in a.origins):
                if not any(c is not a and c is not b and c.target_src == a.target_src
                           and a.stmt_index < c.stmt_index < b.stmt_index
                           for c in muts):
                    a.exempt = b.exempt = "restore-pair(diagonal of path lengths)"
                    break


def check(run: Run, prog: Program):
    run.rule("P1", "no in-place edit of an array that aliases a memoised return "
             "value (of this or of a held object), except proven restore pairs")
    run.rule("P5", "a memoised method does not edit arrays held in the object's own "
             "state, directly or through a view")
    run.rule("P2", "a public function does not edit storage aliasing a caller's "
             "argument unless its docstring documents it; arrays stored by "
             "reference in a constructor are not edited by queries")
    run.explanation = (
        "Flow-sensitive may-alias analysis of arrays per function (origins: "
        "parameter, memoised return value, state cell, value obtained from a held "
        "object), in-place operation table, inter-procedural mutation and "
        "return-origin summaries by fixpoint; every mutation site whose target may "
        "alias a memoised value or caller-owned storage is an obligation.")
    run.assumptions += [
        "a path-length matrix has a zero diagonal (restore pair ii)",
        "mutation through references the user keeps is out of scope",
        "closures and dynamic callables are not followed",
    ]
    an = Purity(prog)
    an.compute()
    n_cached_bind = 0
    n_pairs = 0
    # --- P1
    for f, fa in sorted(an.fa.items(), key=lambda kv: kv[0].qualname):
        for m in fa.mutations:
            shared = sorted(o for o in m.origins if o.startswith(("cached:", "shared:")))
            if not shared or m.tentative:
                continue
            n_cached_bind += 1
            inst = f"{f.qualname}:{m.target_src}:{m.how}:{m.node.lineno}"
            if m.exempt:
                n_pairs += 1
                run.oblige("P1", inst, True, sample={
                    "where": m.where, "origin": shared, "exempt": m.exempt})
                continue
            run.oblige("P1", inst, False, sample={"where": m.where, "origin": shared})
            for o in shared:
                run.add("P1", f"{f.qualname}/{o}/{m.how}", m.where,
                        f"{f.qualname} edits `{m.target_src}` in place ({m.how}"
                        f"{' [' + m.index_src + ']' if m.index_src else ''}), which "
                        f"may alias the memoised value {o}: later queries (and the "
                        f"cache) see the modified array")
        # passing a memoised value to a callee that mutates that parameter
        for (target, pn, o, node, pos, src) in fa.calls_passing:
            shared = sorted(x for x in o if x.startswith(("cached:", "shared:")))
            if not shared:
                continue
            mp = an.mut_params.get(target, {})
            inst = f"{f.qualname}->{target.qualname}({pn}):{node.lineno}"
            n_cached_bind += 1
            if pn in mp and an.real_mutation(fa, target, pn, node):
                run.oblige("P1", inst, False, sample={
                    "where": f"{f.module.relpath}:{node.lineno}", "origin": shared})
                for x in shared:
                    run.add("P1", f"{f.qualname}/{x}/via:{target.qualname}",
                            f"{f.module.relpath}:{node.lineno}",
                            f"{f.qualname} passes `{src}` (memoised value {x}) to "
                            f"{target.qualname}, which edits its parameter `{pn}` in "
                            f"place at {mp[pn].where}")
            else:
                run.oblige("P1", inst, True, nontrivial=True)
    # --- P5: a memoised method is a query: it does not edit the arrays held in
    #          the object's own state (directly or through a local view of them)
    n5 = 0
    for f in sorted((g for g in prog.functions() if g.cached), key=lambda g: g.qualname):
        fa = an.analysis(f)
        n5 += 1
        bad = [m for m in fa.mutations if not m.tentative and not m.exempt and
               any(o.startswith("state:") for o in m.origins)]
        run.oblige("P5", f"{f.qualname}:state-untouched", not bad, sample={
            "where": f.where, "mutation_sites": len(fa.mutations)})
        for m in bad:
            cells = sorted(o[6:] for o in m.origins if o.startswith("state:"))
            run.add("P5", f"{f.qualname}/state:{cells[0]}/{m.how}", m.where,
                    f"memoised {f.qualname} edits `{m.target_src}` in place ({m.how}), "
                    f"which may be (a view of) the object's own array `{cells[0]}`: the "
                    f"query changes what every other query on the object returns")
    run.floor("P5 memoised methods analysed", n5, 60, hard=True)
    # --- P2: public entry points mutating a parameter
    for f, d in sorted(an.mut_params.items(), key=lambda kv: kv[0].qualname):
        if not d:
            continue
        public = f.is_public or f.name == "__init__"
        if not public:
            continue
        doc = f.docstring
        documented = bool(DOC_INPLACE.search(doc))
        for pn, m in sorted(d.items()):
            if m.tentative:
                # `p op= e` on the bare parameter: in place exactly when an array
                # is passed.  Decided here when the docstring types the parameter
                # as a scalar (then `op=` only rebinds the local name); otherwise
                # the function takes arrays as well and edits them
                scalar = re.search(
                    r":type\s+%s\s*:\s*(int|number|float|bool|str)\b|"
                    r":arg\s+(int|number|float|bool|str)\s+%s\b" % (re.escape(pn),
                                                                     re.escape(pn)), doc)
                dflt = f.defaults().get(pn)
                if isinstance(dflt, ast.Constant) and isinstance(
                        dflt.value, (int, float, complex, str, bool)):
                    scalar = True       # declared through its default value
                if scalar or documented or f.name == "__init__":
                    continue
                inst = f"{f.qualname}({pn})"
                run.oblige("P2", inst, False, sample={
                    "where": m.where, "how": m.how, "documented": False,
                    "parameter_type": "undeclared"})
                run.add("P2", f"{f.qualname}/{pn}", m.where,
                        f"public {f.qualname} updates its parameter `{pn}` with "
                        f"`{ast.unparse(m.node)[:50]}`: for an array argument this is "
                        f"an in-place edit of the caller's array (the docstring "
                        f"neither restricts `{pn}` to scalars nor documents it)")
                continue
            inst = f"{f.qualname}({pn})"
            run.oblige("P2", inst, documented, sample={
                "where": m.where, "how": m.how, "documented": documented})
            if not documented:
                run.add("P2", f"{f.qualname}/{pn}", m.where,
                        f"public {f.qualname} edits the caller's argument `{pn}` in "
                        f"place ({m.how} on `{m.target_src}`) and its docstring does "
                        f"not say so")
    # --- P2b: arrays stored by reference in a constructor, edited by a
    #          non-constructor method whose docstring does not document it
    for C in prog.classes.values():
        init = C.methods.get("__init__")
        if init is None:
            continue
        stored = an.analysis(init).stored
        byref = {cell for cell, o in stored.items()
                 if any(x.startswith("param:") for x in o)}
        if not byref:
            continue
        for D in [d for d in prog.classes.values() if C in d.mro]:
            for name, f in prog.all_methods(D).items():
                if f.kind != "method" or name == "__init__":
                    continue
                for m in an.analysis(f).mutations:
                    hit = sorted(c for c in byref if f"state:{c}" in m.origins)
                    if not hit or m.exempt:
                        continue
                    documented = bool(DOC_INPLACE.search(f.docstring)) or \
                        name.startswith(("set_", "update_"))
                    inst = f"{D.name}.{f.name}:{hit[0]}"
                    run.oblige("P2", "byref:" + inst, documented, sample={
                        "where": m.where, "cell": hit[0],
                        "stored_by": init.qualname})
                    if not documented:
                        run.add("P2", f"byref/{f.qualname}/{hit[0]}", m.where,
                                f"{init.qualname} stores the caller's array in "
                                f"`{hit[0]}` by reference and {f.qualname} edits it in "
                                f"place ({m.how}) without documenting it: the caller's "
                                f"data changes behind its back")
    # --- P4: conditionally recomputed memos (a query must not leave a stale
    #          memo behind that a later query reuses)
    from .rules_c01 import CacheModel, _k4_cond_recompute
    run.rule("P4", "state recomputed only under a guard test is refreshed by every "
             "writer of what it derives from (no query reuses a stale memo)")
    _k4_cond_recompute(run, prog, CacheModel(prog), rule="P4")
    run.units = {"functions": len(an.fa),
                 "mutation_sites": sum(len(fa.mutations) for fa in an.fa.values()),
                 "memoised_bindings_checked": n_cached_bind,
                 "restore_pairs": n_pairs // 2}
    run.floor("functions analysed", len(an.fa), 600, hard=True)
    run.extra["restore_pairs_recognised"] = n_pairs // 2    # informational only
    return an


_PURITY = {}


def purity(prog: Program) -> Purity:
    if prog not in _PURITY:
        an = Purity(prog)
        an.compute()
        _PURITY[prog] = an
    return _PURITY[prog]


def p1_restricted(run: Run, rule: str, prog: Program, origin_pred, what: str,
                  floor: int = 1, include_state=False):
    """P1 restricted to memoised values selected by origin_pred(origin: str);
    used by properties that host the purity clause for their own arrays."""
    an = purity(prog)
    n = 0
    for f, fa in sorted(an.fa.items(), key=lambda kv: kv[0].qualname):
        for m in fa.mutations:
            hit = sorted(o for o in m.origins if origin_pred(o))
            if not hit or m.tentative:
                continue
            n += 1
            inst = f"{f.qualname}:{m.target_src}:{m.how}:{m.node.lineno}"
            ok = bool(m.exempt)
            run.oblige(rule, inst, ok, sample={"where": m.where, "origin": hit,
                                               "exempt": m.exempt})
            if not ok:
                for o in hit:
                    run.add(rule, f"{f.qualname}/{o}/{m.how}", m.where,
                            f"{f.qualname} edits `{m.target_src}` in place ({m.how}), "
                            f"which may alias {o} ({what})")
        for (target, pn, o, node, pos, src) in fa.calls_passing:
            hit = sorted(x for x in o if origin_pred(x))
            if not hit:
                continue
            n += 1
            mp = an.mut_params.get(target, {})
            bad = pn in mp and an.real_mutation(fa, target, pn, node)
            run.oblige(rule, f"{f.qualname}->{target.qualname}({pn}):{node.lineno}",
                       not bad, sample={"where": f"{f.module.relpath}:{node.lineno}",
                                        "origin": hit})
            if bad:
                for x in hit:
                    run.add(rule, f"{f.qualname}/{x}/via:{target.qualname}",
                            f"{f.module.relpath}:{node.lineno}",
                            f"{f.qualname} passes `{src}` ({x}) to {target.qualname}, "
                            f"which edits its parameter `{pn}` in place ({what})")
    # the rule is evaluated on every function; a zero count of edits is the
    # expected good case, so the floor is on the analysed functions instead
    run.extra.setdefault("hosted_purity", {})[rule] = {
        "what": what, "edit_or_pass_sites": n, "functions_analysed": len(an.fa)}
    run.floor(f"{rule} functions analysed for {what}", len(an.fa), 600, hard=True)
    if n == 0:
        run.oblige(rule, f"no-inplace-edit-of:{what}", True, nontrivial=True,
                   sample={"functions_analysed": len(an.fa)})
    return n
