"""Entry point:  python -m pyuverif <Cxx> [--tier quick|thorough] [--repo DIR]"""
from __future__ import annotations

import argparse
import os
import sys
import traceback

from .report import Run, AnalysisError, REPO


def load_checks():
    from . import registry
    return registry.CHECKS


def main(argv=None):
    ap = argparse.ArgumentParser(prog="vcheck")
    ap.add_argument("prop")
    ap.add_argument("--tier", default=os.environ.get("VERIF_TIER", "quick"),
                    choices=["quick", "thorough"])
    ap.add_argument("--repo", default=REPO)
    ap.add_argument("--replay", default=None,
                    help="path of a finding file; re-runs the check")
    ap.add_argument("--no-write", action="store_true")
    args = ap.parse_args(argv)
    checks = load_checks()
    if args.prop == "all":
        rc = 0
        for p in sorted(checks):
            rc = max(rc, run_one(p, checks[p], args))
        return rc
    if args.prop not in checks:
        print(f"ANALYSIS-ERROR property={args.prop} no such check")
        return 2
    return run_one(args.prop, checks[args.prop], args)


def run_one(prop, fn, args):
    run = Run(prop, tier=args.tier, repo=args.repo, write=not args.no_write)
    try:
        fn(run)
    except AnalysisError as e:
        run.error(str(e))
    except Exception as e:    # a crash of the checker is never a verdict
        run.error(f"checker crashed: {type(e).__name__}: {e}")
        traceback.print_exc()
    try:
        return run.finish()
    except Exception as e:
        traceback.print_exc()
        print(f"ANALYSIS-ERROR property={prop} cannot write evidence: {e}")
        return 2


if __name__ == "__main__":
    sys.exit(main())
