"""Entry point:  python -m pyuverif <Cxx> [--tier quick|thorough] [--repo DIR]"""
from __future__ import annotations

import argparse
import os
import sys
import traceback

from .report import Run, AnalysisError, REPO


def load_checks():
    from . import registry
    return registry.CHECKS


def main(argv=None):
    ap = argparse.ArgumentParser(prog="vcheck")
    ap.add_argument("prop")
    ap.add_argument("--tier", default=os.environ.get("VERIF_TIER", "quick"),
                    choices=["quick", "thorough"])
    ap.add_argument("--repo", default=REPO)
    ap.add_argument("--replay", default=None,
                    help="path of a finding file; re-runs the check")
    ap.add_argument("--no-write", action="store_true")
    args = ap.parse_args(argv)
    checks = load_checks()
    if args.prop == "all":
        rc = 0
        for p in sorted(checks):
            rc = max(rc, run_one(p, checks[p], args))
        return rc
    if args.prop not in checks:
        print(f"ANALYSIS-ERROR property={args.prop} no such check")
        return 2
    return run_one(args.prop, checks[args.prop], args)


def run_one(prop, fn, args):
    run = Run(prop, tier=args.tier, repo=args.repo, write=not args.no_write)
    try:
        fn(run)
    except AnalysisError as e:
        run.error(str(e))
    except Exception as e:    # a crash of the checker is never a verdict
        run.error(f"checker crashed: {type(e).__name__}: {e}")
        traceback.print_exc()
    if args.tier == "thorough" and not args.no_write and not run.errors:
        try:
            thorough(run, prop, args)
        except Exception as e:
            run.error(f"self-validation crashed: {type(e).__name__}: {e}")
            traceback.print_exc()
    try:
        return run.finish()
    except Exception as e:
        traceback.print_exc()
        print(f"ANALYSIS-ERROR property={prop} cannot write evidence: {e}")
        return 2


def thorough(run, prop, args):
    """Thorough tier = quick rules on the working tree + self-validation of the
    checker on scratch variants of the same tree (mutants.py)."""
    from . import mutants
    res, summ = mutants.self_validate(prop, args.repo)
    run.extra["self_validation"] = {
        "what": ("break variants (reverted fix: commits + catalogue) must be reported "
                 "with the expected finding; twin variants (behaviour-preserving "
                 "rewrites, incl. renaming every local in the tree) must not change "
                 "the verdict; each variant is a scratch copy analysed statically"),
        "variants": summ["variants"], "break_variants": summ["break_variants"],
        "twin_variants": summ["twin_variants"], "ok": summ["ok"],
        "skipped": [{"id": i, "why": str(d)} for i, d in summ["skipped"]],
        "missed": [{"id": i, "detail": d} for i, d in summ["missed"]],
        "noisy": [{"id": i, "detail": d} for i, d in summ["noisy"]],
        "ok_ids": summ["ok_ids"]}
    run.rule("SV", "self-validation: the check reports every break variant and "
             "stays silent on every twin variant")
    for v, st, d in res:
        if st == "skipped":
            continue
        run.oblige("SV", f"{v.kind}:{v.vid}", st == "ok")
    for i, d in summ["missed"]:
        run.error(f"self-validation: break variant {i} was not reported ({d})")
    for i, d in summ["noisy"]:
        run.error(f"self-validation: behaviour-preserving variant {i} changed the "
                  f"verdict ({d})")
    if summ["variants"] and len(summ["skipped"]) > summ["variants"] // 2:
        run.unknowns.append(f"self-validation: {len(summ['skipped'])} of "
                            f"{summ['variants']} variants not applicable to this tree")


if __name__ == "__main__":
    sys.exit(main())
