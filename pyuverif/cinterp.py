"""Affine pointer analysis of the C kernels (DESIGN.md §3.4 / C20 rule B5).

Every pointer is tracked as (base, polynomial offset) where offsets are
polynomials in parameters, loop counters and data symbols.  Loop-carried
scalars/pointers advanced by a loop-invariant step once per iteration are
resolved as induction variables.  Anything outside this fragment raises
AnalysisError (never assumed safe).
"""
from __future__ import annotations

import itertools
from dataclasses import dataclass, field
from typing import Optional

from .cymodel import X, pp, walk, names_in
from .cmodel import CFunc, Poly
from .report import AnalysisError

INT_TYPES = ("int", "long", "unsigned int", "unsigned long", "short", "char",
             "long long", "size_t", "unsigned", "unsigned char")


def is_int_type(t: str) -> bool:
    return t.replace("const ", "").strip() in INT_TYPES


def strip_qual(t: str) -> str:
    """C type without cv-qualifiers (`const float *` -> `float *`)."""
    return " ".join(w for w in t.replace("*", " * ").split()
                    if w not in ("const", "volatile", "restrict", "__restrict")
                    ).replace(" *", "*").replace("* ", "*")


def is_ptr_type(t: str) -> bool:
    return t.strip().endswith("*")


C_SIZEOF = {"char": 1, "signed char": 1, "unsigned char": 1, "short": 2, "int": 4,
            "unsigned int": 4, "long": 8, "unsigned long": 8, "long long": 8,
            "float": 4, "double": 8, "size_t": 8}     # LP64


@dataclass
class Access:
    base: str
    offset: Poly
    kind: str            # r | w
    line: int
    expr: str
    facts: tuple = ()    # float facts active on the path
    cond_depth: int = 0  # number of enclosing `if`s
    loops: tuple = ()    # counter symbols of the loops active at the access


@dataclass
class Sym:
    name: str
    lo: Optional[Poly] = None     # inclusive
    hi: Optional[Poly] = None     # inclusive
    origin: str = ""              # loop / data / unknown / param


class CInterp:
    def __init__(self, fn: CFunc, cfuncs: dict | None = None):
        self.fn = fn
        self.cfuncs = cfuncs or {}
        self.inline_depth = 0
        self.env = {}            # var -> value
        self.syms: dict[str, Sym] = {}
        self.accesses: list[Access] = []
        self.alloca: dict[str, Poly] = {}      # local base -> element count
        self.content: dict[str, list] = {}     # base -> [(value, line, facts)]
        self.float_defs = {}                   # float var -> X (last definition)
        self.facts: list = []                  # active float facts: (var, op, const)
        self.loop_id = itertools.count(1)
        self.unknown_id = itertools.count(1)
        self.notes = []
        self.alloca_types = {}
        self.casts = []
        self.cond_depth = 0
        self.data_syms = {}
        self.active_loops = []
        for name, t in fn.params:
            if is_ptr_type(t):
                self.env[name] = ("ptr", name, Poly())
            elif is_int_type(t):
                self.env[name] = ("int", Poly.sym(name))
                self.syms[name] = Sym(name, origin="param")
            else:
                self.env[name] = ("float", name)

    # ---- helpers
    def fresh(self, hint, lo=None, hi=None, origin="unknown") -> Poly:
        n = f"{hint}?{next(self.unknown_id)}"
        self.syms[n] = Sym(n, lo, hi, origin)
        return Poly.sym(n)

    def err(self, node, msg):
        raise AnalysisError(f"{self.fn.relpath}:{getattr(node, 'line', 0)} "
                            f"{self.fn.name}: {msg}")

    # ---- expressions
    def ev(self, e: X):
        k = e.k
        if k == "num":
            if isinstance(e.a[0], int):
                return ("int", Poly.const(e.a[0]))
            return ("float", None)
        if k == "name":
            v = self.env.get(e.a[0])
            if v is None:
                return ("unk",)
            return v
        if k == "cast":
            v = self.ev(e.a[1])
            t = e.a[0]
            if is_int_type(t):
                if v[0] == "int":
                    return v
                # float -> int: a data dependent integer
                return self.float_to_int(e)
            if is_ptr_type(t):
                return v
            return ("float", None) if v[0] != "ptr" else v
        if k == "bin":
            op = e.a[0]
            l, r = self.ev(e.a[1]), self.ev(e.a[2])
            if l[0] == "ptr" and r[0] == "int" and op in ("+", "-"):
                return ("ptr", l[1], l[2] + r[1] if op == "+" else l[2] - r[1])
            if r[0] == "ptr" and l[0] == "int" and op == "+":
                return ("ptr", r[1], r[2] + l[1])
            if l[0] == "int" and r[0] == "int":
                if op == "+":
                    return ("int", l[1] + r[1])
                if op == "-":
                    return ("int", l[1] - r[1])
                if op == "*":
                    return ("int", l[1] * r[1])
                if op in ("|", "&", "^", "/", "%", "<<", ">>"):
                    return ("int", self.fresh("op"))
            if l[0] == "ptr" or r[0] == "ptr":
                self.err(e, f"unsupported pointer arithmetic `{pp(e)}`")
            return ("float", None)
        if k == "un":
            v = self.ev(e.a[1])
            if v[0] == "int" and e.a[0] == "-":
                return ("int", -v[1])
            return ("float", None) if v[0] != "int" else ("int", self.fresh("un"))
        if k == "deref":
            p = self.ev(e.a[0])
            return self.load(p, e)
        if k == "index":
            p = self.ev(e.a[0])
            i = self.ev(e.a[1][0])
            if p[0] != "ptr" or i[0] != "int":
                self.err(e, f"unsupported subscript `{pp(e)}`")
            return self.load(("ptr", p[1], p[2] + i[1]), e)
        if k in ("cmp", "boolop", "not"):
            for sub in e.a:
                if isinstance(sub, X):
                    self.ev(sub)
                elif isinstance(sub, list):
                    for s in sub:
                        if isinstance(s, X):
                            self.ev(s)
            return ("int", self.fresh("bool", Poly.const(0), Poly.const(1)))
        if k == "call":
            for a in e.a[1]:
                self.ev(a)
            fn = pp(e.a[0])
            if fn in ("fabs", "log", "sqrt", "exp", "pow", "fabsf", "sqrtf", "logf",
                      "floor", "ceil"):
                return ("float", None)
            if fn in ("__builtin_alloca", "alloca", "malloc"):
                return ("alloca", e)
            if fn in ("memset", "__builtin_memset") and len(e.a[1]) == 3:
                return self.memset(e)
            if fn in self.cfuncs and self.inline_depth < 4:
                return self.inline(self.cfuncs[fn], e)
            self.err(e, f"call of unknown function `{fn}`")
        if k == "sizeof":
            sz = C_SIZEOF.get(strip_qual(str(e.a[0]))) if e.a else None
            if sz is not None:
                return ("int", Poly.const(sz))
            return ("int", self.fresh("sizeof"))
        if k == "cond":
            self.ev(e.a[0])
            # each arm is evaluated under what the condition says there
            facts0 = list(self.facts)
            f = self.float_fact(e.a[0], True)
            self.facts = facts0 + [f] if f else list(facts0)
            a = self.ev(e.a[1])
            f = self.float_fact(e.a[0], False)
            self.facts = facts0 + [f] if f else list(facts0)
            b = self.ev(e.a[2])
            self.facts = facts0
            if a == b:
                return a
            if a[0] == "int" and b[0] == "int":
                return ("int", self.join_int(a[1], b[1], "cond"))
            return a
        if k == "cassign":
            v = self.ev(e.a[1])
            self.assign(e.a[0], v, e)
            return v
        self.err(e, f"unsupported expression `{pp(e)}` ({k})")

    def memset(self, e: X):
        """memset(p, c, n): a write of every element p[0 .. n/sizeof(*p) - 1]
        (recorded like a loop over them); with c == 0 the elements hold 0."""
        p = self.ev(e.a[1][0])
        n = self.ev(e.a[1][2])
        c = e.a[1][1]
        if p[0] != "ptr" or n[0] != "int":
            self.err(e, f"unsupported memset `{pp(e)}`")
        es = C_SIZEOF.get(strip_qual(self.elem_type(p[1]) or ""))
        if not es or any(v % es for v in n[1].t.values()):
            self.err(e, f"memset length `{pp(e.a[1][2])}` is not a whole number of "
                        f"elements of `{p[1]}`")
        count = Poly({k_: v // es for k_, v in n[1].t.items()})
        name = f"memset#{next(self.unknown_id)}"
        self.syms[name] = Sym(name, Poly(), count - Poly.const(1), origin="loop")
        self.accesses.append(Access(p[1], p[2] + Poly.sym(name), "w", e.line, pp(e),
                                    tuple(self.facts), self.cond_depth,
                                    tuple(self.active_loops) + (name,)))
        t = self.elem_type(p[1])
        if t and is_int_type(t) and c.k == "num" and c.a[0] == 0:
            self.content.setdefault(p[1], []).append((Poly.const(0), e.line))
        return ("unk",)

    def inline(self, callee: CFunc, e: X):
        """Evaluate a call of a function defined in the same file by running its
        body with the parameters bound to the argument values."""
        args = [self.ev(a) for a in e.a[1]]
        if len(args) != len(callee.params):
            self.err(e, f"call of `{callee.name}` with {len(args)} arguments")
        saved = self.env
        self.env = dict(saved)
        for (pn, pt), v in zip(callee.params, args):
            if is_int_type(pt) and v[0] != "int":
                v = ("int", self.fresh(pn))
            elif not is_int_type(pt) and not is_ptr_type(pt):
                v = ("float", pn)
            self.env[pn] = v
        self.inline_depth += 1
        self._rets = []
        try:
            self.run(callee.body)
        finally:
            self.inline_depth -= 1
        rets = self._rets
        self.env = saved
        if not rets:
            return ("unk",)
        if all(r == rets[0] for r in rets):
            return rets[0]
        if all(r[0] == "int" for r in rets):
            out = rets[0][1]
            for r in rets[1:]:
                out = self.join_int(out, r[1], callee.name)
            return ("int", out)
        return ("float", None) if all(r[0] == "float" for r in rets) else ("unk",)

    def load(self, p, e):
        if p[0] != "ptr":
            self.err(e, f"dereference of a non-pointer `{pp(e)}`")
        self.accesses.append(Access(p[1], p[2], "r", e.line, pp(e), tuple(self.facts),
                                    self.cond_depth, tuple(self.active_loops)))
        # integer arrays carry content facts (resolved after the run)
        t = self.elem_type(p[1])
        if t and is_int_type(t):
            s = self.fresh(f"data:{p[1]}", origin=f"data:{p[1]}")
            self.data_syms.setdefault(p[1], []).append(list(s.symbols())[0])
            return ("int", s)
        return ("float", None)

    def elem_type(self, base):
        for n, t in self.fn.params:
            if n == base and is_ptr_type(t):
                return t.rstrip("* ").strip()
        if base in self.alloca_types:
            return self.alloca_types[base]
        return None

    def float_to_int(self, e: X):
        """(long)(F * n): F a float variable with range facts."""
        inner = e.a[1]
        lo = hi = None
        fvar = None
        n = None
        if inner.k == "bin" and inner.a[0] == "*":
            for a, b in ((inner.a[1], inner.a[2]), (inner.a[2], inner.a[1])):
                if a.k == "name" and self.env.get(a.a[0], ("",))[0] == "float":
                    vb = self.ev(b)
                    if vb[0] == "int":
                        fvar, n = a.a[0], vb[1]
        if fvar is not None:
            for (v, op, c) in self.facts:
                if v == fvar and op == "<" and c <= 1.0:
                    hi = n - Poly.const(1)
                if v == fvar and op == ">=" and c >= 0.0:
                    lo = Poly.const(0)
        s = self.fresh("bin", lo, hi, origin=f"float:{fvar}")
        self.casts.append((e, fvar, list(s.symbols())[0], lo is not None, hi is not None))
        return ("int", s)

    # ---- statements
    def assign(self, target: X, v, node):
        if target.k == "name":
            name = target.a[0]
            if v[0] == "alloca":
                call = v[1]
                arg = call.a[1][0]
                cnt = None
                if arg.k == "bin" and arg.a[0] == "*":
                    for a, b in ((arg.a[1], arg.a[2]), (arg.a[2], arg.a[1])):
                        if b.k == "sizeof":
                            va = self.ev(a)
                            if va[0] == "int":
                                cnt = va[1]
                                self.alloca_types = dict(self.alloca_types)
                                self.alloca_types[name] = b.a[0]
                if cnt is None:
                    self.err(node, f"unsupported allocation `{pp(call)}`")
                self.alloca[name] = cnt
                self.env[name] = ("ptr", name, Poly())
                return
            if v[0] == "float":
                self.env[name] = ("float", name)
                return
            self.env[name] = v
            return
        if target.k in ("deref", "index"):
            if target.k == "deref":
                p = self.ev(target.a[0])
            else:
                b = self.ev(target.a[0])
                i = self.ev(target.a[1][0])
                if b[0] != "ptr" or i[0] != "int":
                    self.err(node, f"unsupported store target `{pp(target)}`")
                p = ("ptr", b[1], b[2] + i[1])
            if p[0] != "ptr":
                self.err(node, f"store through non-pointer `{pp(target)}`")
            self.accesses.append(Access(p[1], p[2], "w", target.line or node.line,
                                        pp(target), tuple(self.facts), self.cond_depth,
                                        tuple(self.active_loops)))
            if v[0] == "int":
                self.content.setdefault(p[1], []).append((v[1], node.line))
            return
        self.err(node, f"unsupported assignment target `{pp(target)}`")

    def run(self, stmts):
        for st in stmts:
            self.stmt(st)

    def stmt(self, st: X):
        k = st.k
        if k == "cdecl":
            for name, t, init in st.a[0]:
                if init is None:
                    if is_int_type(t):
                        self.env[name] = ("int", self.fresh(name))
                    elif is_ptr_type(t):
                        self.env[name] = ("unk",)
                    else:
                        self.env[name] = ("float", name)
                    continue
                v = self.ev(init)
                if is_int_type(t) and v[0] != "int":
                    v = ("int", self.fresh(name))
                if not is_int_type(t) and not is_ptr_type(t):
                    v = ("float", name)
                    self.float_defs[name] = init
                self.assign(X("name", name), v, st)
        elif k == "assign":
            v = self.ev(st.a[1])
            for t in st.a[0]:
                if t.k == "name" and self.env.get(t.a[0], ("",))[0] == "float" or \
                        (t.k == "name" and v[0] == "float"):
                    self.float_defs[t.a[0]] = st.a[1]
                    # a redefinition invalidates facts about the variable
                    self.facts = [f for f in self.facts if f[0] != t.a[0]]
                self.assign(t, v, st)
        elif k == "aug":
            op, t, val = st.a
            v = self.ev(val)
            if t.k == "name":
                cur = self.env.get(t.a[0], ("unk",))
                if cur[0] == "ptr" and v[0] == "int" and op in ("+", "-"):
                    self.env[t.a[0]] = ("ptr", cur[1], cur[2] + v[1] if op == "+"
                                        else cur[2] - v[1])
                elif cur[0] == "int" and v[0] == "int" and op in ("+", "-"):
                    self.env[t.a[0]] = ("int", cur[1] + v[1] if op == "+"
                                        else cur[1] - v[1])
                elif cur[0] == "int":
                    self.env[t.a[0]] = ("int", self.fresh(t.a[0]))
                elif cur[0] == "float":
                    pass
                else:
                    self.err(st, f"unsupported compound assignment `{pp(st)}`")
            else:
                # (*p)++ / a[i] += v : read-modify-write of one element
                cur = self.ev(t)
                if t.k in ("deref", "index"):
                    self.assign(t, ("int", self.fresh("rmw")) if cur[0] == "int"
                                else ("float", None), st)
        elif k == "expr":
            self.ev(st.a[0])
        elif k == "if":
            self.do_if(st)
        elif k == "cfor":
            self.do_for(st)
        elif k == "block":
            self.run(st.a[0])
        elif k in ("continue", "break", "return"):
            if k == "return" and st.a[0] is not None:
                v = self.ev(st.a[0])
                if self.inline_depth:
                    self._rets.append(v)
        elif k == "while":
            self.err(st, "while loops are outside the analysed fragment")
        else:
            self.err(st, f"unsupported statement {k}")

    def float_fact(self, cond: X, positive: bool):
        """(var, op, const) facts from a float comparison."""
        if cond.k != "cmp":
            return None
        op, l, r = cond.a
        if l.k == "name" and self.env.get(l.a[0], ("",))[0] == "float" and r.k == "num":
            c = float(r.a[0])
            if not positive:
                op = {"<": ">=", "<=": ">", ">": "<=", ">=": "<"}.get(op)
            if op is None:
                return None
            return (l.a[0], op, c)
        return None

    def do_if(self, st: X):
        (cond, then), = st.a[0]
        els = st.a[1]
        self.ev(cond)
        env0 = dict(self.env)
        facts0 = list(self.facts)
        f = self.float_fact(cond, True)
        if f:
            self.facts = facts0 + [f]
        self.cond_depth += 1
        n0 = len(self.accesses)
        self.run(then)
        n1 = len(self.accesses)
        env1 = self.env
        self.env = dict(env0)
        f = self.float_fact(cond, False)
        self.facts = facts0 + [f] if f else list(facts0)
        self.run(els)
        self.cond_depth -= 1
        # a cell written on both branches is written unconditionally
        thenw = {(a.base, a.offset) for a in self.accesses[n0:n1]
                 if a.kind == "w" and a.cond_depth == self.cond_depth + 1}
        for a in list(self.accesses[n1:]):
            if a.kind == "w" and a.cond_depth == self.cond_depth + 1 and \
                    (a.base, a.offset) in thenw:
                self.accesses.append(Access(a.base, a.offset, "w", a.line, a.expr,
                                            (), self.cond_depth, a.loops))
                thenw.discard((a.base, a.offset))
        env2 = self.env
        self.facts = facts0
        merged = {}
        for name in set(env1) | set(env2):
            a, b = env1.get(name), env2.get(name)
            if a == b:
                merged[name] = a
            elif a is None or b is None:
                merged[name] = a or b
            elif a[0] == "int" and b[0] == "int":
                lo = hi = None
                merged[name] = ("int", self.join_int(a[1], b[1], name))
            elif a[0] == "ptr" and b[0] == "ptr" and a[1] == b[1]:
                merged[name] = ("ptr", a[1], self.join_int(a[2], b[2], name))
            elif a[0] == "float" or b[0] == "float":
                merged[name] = ("float", name)
            else:
                merged[name] = ("unk",)
        self.env = merged

    def join_int(self, a: Poly, b: Poly, hint):
        la, ha = self.bounds(a)
        lb, hb = self.bounds(b)
        lo = hi = None
        if la is not None and lb is not None:
            lo = la if self.leq(la, lb) else (lb if self.leq(lb, la) else None)
        if ha is not None and hb is not None:
            hi = ha if self.leq(hb, ha) else (hb if self.leq(ha, hb) else None)
        s = self.fresh(f"phi:{hint}", lo, hi, origin="join")
        if not hasattr(self, "joins"):
            self.joins = {}
        self.joins[list(s.symbols())[0]] = (a, b)
        return s

    # ---- loops
    def do_for(self, st: X):
        init, cond, inc, body = st.a
        self.run(init)
        countdown = cond is not None and cond.k == "cmp" and cond.a[0] == ">" and \
            cond.a[1].k == "caug" and cond.a[1].a[0] == "-" and \
            cond.a[1].a[1].k == "name" and pp(cond.a[1].a[2]) == "1" and \
            pp(cond.a[2]) == "0" and not inc
        header_updates = []
        if countdown:
            # for (v = n; v-- > 0; ): the body sees v = n-1, ..., 0
            v = cond.a[1].a[1].a[0]
            start = self.env.get(v)
            if start is None or start[0] != "int":
                self.err(st, f"loop counter `{v}` has no integer start value")
            a, b = Poly(), start[1]
        else:
            if cond is None or cond.k != "cmp" or cond.a[0] not in ("<", "<="):
                self.err(st, f"unsupported loop condition `{pp(cond) if cond else None}`")
            if cond.a[1].k != "name":
                self.err(st, "loop counter is not a plain variable")
            v = cond.a[1].a[0]
            # for (v = a; v < b; v++, p += n, ...): the further header updates
            # run at the end of every iteration (also after `continue`)
            header_updates = []
            if len(inc) > 1:
                mine = [x for x in inc if x.k == "aug" and pp(x.a[1]) == v]
                rest_ = [x for x in inc if x not in mine]
                if len(mine) == 1 and all(x.k == "aug" and x.a[1].k == "name"
                                          for x in rest_):
                    inc = mine
                    header_updates = rest_
                    body = list(body) + rest_
            if not (len(inc) == 1 and inc[0].k == "aug" and inc[0].a[0] == "+" and
                    pp(inc[0].a[1]) == v and pp(inc[0].a[2]) == "1"):
                self.err(st, f"loop `{v}` is not advanced by exactly one per iteration")
            start = self.env.get(v)
            if start is None or start[0] != "int":
                self.err(st, f"loop counter `{v}` has no integer start value")
            a = start[1]
            bound = self.ev(cond.a[2])
            if bound[0] != "int":
                self.err(st, f"loop bound `{pp(cond.a[2])}` is not an integer expression")
            b = bound[1]
            if cond.a[0] == "<=":
                b = b + Poly.const(1)
        body = self._merge_continue_updates(body)
        # the counter must not be modified in the body
        assigned = self.assigned_names(body)
        if v in assigned:
            self.err(st, f"loop counter `{v}` is modified inside the loop body")
        lid = next(self.loop_id)
        cs = f"{v}#{lid}"
        self.syms[cs] = Sym(cs, a, b - Poly.const(1), origin="loop")
        csym = Poly.sym(cs)
        # induction variables: updated by `x += c` at the top level of the body,
        # exactly once, with c invariant, and not otherwise assigned
        top_updates = {}
        for i, s in enumerate(body):
            if s.k == "aug" and s.a[1].k == "name" and s.a[0] in ("+", "-"):
                top_updates.setdefault(s.a[1].a[0], []).append((i, s))
        induction = {}
        deep = self.assigned_names_deep(body)
        for name, ups in top_updates.items():
            cur = self.env.get(name)
            if cur is None or cur[0] not in ("int", "ptr") or len(ups) != 1:
                continue
            others = [x for x in deep.get(name, []) if x is not ups[0][1]]
            if others:
                continue
            i, s = ups[0]
            stepv = self.ev_invariant(s.a[2], assigned)
            if stepv is None:
                continue
            if s.a[0] == "-":
                stepv = -stepv
            # no continue/break before the update at this nesting level
            skipping = ("break",) if any(s is h_ for h_ in header_updates) \
                else ("continue", "break")
            if any(isinstance(x, X) and x.k in skipping
                   for x in self._walk_this_loop(body[:i])):
                self.err(st, f"`continue`/`break` may skip the update of `{name}`")
            induction[name] = (i, stepv, cur)
        # havoc every other variable assigned in the body
        for name in assigned:
            if name in induction or name == v:
                continue
            cur = self.env.get(name)
            if cur is None:
                continue
            if cur[0] == "int":
                self.env[name] = ("int", self.fresh(name))
            elif cur[0] == "ptr":
                # re-assigned before use inside the body (checked by running)
                self.env[name] = ("unk",)
        iters = csym - a
        self.env[v] = ("int", csym)
        for name, (i, stepv, cur) in induction.items():
            off = stepv * iters
            self.env[name] = ("int", cur[1] + off) if cur[0] == "int" else \
                ("ptr", cur[1], cur[2] + off)
        self.active_loops.append(cs)
        for i, s in enumerate(body):
            self.stmt(s)
        self.active_loops.pop()
        # after the loop
        trip = b - a
        for name, (i, stepv, cur) in induction.items():
            off = stepv * trip
            self.env[name] = ("int", cur[1] + off) if cur[0] == "int" else \
                ("ptr", cur[1], cur[2] + off)
        self.env[v] = ("int", b)
        for name in assigned:
            if name in induction or name == v:
                continue
            cur = self.env.get(name)
            if cur is not None and cur[0] == "int":
                self.env[name] = ("int", self.fresh(name))
            elif cur is not None and cur[0] == "ptr":
                self.env[name] = ("unk",)
        self.notes.append(f"loop {v} in [{a}, {b})  induction: "
                          f"{ {n: str(x[1]) for n, x in induction.items()} }")

    def assigned_names(self, stmts) -> set:
        out = set()
        for s in walk(stmts):
            if isinstance(s, X):
                if s.k == "assign":
                    for t in s.a[0]:
                        if t.k == "name":
                            out.add(t.a[0])
                elif s.k == "aug" and s.a[1].k == "name":
                    out.add(s.a[1].a[0])
                elif s.k == "cdecl":
                    for name, t, init in s.a[0]:
                        out.add(name)
                elif s.k == "cassign" and s.a[0].k == "name":
                    out.add(s.a[0].a[0])
        return out

    @staticmethod
    def _walk_this_loop(stmts):
        """statements of this loop level: nested loops keep their own
        continue/break"""
        for s in stmts:
            if not isinstance(s, X):
                continue
            yield s
            if s.k in ("cfor", "while"):
                continue
            if s.k == "if":
                for _, b in s.a[0]:
                    yield from CInterp._walk_this_loop(b)
                yield from CInterp._walk_this_loop(s.a[1] or [])
            elif s.k == "block":
                yield from CInterp._walk_this_loop(s.a[0])

    @staticmethod
    def _merge_continue_updates(body):
        """`if (c) { U; continue; } REST; U`  ->  `if (!c) { REST }; U`
        (U: the running-pointer updates `x += c` every iteration performs once,
        written out on the skipping path as well)."""
        def flat(b):
            out = []
            for x in b:
                if isinstance(x, X) and x.k == "block":
                    out.extend(flat(x.a[0]))
                elif x is not None:
                    out.append(x)
            return out
        body = flat(body)
        for i, s_ in enumerate(body):
            if not (isinstance(s_, X) and s_.k == "if" and len(s_.a[0]) == 1
                    and not s_.a[1]):
                continue
            cond, then = s_.a[0][0]
            then = flat(then)
            if len(then) < 2 or then[-1].k != "continue":
                continue
            ups = then[:-1]
            k_ = len(ups)
            if not all(u.k == "aug" and u.a[1].k == "name" for u in ups):
                continue
            tail = body[len(body) - k_:]
            if i >= len(body) - k_ or [pp(u) for u in ups] != [pp(u) for u in tail]:
                continue
            rest = body[i + 1: len(body) - k_]
            if any(isinstance(x, X) and x.k in ("continue", "break")
                   for x in CInterp._walk_this_loop(rest)):
                continue
            guarded = X("if", [(X("not", cond, line=s_.line), rest)], [], line=s_.line)
            return body[:i] + [guarded] + tail
        return body

    def assigned_names_deep(self, stmts) -> dict:
        out = {}
        for s in walk(stmts):
            if isinstance(s, X):
                if s.k == "assign":
                    for t in s.a[0]:
                        if t.k == "name":
                            out.setdefault(t.a[0], []).append(s)
                elif s.k == "aug" and s.a[1].k == "name":
                    out.setdefault(s.a[1].a[0], []).append(s)
                elif s.k == "cassign" and s.a[0].k == "name":
                    out.setdefault(s.a[0].a[0], []).append(s)
        return out

    def ev_invariant(self, e: X, assigned: set) -> Optional[Poly]:
        if names_in(e) & assigned:
            return None
        saved = len(self.accesses)
        v = self.ev(e)
        del self.accesses[saved:]
        return v[1] if v[0] == "int" else None

    # ---- bounds
    def bounds(self, p: Poly, depth=0):
        """(lo, hi) polynomials (inclusive) obtained by substituting symbol
        ranges; None when unbounded.  Only sign-definite monomials are handled:
        every symbol is assumed >= 0 (sizes, counters, bins)."""
        if depth > 8:
            return None, None
        lo, hi = Poly(), Poly()
        for mono, c in p.t.items():
            mlo, mhi = Poly.const(1), Poly.const(1)
            for s in mono:
                sym = self.syms.get(s)
                slo = shi = None
                if sym is not None and sym.origin in ("loop", "join") or \
                        (sym is not None and sym.origin.startswith(("float:", "data:"))):
                    if sym.lo is not None:
                        slo = self.bounds(sym.lo, depth + 1)[0]
                    if sym.hi is not None:
                        shi = self.bounds(sym.hi, depth + 1)[1]
                elif sym is not None and sym.origin == "param":
                    slo = shi = Poly.sym(s)
                if slo is None or mlo is None:
                    mlo = None
                else:
                    mlo = mlo * slo
                if shi is None or mhi is None:
                    mhi = None
                else:
                    mhi = mhi * shi
            if c >= 0:
                lo = None if (lo is None or mlo is None) else lo + mlo * Poly.const(c)
                hi = None if (hi is None or mhi is None) else hi + mhi * Poly.const(c)
            else:
                lo = None if (lo is None or mhi is None) else lo + mhi * Poly.const(c)
                hi = None if (hi is None or mlo is None) else hi + mlo * Poly.const(c)
        return lo, hi

    def leq(self, a: Poly, b: Poly, pos=()) -> bool:
        """a <= b for all non-negative symbol values, symbols in `pos` >= 1
        (sufficient coefficient test after shifting the positive symbols)."""
        return self.nonneg(b - a, pos)

    def nonneg(self, a: Poly, pos=()) -> bool:
        for s in pos:
            a = a.subst(s, Poly.sym(s) + Poly.const(1))
        return all(c >= 0 for c in a.t.values())

    def positive_extents(self, loops) -> set:
        """Parameters that must be >= 1 for the given loops to be executing."""
        out = set()
        for cs in loops:
            sym = self.syms.get(cs)
            if sym is None or sym.lo is None or sym.hi is None:
                continue
            # range [lo, hi] is non-empty: hi - lo >= 0; for lo == 0 and
            # hi == E - 1 with E a parameter this is E >= 1
            if sym.lo == Poly():
                e = sym.hi + Poly.const(1)
                if len(e.t) == 1:
                    (mono, c), = e.t.items()
                    if c == 1 and len(mono) == 1 and mono[0] in dict(self.fn.params):
                        out.add(mono[0])
        return out
