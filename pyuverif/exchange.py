"""Exchange-consistency analysis (rule E4 of C16).

A function computing a pair of directed quantities (X->Y, Y->X) from two input
sequences is *exchange consistent* when swapping the roles of the two inputs
maps every statement onto a statement of the same function and the first
returned quantity onto the second.  This is decided syntactically:

* a swap map on identifiers is seeded with the two parameter pairs and grown to
  a fixpoint: `a = v` pairs with `b = w` (same branch, with the branch tests
  swapped too) when canon(S(v)) == canon(w);
* a matrix local defined as `c * (U - V)` with U, V exchange partners up to
  transposition is *antisymmetric*: S maps it to its negative, and swaps the
  axes of everything derived from it (axis=0 <-> axis=1, [a, b] <-> [b, a],
  shape[0] <-> shape[1]);
* comparisons are canonicalised through a polynomial normal form
  (`-d - lag >= t`  ==  `d + lag + t <= 0`), products of comparisons and
  np.minimum/np.maximum are commutative, transposes are pushed outwards
  (`np.repeat(a.T, n, axis=1)` == `np.repeat(a, n, axis=0).T`).

Nothing is executed; all statements of the function are covered; what cannot be
paired is reported with the local's name.
"""
from __future__ import annotations

import ast
import copy

from .cmodel import Poly

FLIP = {"GtE": "LtE", "LtE": "GtE", "Gt": "Lt", "Lt": "Gt", "Eq": "Eq", "NotEq": "NotEq"}


def inline_helpers(fn: ast.FunctionDef, resolve, depth=2) -> ast.FunctionDef:
    """Copy of fn in which `T = H(args)` (optionally `+/- p`) is replaced by the
    body of the private helper H (resolve(name) -> FunctionDef | None), for the
    two helper shapes that occur: straight-line body ending in one `return e`,
    and a guard `if c: return a` followed by `return b`.  Parameters are
    substituted by the argument expressions, helper locals get fresh names.
    The exchange analysis then sees the statements the helper stands for."""
    counter = [0]

    def subst(node, mapping):
        class T(ast.NodeTransformer):
            def visit_Name(self, n):
                if n.id in mapping:
                    return copy.deepcopy(mapping[n.id])
                return n
        return T().visit(copy.deepcopy(node))

    def expand(st):
        if not (isinstance(st, ast.Assign) and len(st.targets) == 1 and
                isinstance(st.targets[0], ast.Name)):
            return None
        tgt = st.targets[0].id
        v = st.value
        shift = None
        if isinstance(v, ast.BinOp) and isinstance(v.op, (ast.Add, ast.Sub)) and \
                isinstance(v.left, ast.Call) and isinstance(v.right, ast.Name):
            shift = (v.op, v.right)
            v = v.left
        if not (isinstance(v, ast.Call) and isinstance(v.func, (ast.Attribute, ast.Name))):
            return None
        name = v.func.attr if isinstance(v.func, ast.Attribute) else v.func.id
        h = resolve(name)
        if h is None or v.keywords:
            return None
        params = [a.arg for a in h.args.args]
        if params and params[0] in ("self", "cls") and len(params) == len(v.args) + 1:
            params = params[1:]
        if len(params) != len(v.args):
            return None
        body = [b for b in h.body if not (isinstance(b, ast.Expr) and
                                          isinstance(b.value, ast.Constant))]
        counter[0] += 1
        k = counter[0]
        locs = {n.id for b in body for n in ast.walk(b)
                if isinstance(n, ast.Name) and isinstance(n.ctx, ast.Store)}
        mapping = {p_: a for p_, a in zip(params, v.args)}
        for l in locs:
            if l not in mapping:
                mapping[l] = ast.Name(id=f"_h{k}_{l}", ctx=ast.Load())
        rets = [n for b in body for n in ast.walk(b) if isinstance(n, ast.Return)]

        def asg(e):
            return ast.Assign(targets=[ast.Name(id=tgt, ctx=ast.Store())],
                              value=subst(e, mapping), lineno=st.lineno)
        out = None
        if len(rets) == 1 and isinstance(body[-1], ast.Return) and body[-1].value is not None:
            out = [ast.fix_missing_locations(_store_names(subst(b, mapping)))
                   for b in body[:-1]] + [asg(body[-1].value)]
        elif len(body) == 2 and isinstance(body[0], ast.If) and not body[0].orelse and \
                len(body[0].body) == 1 and isinstance(body[0].body[0], ast.Return) and \
                isinstance(body[1], ast.Return) and len(rets) == 2:
            out = [ast.If(test=subst(body[0].test, mapping),
                          body=[asg(body[0].body[0].value)],
                          orelse=[asg(body[1].value)], lineno=st.lineno)]
        if out is None:
            return None
        if shift is not None:
            out.append(ast.Assign(
                targets=[ast.Name(id=tgt, ctx=ast.Store())],
                value=ast.BinOp(left=ast.Name(id=tgt, ctx=ast.Load()), op=shift[0],
                                right=shift[1]), lineno=st.lineno))
        for o in out:
            for n in ast.walk(o):
                if not hasattr(n, "lineno"):
                    n.lineno = st.lineno
                    n.col_offset = 0
        return out

    def _store_names(node):
        # assignment targets that were substituted by Load-context names
        for n in ast.walk(node):
            if isinstance(n, (ast.Assign, ast.AugAssign, ast.For)):
                tg = n.targets if isinstance(n, ast.Assign) else [n.target]
                for t in tg:
                    for x in ast.walk(t):
                        if isinstance(x, ast.Name):
                            x.ctx = ast.Store()
        return node

    def walk_block(stmts, d):
        out = []
        for st in stmts:
            ex = expand(st) if d > 0 else None
            if ex is not None:
                out.extend(walk_block(ex, d - 1))
                continue
            st = copy.copy(st)
            for fld in ("body", "orelse", "finalbody"):
                if isinstance(getattr(st, fld, None), list) and \
                        not isinstance(st, ast.FunctionDef):
                    setattr(st, fld, walk_block(getattr(st, fld), d))
            out.append(st)
        return out
    new = copy.copy(fn)
    new.body = walk_block(fn.body, depth)
    return new


class Exchange:
    def __init__(self, fn: ast.FunctionDef, seeds: dict, symmetric=()):
        self.fn = fn
        self.sw = {}
        for a, b in seeds.items():
            self.sw[a] = b
            self.sw[b] = a
        for s in symmetric:
            self.sw[s] = s
        self.anti = set()
        self.assumed_symmetric = set(symmetric)
        self.assigns = []          # (path, name, value, stmt)
        self.returns = []          # (path, Return)
        self.findings = []         # (name, lineno, message)
        self.pairs = []
        self.loop_swaps = {}
        self.shifts = []
        self.symT = set()
        self._collect(fn.body, ())

    # ------------------------------------------------------------------ facts
    def _collect(self, stmts, path):
        for st in stmts:
            if isinstance(st, ast.Assign):
                for t in st.targets:
                    if isinstance(t, ast.Name):
                        self.assigns.append((path, t.id, st.value, st))
                    elif isinstance(t, ast.Tuple) and isinstance(st.value, ast.Tuple) and \
                            len(t.elts) == len(st.value.elts):
                        for a, v in zip(t.elts, st.value.elts):
                            if isinstance(a, ast.Name):
                                self.assigns.append((path, a.id, v, st))
            elif isinstance(st, ast.AugAssign) and isinstance(st.target, ast.Name):
                v = ast.BinOp(left=ast.Name(id=st.target.id, ctx=ast.Load()), op=st.op,
                              right=st.value)
                self.assigns.append((path, st.target.id, v, st))
            elif isinstance(st, ast.If):
                self._collect(st.body, path + ((st.test, 0),))
                self._collect(st.orelse, path + ((st.test, 1),))
            elif isinstance(st, ast.For):
                # loop variables are bound names: make them canonical (by nesting
                # depth and position) so that two loops are compared up to renaming
                depth = sum(1 for _, arm in path if isinstance(arm, tuple))
                tg = st.target
                names = [x.id for x in (tg.elts if isinstance(tg, ast.Tuple) else [tg])
                         if isinstance(x, ast.Name)]
                ren = {nm: f"_lv{depth}_{k}" for k, nm in enumerate(names)}

                class _R(ast.NodeTransformer):
                    def visit_Name(self, n):
                        if n.id in ren:
                            return ast.copy_location(ast.Name(id=ren[n.id], ctx=n.ctx), n)
                        return n
                body = [_R().visit(copy.deepcopy(b)) for b in st.body]
                # iterating the cells of a pair matrix: (i, j) swap with the roles
                if isinstance(tg, ast.Tuple) and len(names) == 2 == len(tg.elts):
                    self.loop_swaps[id(st)] = (ren[names[0]], ren[names[1]], st.iter)
                self._collect(body, path + ((st.iter, ("for", id(st))),))
            elif isinstance(st, ast.While):
                self._collect(st.body, path + ((st.test, "while"),))
            elif isinstance(st, ast.With):
                self._collect(st.body, path)
            elif isinstance(st, ast.Try):
                self._collect(st.body, path)
            elif isinstance(st, ast.Return):
                self.returns.append((path, st))

    # ------------------------------------------------------------------- swap
    def extra_for(self, path):
        """(i, j) index swaps of the matrix-cell loops enclosing `path`."""
        m = {}
        for test, arm in path:
            if isinstance(arm, tuple) and arm[0] == "for" and arm[1] in self.loop_swaps:
                i, j, it = self.loop_swaps[arm[1]]
                if self._matrixish(it):
                    m[i], m[j] = j, i
        return m

    def S(self, e, extra=None):
        ex = self
        extra = extra or {}

        class T(ast.NodeTransformer):
            def visit_Name(self, n):
                if n.id in ex.anti and isinstance(n.ctx, ast.Load):
                    return ast.UnaryOp(op=ast.USub(), operand=ast.Name(id=n.id, ctx=ast.Load()))
                if n.id in extra:
                    return ast.Name(id=extra[n.id], ctx=n.ctx)
                if n.id in ex.sw:
                    return ast.Name(id=ex.sw[n.id], ctx=n.ctx)
                return n

            def visit_Attribute(self, n):
                # M.size / M.shape / M.T of a pair matrix: the sign is irrelevant
                if n.attr in ("size", "ndim") and isinstance(n.value, ast.Name) and \
                        n.value.id in ex.anti:
                    return n
                return self.generic_visit(copy.copy(n))

            def visit_Subscript(self, n):
                # M.shape[k]: swap the axis, keep M
                if isinstance(n.value, ast.Attribute) and n.value.attr == "shape" and \
                        ex._matrixish(n.value.value) and isinstance(n.slice, ast.Constant) \
                        and n.slice.value in (0, 1):
                    return ast.Subscript(value=n.value, slice=ast.Constant(value=1 - n.slice.value),
                                         ctx=n.ctx)
                v = self.visit(n.value)
                sl = self.visit(n.slice)
                if ex._matrixish(n.value) and isinstance(sl, ast.Tuple) and len(sl.elts) == 2:
                    sl = ast.Tuple(elts=[sl.elts[1], sl.elts[0]], ctx=ast.Load())
                return ast.Subscript(value=v, slice=sl, ctx=n.ctx)

            def visit_Call(self, n):
                m = ex._matrixish(n)
                n2 = self.generic_visit(copy.copy(n))
                if m:
                    kws = []
                    for k in n2.keywords:
                        if k.arg == "axis" and isinstance(k.value, ast.Constant) and \
                                k.value.value in (0, 1):
                            kws.append(ast.keyword(arg="axis",
                                                   value=ast.Constant(value=1 - k.value.value)))
                        else:
                            kws.append(k)
                    n2.keywords = kws
                return n2
        return T().visit(copy.deepcopy(e))

    def _matrixish(self, e) -> bool:
        """Does the expression involve a pair matrix (antisymmetric local or a
        boolean matrix derived from one)?"""
        return any(isinstance(x, ast.Name) and (x.id in self.anti or x.id in self.matrix_locals)
                   for x in ast.walk(e))

    matrix_locals: set = frozenset()

    # ------------------------------------------------------------------ canon
    def poly(self, e):
        if isinstance(e, ast.Constant) and isinstance(e.value, (int, float)) and \
                not isinstance(e.value, bool):
            if float(e.value).is_integer():
                return Poly.const(int(e.value))
            return Poly.sym(f"c:{e.value!r}")
        if isinstance(e, ast.Name):
            return Poly.sym(e.id)
        if isinstance(e, ast.UnaryOp) and isinstance(e.op, ast.USub):
            p = self.poly(e.operand)
            return -p if p is not None else None
        if isinstance(e, ast.UnaryOp) and isinstance(e.op, ast.UAdd):
            return self.poly(e.operand)
        if isinstance(e, ast.BinOp) and isinstance(e.op, (ast.Add, ast.Sub, ast.Mult)):
            a, b = self.poly(e.left), self.poly(e.right)
            if a is None or b is None:
                return None
            return a + b if isinstance(e.op, ast.Add) else a - b \
                if isinstance(e.op, ast.Sub) else a * b
        if isinstance(e, (ast.Call, ast.Subscript, ast.Attribute)):
            return Poly.sym("{" + repr(self.canon(e, arith=False)) + "}")
        return None

    def canon(self, e, arith=True):
        if e is None:
            return None
        if isinstance(e, ast.Compare) and len(e.ops) == 1:
            op = type(e.ops[0]).__name__
            l, r = self.poly(e.left), self.poly(e.comparators[0])
            if l is not None and r is not None and op in FLIP:
                p = l - r
                terms = sorted(p.t.items(), key=lambda kv: (-len(kv[0]), kv[0]))
                if terms and terms[0][1] < 0:
                    p = -p
                    op = FLIP[op]
                return ("cmp", op, repr(p))
            return ("cmp", op, self.canon(e.left), self.canon(e.comparators[0]))
        if isinstance(e, ast.BinOp) and isinstance(e.op, ast.Mult) and \
                all(self._boolish(x) for x in (e.left, e.right)):
            parts = []
            for x in (e.left, e.right):
                c = self.canon(x)
                parts.extend(c[1] if c[0] == "and" else [c])
            return ("and", tuple(sorted(parts, key=repr)))
        if isinstance(e, ast.BoolOp):
            return (type(e.op).__name__.lower(),
                    tuple(sorted((self.canon(v) for v in e.values), key=repr)))
        if isinstance(e, ast.BinOp) and isinstance(e.op, (ast.BitOr, ast.BitAnd)):
            # element-wise or/and of masks: commutative and associative
            tag = type(e.op).__name__
            parts = []
            for x in (e.left, e.right):
                c = self.canon(x)
                parts.extend(c[2] if c[0] == "bitop" and c[1] == tag else [c])
            return ("bitop", tag, tuple(sorted(parts, key=repr)))
        if arith and isinstance(e, (ast.BinOp, ast.UnaryOp)):
            p = self.poly(e)
            if p is not None:
                return ("poly", repr(p))
        if isinstance(e, ast.BinOp):
            return ("bin", type(e.op).__name__, self.canon(e.left), self.canon(e.right))
        if isinstance(e, ast.UnaryOp):
            return ("un", type(e.op).__name__, self.canon(e.operand))
        if isinstance(e, ast.Attribute):
            if e.attr == "T":
                return self._T(self.canon(e.value))
            return ("attr", self.canon(e.value), e.attr)
        if isinstance(e, ast.Call):
            f = ast.unparse(e.func)
            args = [self.canon(a) for a in e.args]
            kw = tuple(sorted((k.arg, self.canon(k.value)) for k in e.keywords))
            if f in ("np.count_nonzero", "np.abs", "abs", "np.absolute") and e.args and \
                    isinstance(e.args[0], ast.UnaryOp) and isinstance(e.args[0].op, ast.USub):
                args[0] = self.canon(e.args[0].operand)
            if f in ("np.minimum", "np.maximum") and len(args) == 2:
                return ("comm", f, tuple(sorted(args, key=repr)), kw)
            if f == "np.repeat" and args and args[0][0] == "T" and any(
                    k == "axis" and v in (("c", 0), ("c", 1)) for k, v in kw):
                kw2 = tuple((k, ("c", 1 - v[1]) if k == "axis" else v) for k, v in kw)
                return self._T(("call", f, tuple([args[0][1]] + args[1:]), kw2))
            if f in ("np.transpose",) and len(args) == 1:
                return self._T(args[0])
            return ("call", f, tuple(args), kw)
        if isinstance(e, ast.Subscript):
            return ("sub", self.canon(e.value), self.canon(e.slice))
        if isinstance(e, ast.Slice):
            return ("slice", self.canon(e.lower), self.canon(e.upper), self.canon(e.step))
        if isinstance(e, (ast.Tuple, ast.List)):
            return ("tuple", tuple(self.canon(x) for x in e.elts))
        if isinstance(e, ast.Name):
            return ("n", e.id)
        if isinstance(e, ast.Constant):
            return ("c", e.value)
        if isinstance(e, ast.IfExp):
            return ("ifexp", self.canon(e.test), self.canon(e.body), self.canon(e.orelse))
        return ("src", ast.unparse(e))

    @staticmethod
    def _T(c):
        return c[1] if c and c[0] == "T" else ("T", c)

    def _boolish(self, e) -> bool:
        if isinstance(e, ast.Compare):
            return True
        if isinstance(e, ast.BinOp) and isinstance(e.op, ast.Mult):
            return self._boolish(e.left) and self._boolish(e.right)
        return False

    def path_key(self, path, swap=False):
        out = []
        for test, arm in path:
            t = self.S(test) if swap else test
            if isinstance(arm, tuple):
                arm = arm[0]
            out.append((self.canon(t), arm))
        return tuple(out)

    # ---------------------------------------------------------------- analyse
    def _terms(self, e, sign=1):
        """Additive terms [(sign, expr)] of e; a constant factor is dropped."""
        if isinstance(e, ast.BinOp) and isinstance(e.op, ast.Add):
            return self._terms(e.left, sign) + self._terms(e.right, sign)
        if isinstance(e, ast.BinOp) and isinstance(e.op, ast.Sub):
            return self._terms(e.left, sign) + self._terms(e.right, -sign)
        if isinstance(e, ast.UnaryOp) and isinstance(e.op, ast.USub):
            return self._terms(e.operand, -sign)
        if isinstance(e, ast.UnaryOp) and isinstance(e.op, ast.UAdd):
            return self._terms(e.operand, sign)
        return [(sign, e)]

    def _anti_def(self, v):
        """v == c * (U - V) (c a positive constant, optional; any spelling of the
        difference) with S(U) == V^T  ->  True"""
        e = v
        while isinstance(e, ast.BinOp) and isinstance(e.op, ast.Mult):
            if isinstance(e.left, ast.Constant) and e.left.value > 0:
                e = e.right
            elif isinstance(e.right, ast.Constant) and e.right.value > 0:
                e = e.left
            else:
                return False
        t = self._terms(e)
        if len(t) != 2 or t[0][0] * t[1][0] != -1:
            return False
        cu = self.canon(self.S(t[0][1]))
        cv = self.canon(t[1][1])
        return cu == self._T(cv) or self._T(cu) == cv

    def _Tdist(self, c):
        """Canonical form of the transpose of the value with canonical form c."""
        if not isinstance(c, tuple) or not c:
            return c
        if c[0] == "T":
            return c[1]
        if c[0] in ("poly", "c"):
            return c                       # scalars
        if c[0] == "comm":
            return ("comm", c[1], tuple(sorted((self._Tdist(a) for a in c[2]), key=repr)),
                    c[3])
        return ("T", c)

    def _symT_def(self, v):
        """The swapped definition is the transpose of the definition: a pair
        matrix that is symmetric under the exchange (e.g. a common tolerance)."""
        c = self.canon(v)
        if c[0] not in ("comm", "T") and not (c[0] == "call" and "repeat" in c[1]):
            return False
        return self._Tdist(c) == self.canon(self.S(v))

    def run(self):
        changed = True
        rounds = 0
        done = set()
        while changed and rounds < 12:
            changed = False
            rounds += 1
            for k, (path, a, v, st) in enumerate(self.assigns):
                if k in done:
                    continue
                if a in self.assumed_symmetric:
                    done.add(k)
                    continue
                if not any(isinstance(x, ast.Name) for x in ast.walk(v)):
                    continue            # constants: decided at the end
                if self._is_shift(a, v):
                    done.add(k)         # `y = y + lag`: the documented shift of one input
                    self.shifts.append((a, st.lineno))
                    continue
                if a not in self.sw and self._anti_def(v):
                    self.anti.add(a)
                    self.sw[a] = a
                    done.add(k)
                    changed = True
                    continue
                if a not in self.sw and self._symT_def(v):
                    self.sw[a] = a
                    self.matrix_locals = set(self.matrix_locals) | {a}
                    self.symT.add(a)
                    done.add(k)
                    changed = True
                    continue
                if a in self.anti:
                    if not self._anti_def(v):
                        self.findings.append((a, st.lineno,
                                              f"`{a}` is redefined by an expression that is "
                                              f"not exchanged to its negative transpose"))
                    done.add(k)
                    continue
                extra = self.extra_for(path)
                target = self.canon(self.S(v, extra))
                pk = self.path_key(path, swap=True)
                if a in self.sw:
                    b = self.sw[a]
                    ok = any(n2 == b and self.path_key(p2) == pk and self.canon(v2) == target
                             for (p2, n2, v2, s2) in self.assigns)
                    if ok:
                        done.add(k)
                        self.pairs.append((a, b, st.lineno))
                        changed = True
                    continue
                if target == self.canon(v) and pk == self.path_key(path):
                    self.sw[a] = a
                    done.add(k)
                    changed = True
                    continue
                cands = [n2 for (p2, n2, v2, s2) in self.assigns
                         if n2 != a and self.path_key(p2) == pk and self.canon(v2) == target]
                # an accumulator `a = a op v`: its image mentions the (unknown)
                # partner; try every other accumulator of the swapped loop
                if not cands and any(isinstance(x, ast.Name) and x.id == a
                                     for x in ast.walk(v)):
                    for (p2, n2, v2, s2) in self.assigns:
                        if n2 != a and n2 not in self.sw and self.path_key(p2) == pk:
                            trial = dict(extra)
                            trial[a] = n2
                            if self.canon(self.S(v, trial)) == self.canon(v2):
                                cands.append(n2)
                if cands:
                    b = cands[0]
                    if b in self.sw and self.sw[b] != a:
                        continue
                    self.sw[a], self.sw[b] = b, a
                    if self._matrixish(v) and (self._matrix_valued(v) or
                                               self._axis_reduction(v)):
                        # pair matrices, and vectors obtained by reducing one of
                        # their axes (their broadcasting subscripts swap as well)
                        self.matrix_locals = set(self.matrix_locals) | {a, b}
                    done.add(k)
                    self.pairs.append((a, b, st.lineno))
                    changed = True
        # constants
        for k, (path, a, v, st) in enumerate(self.assigns):
            if k in done or any(isinstance(x, ast.Name) for x in ast.walk(v)):
                continue
            b = self.sw.get(a, a)
            pk = self.path_key(path, swap=True)
            if b == a or any(n2 == b and self.path_key(p2) == pk and
                             self.canon(v2) == self.canon(v)
                             for (p2, n2, v2, s2) in self.assigns):
                self.sw.setdefault(a, a)
                done.add(k)
        # whatever is left is not exchange consistent
        role_names = {n for n in self.sw if self.sw[n] != n} | self.anti
        for k, (path, a, v, st) in enumerate(self.assigns):
            if k in done:
                continue
            used = {x.id for x in ast.walk(v) if isinstance(x, ast.Name)}
            if a in self.sw and self.sw[a] != a:
                self.findings.append((a, st.lineno,
                                      f"`{a} = {ast.unparse(v)[:70]}` is not the role-swapped "
                                      f"image of any definition of its partner "
                                      f"`{self.sw[a]}` in the same branch"))
            elif used & role_names:
                self.findings.append((a, st.lineno,
                                      f"`{a} = {ast.unparse(v)[:70]}` depends on the two "
                                      f"sequences but has no exchange partner (no statement "
                                      f"of this branch is its image under swapping the roles "
                                      f"of the two sequences)"))
        # names whose value is not derivable here: unpacked from a container that
        # was filled elsewhere (`cxy, cyx = counts` after a loop that appends)
        opaque = set()
        for st_ in ast.walk(self.fn):
            if isinstance(st_, ast.Assign) and len(st_.targets) == 1 and \
                    isinstance(st_.targets[0], (ast.Tuple, ast.List)) and not (
                        isinstance(st_.value, (ast.Tuple, ast.List)) and
                        len(st_.value.elts) == len(st_.targets[0].elts)) and \
                    isinstance(st_.value, ast.Name):
                opaque |= {x.id for x in st_.targets[0].elts if isinstance(x, ast.Name)}
        for path, r in self.returns:
            if isinstance(r.value, ast.Tuple) and len(r.value.elts) == 2:
                a, b = r.value.elts
                if opaque & {x.id for x in ast.walk(r.value) if isinstance(x, ast.Name)}:
                    self.undecided = getattr(self, "undecided", []) + [
                        f"returned pair ({ast.unparse(a)[:40]}, {ast.unparse(b)[:40]}) "
                        f"is unpacked from a container filled in a loop"]
                    continue
                if self.canon(self.S(a)) != self.canon(b):
                    self.findings.append(("return", r.lineno,
                                          f"returned pair ({ast.unparse(a)[:50]}, "
                                          f"{ast.unparse(b)[:50]}) is not exchanged by "
                                          f"swapping the two sequences"))
        return self

    def _is_shift(self, a, v) -> bool:
        """`a = a + p` / `a = a - p` with p a parameter of the function."""
        params = {x.arg for x in self.fn.args.args + self.fn.args.kwonlyargs}
        return isinstance(v, ast.BinOp) and isinstance(v.op, (ast.Add, ast.Sub)) and \
            isinstance(v.left, ast.Name) and v.left.id == a and \
            isinstance(v.right, ast.Name) and v.right.id in params

    def _axis_reduction(self, v) -> bool:
        """np.any / np.sum / ... of a pair matrix along one axis."""
        return isinstance(v, ast.Call) and any(k.arg == "axis" for k in v.keywords) \
            and self._matrixish(v)

    def _matrix_valued(self, v) -> bool:
        """The value is itself a pair matrix (not reduced by any/sum/count)."""
        for n in ast.walk(v):
            if isinstance(n, ast.Call) and ast.unparse(n.func) in (
                    "np.any", "np.sum", "np.count_nonzero", "np.all", "len", "np.mean"):
                return False
        return True
