"""Property id -> check function."""
from __future__ import annotations

from .report import Run
from . import pymodel

_PROG = {}


def program(run: Run) -> pymodel.Program:
    if run.repo not in _PROG:
        _PROG[run.repo] = pymodel.Program(run.repo)
    return _PROG[run.repo]


_CY = {}

CY_MODULES = ["pyunicorn.%s._ext.numerics" % s
              for s in ("core", "climate", "funcnet", "timeseries")]


def cyprogram(run: Run):
    from . import cymodel
    if run.repo not in _CY:
        prog = program(run)
        mods = sorted(prog.ext_modules)
        if sorted(mods) != sorted(CY_MODULES):
            from .report import AnalysisError
            raise AnalysisError(f"compiled modules changed: {mods}")
        _CY[run.repo] = cymodel.CyProgram(run.repo, mods)
    return _CY[run.repo]


def c19(run: Run):
    from . import rules_c19
    rules_c19.check(run, program(run), cyprogram(run))


_SITES = {}


def sites(run: Run):
    from . import kernels
    if run.repo not in _SITES:
        _SITES[run.repo] = kernels.boundary_table(program(run), cyprogram(run))
    # one repo-wide floor guards the front end (import / callee resolution); the
    # per-property counts only need to be non-vacuous, so that dropping one
    # kernel call in a refactoring is not mistaken for a broken analysis
    run.floor("kernel call sites resolved repo-wide", len(_SITES[run.repo]), 40, hard=True)
    return _SITES[run.repo]


def c03(run: Run):
    from . import rules_c03
    rules_c03.check(run, program(run), cyprogram(run), sites(run))


def c08(run: Run):
    from . import rules_c08
    rules_c08.check(run, program(run), cyprogram(run), sites(run))


def c09(run: Run):
    from . import rules_c09
    rules_c09.check(run, program(run))


def c10(run: Run):
    from . import rules_c10
    rules_c10.check(run, program(run), cyprogram(run), sites(run))


def c12(run: Run):
    from . import rules_c12
    rules_c12.check(run, program(run), cyprogram(run), sites(run))


def c14(run: Run):
    from . import rules_c14
    rules_c14.check(run, program(run), cyprogram(run), sites(run))


def c15(run: Run):
    from . import rules_c15
    rules_c15.check(run, program(run), cyprogram(run), sites(run))


def c13(run: Run):
    from . import rules_c13
    rules_c13.check(run, program(run))


def c17(run: Run):
    from . import rules_c17
    rules_c17.check(run, program(run), cyprogram(run), sites(run))


def c18(run: Run):
    from . import rules_c18
    rules_c18.check(run, program(run), cyprogram(run), sites(run))


def c20(run: Run):
    from . import rules_c20
    rules_c20.check(run, program(run), cyprogram(run), sites(run))


def c16(run: Run):
    from . import rules_c16
    rules_c16.check(run, program(run))


def c11(run: Run):
    from . import rules_c11
    rules_c11.check(run, program(run), cyprogram(run), sites(run))


def c07(run: Run):
    from . import rules_c07
    rules_c07.check(run, program(run), cyprogram(run), sites(run))


def c05(run: Run):
    from . import rules_c05
    rules_c05.check(run, program(run))


def c06(run: Run):
    from . import rules_c06
    rules_c06.check(run, program(run))


def c01(run: Run):
    from . import rules_c01
    rules_c01.check(run, program(run))


CHECKS = {
    "C01": c01,
    "C03": c03,
    "C05": c05,
    "C06": c06,
    "C07": c07,
    "C08": c08,
    "C09": c09,
    "C10": c10,
    "C11": c11,
    "C12": c12,
    "C13": c13,
    "C14": c14,
    "C15": c15,
    "C16": c16,
    "C17": c17,
    "C18": c18,
    "C19": c19,
    "C20": c20,
}
