"""Property id -> check function."""
from __future__ import annotations

from .report import Run
from . import pymodel

_PROG = {}


def program(run: Run) -> pymodel.Program:
    if run.repo not in _PROG:
        _PROG[run.repo] = pymodel.Program(run.repo)
    return _PROG[run.repo]


def c01(run: Run):
    from . import rules_c01
    rules_c01.check(run, program(run))


CHECKS = {
    "C01": c01,
}
