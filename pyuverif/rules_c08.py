"""C08 - RQA line statistics: dispatch clause L1..L5."""
from __future__ import annotations

import ast

from .pymodel import Program, iter_events
from .cymodel import CyProgram, X, pp, walk
from .kernels import report_sites
from .report import Run, AnalysisError

TS = "pyunicorn.timeseries._ext.numerics"
HIST = ("diagline_dist", "vertline_dist", "white_vertline_dist")


def _wrappers(cy: CyProgram):
    m = cy.modules[TS]
    core = m.funcs.get("_line_dist")
    if core is None:
        raise AnalysisError("_line_dist vanished")
    # canonical role of every _line_dist parameter, from its declared type (and
    # order among parameters of the same type) - not from its name
    ROLE = {("int", 0): "n_time", ("int", 1): "dim", ("real", 0): "eps",
            ("bint", 0): "black", ("bint", 1): "missing_values", ("bint", 2): "skip_main",
            ("NODE_t1", 0): "hist", ("LAG_t2", 0): "R", ("DFIELD_t2", 0): "E",
            ("MASK_t1", 0): "M", ("metric_type", 0): "metric",
            ("line_type_i2J", 0): "i2J", ("line_type_ij2I", 0): "ij2I"}
    seen = {}
    pnames = []
    for a, t in core.args:
        k = t.name + (str(t.ndim) if t.kind in ("buffer", "memview") else "")
        if k in ("float", "double", "FIELD_t", "DFIELD_t"):
            k = "real"          # the threshold, at whatever precision
        i = seen.get(k, 0)
        seen[k] = i + 1
        # a parameter without a known role (the line type spelled as an enum
        # instead of two index functions, say) is carried under its own name:
        # the facets that need the missing roles are then not decided
        pnames.append(ROLE.get((k, i), f"?{a}"))
    out = {}
    for f in m.funcs.values():
        if f is core or f.kind != "def":
            continue
        env = {a: ("param", a) for a, _ in f.args}
        calls = _resolve_core_calls(m, f, env, pnames, 0)
        if not calls:
            continue
        if len(calls) != 1:
            raise AnalysisError(f"{f.where}: {f.name} reaches _line_dist {len(calls)} "
                                f"times (expected one call per wrapper)")
        out[f.name] = (f, calls[0])
    return core, out


def _resolve_core_calls(m, f, env, pnames, depth):
    """Calls of _line_dist reached from f, with every argument described by a
    *fact*: ('param', wrapper parameter) | ('null',) empty placeholder array |
    ('const', text) | ('name', module-level name) | ('expr', text).  cdef helpers
    of the module are inlined; `if <flag>:` on a constant flag selects a branch."""
    results = []
    nulls = {n for n, (t, init, _) in f.locals.items() if _is_empty_array(init)}

    def fact(x):
        if x.k == "name":
            nm = x.a[0]
            if nm in env:
                return env[nm]
            if nm in nulls:
                return ("null",)
            return ("name", nm)
        if x.k in ("num", "bool"):
            return ("const", pp(x))
        if x.k == "call" and x.a[0].k == "name" and x.a[0].a[0] in m.funcs and not x.a[1]:
            h = m.funcs[x.a[0].a[0]]
            rets = [r for r in walk(h.body) if isinstance(r, X) and r.k == "return"
                    and r.a[0] is not None]
            if rets and all(_is_empty_array(r.a[0]) for r in rets):
                return ("null",)
        if _is_empty_array(x):
            return ("null",)
        return ("expr", pp(x))

    def truth(cond):
        neg = False
        while cond.k == "not":
            neg, cond = not neg, cond.a[0]
        c = fact(cond)
        if c in (("const", "True"), ("const", "1")):
            return not neg
        if c in (("const", "False"), ("const", "0")):
            return neg
        return None

    def go(stmts):
        for st in stmts:
            if st.k == "if":
                decided = False
                for cond, b in st.a[0]:
                    tv = truth(cond)
                    if tv is True:
                        go(b)
                        decided = True
                        break
                    if tv is None:
                        go(b)
                if not decided:
                    go(st.a[1])
            elif st.k in ("for", "while"):
                go(st.a[2] if st.k == "for" else st.a[1])
            elif st.k == "expr" and st.a[0].k == "call":
                c = st.a[0]
                fn = pp(c.a[0])
                if fn == "_line_dist":
                    if len(c.a[1]) != len(pnames):
                        raise AnalysisError(f"{f.where}: _line_dist called with "
                                            f"{len(c.a[1])} arguments in {f.name}")
                    results.append({r: fact(a) for r, a in zip(pnames, c.a[1])})
                elif fn in m.funcs and depth < 3 and m.funcs[fn] is not f:
                    h = m.funcs[fn]
                    env2 = {p: fact(a) for (p, _), a in zip(h.args, c.a[1])}
                    results.extend(_resolve_core_calls(m, h, env2, pnames, depth + 1))
    go(f.body)
    return results


def _is_empty_array(init) -> bool:
    """np.array([]) / np.array([[]]) (an empty placeholder buffer)"""
    if init is None or init.k != "call" or pp(init.a[0]) != "np.array" or not init.a[1]:
        return False

    def empty(x):
        return x.k in ("list", "tuple") and all(empty(y) for y in x.a[0])
    return empty(init.a[1][0])


def _features(name: str):
    return {"line": "diag" if "diagline" in name else "vert",
            "white": "white" in name,
            "sequential": "sequential" in name,
            "mv": "missingvalues" in name}


def l1(run: Run, prog: Program, cy: CyProgram):
    core, wr = _wrappers(cy)
    run.floor("line-dist wrappers", len(wr), 9)
    for name, (f, a) in sorted(wr.items()):
        ft = _features(name)
        exp = {}
        exp["i2J"] = ("name", f"i2J_{ft['line']}line")
        exp["ij2I"] = ("name", f"ij2I_{ft['line']}line")
        exp["skip_main"] = ("const", "True" if ft["line"] == "diag" else "False")
        exp["black"] = ("const", "False" if ft["white"] else "True")
        exp["missing_values"] = ("const", "True" if ft["mv"] else "False")
        undecided = sorted(k for k in exp if k not in a)
        if undecided:
            run.unknowns.append(f"L1: {name}: _line_dist has no parameter in the role(s) "
                                f"{undecided}; that part of the dispatch is not decided")
        exp = {k: v for k, v in exp.items() if k in a}
        needed = ("E", "R", "eps", "dim", "metric", "M", "n_time", "hist")
        if any(k not in a for k in needed):
            run.unknowns.append(f"L1: {name}: storage roles "
                                f"{[k for k in needed if k not in a]} not found in the "
                                f"signature of _line_dist; wrapper not decided")
            continue

        def show(v):
            return v[1] if len(v) > 1 else "<empty array>"
        got = {k: show(v) for k, v in a.items()}
        bad = [(k, got[k], v[1]) for k, v in exp.items() if a[k] != v]
        is_param = lambda r: a[r][0] == "param"        # noqa: E731
        is_null = lambda r: a[r] == ("null",)          # noqa: E731
        # storage mode
        if ft["sequential"]:
            if not (is_param("E") and is_null("R") and is_param("eps")
                    and is_param("dim") and a["metric"] == ("name", "metric_supremum")):
                bad.append(("storage", f"R={got['R']},E={got['E']},eps={got['eps']},"
                            f"dim={got['dim']},metric={got['metric']}",
                            "sequential: null R, E/eps/dim parameters, metric_supremum"))
        else:
            if not (is_param("R") and is_null("E") and a["eps"] in (("const", "0"),
                                                                   ("const", "0.0"))
                    and a["dim"] == ("const", "0")
                    and a["metric"] == ("name", "metric_null")):
                bad.append(("storage", f"R={got['R']},E={got['E']},eps={got['eps']},"
                            f"dim={got['dim']},metric={got['metric']}",
                            "matrix: R parameter, null E, eps=0, dim=0, metric_null"))
        if ft["mv"]:
            if not is_param("M"):
                bad.append(("M", got["M"], "the wrapper's mask parameter"))
        else:
            if not is_null("M"):
                bad.append(("M", got["M"], "an empty mask"))
        if not is_param("n_time") or not is_param("hist"):
            bad.append(("n_time/hist", f"{got['n_time']},{got['hist']}", "parameters"))
        run.oblige("L1", name, not bad, sample={
            "where": f.where, "features": ft, "args": got})
        for (k, g, w) in bad:
            run.add("L1", f"{name}/{k}", f.where,
                    f"wrapper {name} ({'sequential' if ft['sequential'] else 'matrix'} "
                    f"mode, {ft['line']} lines{', white' if ft['white'] else ''}"
                    f"{', missing values' if ft['mv'] else ''}) passes `{k}={g}` to "
                    f"_line_dist, expected {w}: it no longer computes the same "
                    f"histogram as its siblings in the wrapper table")
    # the four index helpers must exist (when the line type is given by them)
    roles = {t_.name for _, t_ in core.args}
    if {"line_type_i2J", "line_type_ij2I"} & roles:
        for h in ("i2J_vertline", "i2J_diagline", "ij2I_vertline", "ij2I_diagline"):
            if h not in cy.modules[TS].funcs:
                raise AnalysisError(f"line type helper {h} vanished")
    return wr


def _call_conditions(fnode):
    """[(call node, [(cond src, polarity)])] for kernel calls in an if-tree."""
    out = []

    def go(stmts, conds):
        for st in stmts:
            if isinstance(st, ast.If):
                c = ast.unparse(st.test)
                go(st.body, conds + [(c, True)])
                go(st.orelse, conds + [(c, False)])
            else:
                for n in ast.walk(st):
                    if isinstance(n, ast.Call) and isinstance(n.func, ast.Name) and \
                            "line_dist" in n.func.id:
                        out.append((n, list(conds)))
    go(fnode.body, [])
    return out


def _table_entry(C, name):
    """Value expression of the class-level (any class of the MRO) or
    module-level single assignment `name = <expr>`."""
    scopes = [c.node.body for c in C.mro] + [C.module.tree.body]
    for body in scopes:
        hits = [st for st in body if isinstance(st, (ast.Assign, ast.AnnAssign))
                and any(isinstance(t, ast.Name) and t.id == name for t in
                        (st.targets if isinstance(st, ast.Assign) else [st.target]))]
        if len(hits) == 1 and hits[0].value is not None:
            return hits[0].value
        if hits:
            return None
    return None


def _record_fields(C, ctor):
    """Field names of a namedtuple type bound at module level."""
    if not isinstance(ctor, ast.Name):
        return None
    v = _table_entry(C, ctor.id)
    if isinstance(v, ast.Call) and ast.unparse(v.func).split(".")[-1] == "namedtuple" \
            and len(v.args) >= 2:
        spec = v.args[1]
        if isinstance(spec, (ast.List, ast.Tuple)) and all(
                isinstance(e, ast.Constant) and isinstance(e.value, str)
                for e in spec.elts):
            return [e.value for e in spec.elts]
        if isinstance(spec, ast.Constant) and isinstance(spec.value, str):
            return spec.value.replace(",", " ").split()
    return None


def _select(C, value, key):
    """Member `key` (field name, string key or position) of a static record:
    dict literal, tuple, namedtuple construction; None when not static."""
    if isinstance(value, ast.Dict):
        for k, v in zip(value.keys, value.values):
            if isinstance(k, ast.Constant) and k.value == key:
                return v
        return None
    if isinstance(value, (ast.Tuple, ast.List)) and isinstance(key, int) and \
            not isinstance(key, bool) and -len(value.elts) <= key < len(value.elts):
        return value.elts[key]
    if isinstance(value, ast.Call):
        if ast.unparse(value.func) == "dict" and not value.args:
            for k in value.keywords:
                if k.arg == key:
                    return k.value
            return None
        fields = _record_fields(C, value.func)
        if fields is None:
            return None
        if isinstance(key, int) and not isinstance(key, bool):
            key = fields[key] if -len(fields) <= key < len(fields) else None
        if key not in fields:
            return None
        for k in value.keywords:
            if k.arg == key:
                return k.value
        i = fields.index(key)
        if i < len(value.args) and not any(isinstance(a, ast.Starred)
                                           for a in value.args):
            return value.args[i]
    return None


def _follow_tables(C, fnode, sn):
    """Copy of a function in which calls through a statically known dispatch
    table - `T[k].slot(...)`, `row = self.T[k]; row.slot(...)`, `row[i](...)` -
    are replaced by calls of the function the slot names.  Slots that cannot
    be resolved are left alone (the caller then finds no kernel call there)."""
    import copy
    from .idioms import single_defs
    node = copy.deepcopy(fnode)
    defs = single_defs(node)

    def static(e, depth=0):
        """expression -> static table value expression"""
        if depth > 6:
            return None
        if isinstance(e, ast.Name):
            if e.id in defs and isinstance(defs[e.id], ast.AST):
                return static(defs[e.id], depth + 1)
            return _table_entry(C, e.id)
        if isinstance(e, ast.Attribute) and isinstance(e.value, ast.Name) and \
                e.value.id in (sn, "cls", C.name, "type(%s)" % sn):
            v = _table_entry(C, e.attr)
            return v
        if isinstance(e, ast.Attribute):
            base = static(e.value, depth + 1)
            return _select(C, base, e.attr) if base is not None else None
        if isinstance(e, ast.Subscript) and isinstance(e.slice, ast.Constant):
            base = static(e.value, depth + 1)
            return _select(C, base, e.slice.value) if base is not None else None
        if isinstance(e, (ast.Dict, ast.Tuple, ast.List, ast.Call)):
            return e
        return None
    n_res = 0
    for c in ast.walk(node):
        if isinstance(c, ast.Call) and isinstance(c.func, (ast.Attribute, ast.Subscript)):
            if isinstance(c.func, ast.Attribute) and isinstance(c.func.value, ast.Name) \
                    and c.func.value.id == sn:
                continue
            try:
                tgt = static(c.func)
            except Exception:    # noqa: unreadable table: no resolution
                tgt = None
            if isinstance(tgt, ast.Name):
                c.func = ast.copy_location(ast.Name(id=tgt.id, ctx=ast.Load()), c.func)
                n_res += 1
    return node, n_res


def _dispatch_body(prog, C, f):
    """The function whose if-tree chooses the kernel of histogram method f:
    f itself, or - when f hands the choice to a private helper of its class -
    that helper under the constant arguments of the call, with table slots
    resolved."""
    from .rules_c15 import _specialise
    sn = f.params[0]
    node, _ = _follow_tables(C, f.node, sn)
    if _call_conditions(node):
        return node, sn, None
    for c in ast.walk(f.node):
        if not (isinstance(c, ast.Call) and isinstance(c.func, ast.Attribute) and
                isinstance(c.func.value, ast.Name) and c.func.value.id == sn):
            continue
        h = prog.lookup(C, c.func.attr)
        if h is None or h.kind != "method" or h is f or h.cached:
            continue
        try:
            sp = _specialise(h.node, c, lambda a: isinstance(a, ast.Constant))
        except Exception:        # noqa
            sp = None
        if sp is None:
            continue
        hn, _ = _follow_tables(C, sp[0], h.params[0])
        if _call_conditions(hn):
            return hn, h.params[0], h
    return node, sn, None


def _unroll_static_loops(C, fnode, sn):
    """Copy of a function in which `for <targets> in <static table>[.items() /
    .values() / .keys()]` over a class- or module-level dict / tuple literal is
    replaced by one copy of the body per row with the targets substituted;
    within each copy `x = getattr(self, "name")` aliases and local dict
    literals looked up with constant keys are folded."""
    import copy
    from .idioms import _subst_names, fold_constants

    def table(e):
        how = None
        if isinstance(e, ast.Call) and isinstance(e.func, ast.Attribute) and \
                e.func.attr in ("items", "values", "keys") and not e.args:
            how, e = e.func.attr, e.func.value
        v = None
        if isinstance(e, ast.Attribute) and isinstance(e.value, ast.Name) and \
                e.value.id in (sn, "cls", C.name):
            v = _table_entry(C, e.attr)
        elif isinstance(e, ast.Name):
            v = _table_entry(C, e.id)
        elif isinstance(e, (ast.Tuple, ast.List, ast.Dict)):
            v = e
        if isinstance(v, ast.Dict) and all(k is not None for k in v.keys):
            how = how or "keys"
            rows = {"items": [ast.Tuple(elts=[k, x], ctx=ast.Load())
                              for k, x in zip(v.keys, v.values)],
                    "values": list(v.values), "keys": list(v.keys)}[how]
            return rows
        if isinstance(v, (ast.Tuple, ast.List)) and how is None:
            return list(v.elts)
        return None

    def bind(target, row, out):
        if isinstance(target, ast.Name):
            out[target.id] = row
            return True
        if isinstance(target, (ast.Tuple, ast.List)) and \
                isinstance(row, (ast.Tuple, ast.List)) and \
                len(target.elts) == len(row.elts):
            return all(bind(t, r, out) for t, r in zip(target.elts, row.elts))
        return False

    def fold_copy(stmts):
        """sequential folding of aliases inside one unrolled copy"""
        env = {}

        class F(ast.NodeTransformer):
            def visit_Call(self, n):
                self.generic_visit(n)
                if isinstance(n.func, ast.Name) and n.func.id == "getattr" and \
                        len(n.args) == 2 and isinstance(n.args[1], ast.Constant) and \
                        isinstance(n.args[1].value, str):
                    return ast.copy_location(ast.Attribute(
                        value=n.args[0], attr=n.args[1].value, ctx=ast.Load()), n)
                if isinstance(n.func, ast.Attribute) and n.func.attr == "get" and \
                        1 <= len(n.args) <= 2 and isinstance(n.args[0], ast.Constant):
                    d = n.func.value
                    if isinstance(d, ast.Name) and isinstance(env.get(d.id), ast.Dict):
                        d = env[d.id]
                    if isinstance(d, ast.Dict) and all(
                            isinstance(k, ast.Constant) for k in d.keys):
                        for k, v in zip(d.keys, d.values):
                            if k.value == n.args[0].value:
                                return v
                        return n.args[1] if len(n.args) == 2 else \
                            ast.copy_location(ast.Constant(None), n)
                if isinstance(n.func, ast.Name) and isinstance(
                        env.get(n.func.id), ast.Attribute):
                    n.func = copy.deepcopy(env[n.func.id])
                return n

            def visit_Subscript(self, n):
                self.generic_visit(n)
                d = n.value
                if isinstance(d, ast.Name) and isinstance(env.get(d.id), ast.Dict):
                    d = env[d.id]
                if isinstance(d, ast.Dict) and isinstance(n.slice, ast.Constant) and \
                        isinstance(n.ctx, ast.Load) and all(
                        isinstance(k, ast.Constant) for k in d.keys):
                    for k, v in zip(d.keys, d.values):
                        if k.value == n.slice.value:
                            return v
                return n
        out = []
        for st in stmts:
            st = F().visit(st)
            if isinstance(st, ast.Assign) and len(st.targets) == 1 and \
                    isinstance(st.targets[0], ast.Name):
                if isinstance(st.value, (ast.Dict, ast.Attribute)):
                    env[st.targets[0].id] = st.value
                else:
                    env.pop(st.targets[0].id, None)
            out.append(st)
        return out, env

    node = copy.deepcopy(fnode)
    outer_env = {}
    for st in node.body:
        if isinstance(st, ast.Assign) and len(st.targets) == 1 and \
                isinstance(st.targets[0], ast.Name) and isinstance(st.value, ast.Dict):
            outer_env[st.targets[0].id] = st.value
    stores = {}
    for n in ast.walk(node):
        if isinstance(n, ast.Name) and isinstance(n.ctx, ast.Store):
            stores[n.id] = stores.get(n.id, 0) + 1
    outer_env = {k: v for k, v in outer_env.items() if stores.get(k) == 1}
    n_unrolled = 0

    def go(stmts):
        nonlocal n_unrolled
        out = []
        for st in stmts:
            if isinstance(st, ast.For) and not st.orelse:
                rows = table(st.iter)
                if rows is not None and not any(
                        isinstance(x, (ast.Break, ast.Continue)) for x in ast.walk(st)):
                    ok = True
                    copies = []
                    for row in rows:
                        m = {}
                        if not bind(st.target, row, m):
                            ok = False
                            break
                        body = [_subst_names(b, m) for b in st.body]
                        # local dict literals of the enclosing function
                        body = [_subst_names(b, {}) for b in body]
                        pre = [ast.Assign(targets=[ast.Name(id=k, ctx=ast.Store())],
                                          value=copy.deepcopy(v))
                               for k, v in outer_env.items()]
                        folded, _ = fold_copy(pre + body)
                        folded = folded[len(pre):]
                        wrap = ast.Module(body=folded, type_ignores=[])
                        wrap = fold_constants(_fold_none_tests(wrap), {})
                        copies.extend(wrap.body)
                    if ok:
                        n_unrolled += 1
                        out.extend(copies)
                        continue
            for fld in ("body", "orelse", "finalbody"):
                if isinstance(getattr(st, fld, None), list) and \
                        not isinstance(st, (ast.FunctionDef, ast.ClassDef)):
                    setattr(st, fld, go(getattr(st, fld)))
            out.append(st)
        return out
    node.body = go(node.body)
    return ast.fix_missing_locations(node), n_unrolled


def _fold_none_tests(node):
    from .rules_c15 import _fold_identity_tests
    return _fold_identity_tests(node)


def l11(run: Run, prog: Program):
    """A method with several length parameters (rqa_summary: l_min, v_min)
    forwards each of them to the measure whose parameter has the same role: it
    never hands its own parameter p to a callee parameter q != p while it has
    a parameter q of its own - also when the calls are driven by a class-level
    table and getattr."""
    from .idioms import bind_call_args
    rp = prog.classes.get("RecurrencePlot")
    if rp is None:
        raise AnalysisError("RecurrencePlot vanished")
    n = 0
    for C in [c for c in prog.classes.values() if rp in c.mro]:
        for name, f in sorted(C.methods.items()):
            if f.kind != "method" or len(f.params) < 3:
                continue
            sn = f.params[0]
            own = set(f.params[1:])
            try:
                node, n_un = _unroll_static_loops(C, f.node, sn)
            except Exception:        # noqa: unreadable loop: judged as written
                node, n_un = f.node, 0
            for c in ast.walk(node):
                if not (isinstance(c, ast.Call) and isinstance(c.func, ast.Attribute)
                        and isinstance(c.func.value, ast.Name) and c.func.value.id == sn):
                    continue
                g = prog.lookup(C, c.func.attr)
                if g is None or g.kind != "method":
                    continue
                b = bind_call_args(g.node, c)
                if b is None:
                    continue
                for q, a in b.items():
                    if q == g.params[0] or not isinstance(a, ast.Name) or a.id not in own:
                        continue
                    n += 1
                    bad = a.id != q and q in own
                    run.oblige("L11", f"{f.qualname}->{g.name}({q}={a.id})", not bad,
                               sample={"where": f"{f.module.relpath}:{c.lineno}",
                                       "unrolled_loops": n_un})
                    if bad:
                        run.add("L11", f"{f.qualname}/{g.name}/{q}<-{a.id}",
                                f"{f.module.relpath}:{getattr(c, 'lineno', f.node.lineno)}",
                                f"{f.qualname} hands its parameter `{a.id}` to "
                                f"{g.qualname}, whose parameter is `{q}`, although it has a "
                                f"parameter `{q}` of its own: the measure is evaluated "
                                f"with the minimal length of the other line type")
    run.floor("L11 forwarded parameters", n, 3)


def l1_python(run: Run, prog: Program, wr):
    rp = prog.classes.get("RecurrencePlot")
    if rp is None:
        raise AnalysisError("RecurrencePlot vanished")
    n = 0
    for mname in HIST:
        f = rp.methods.get(mname)
        if f is None:
            raise AnalysisError(f"RecurrencePlot.{mname} vanished")
        body, sn, via = _dispatch_body(prog, rp, f)
        for call, conds in _call_conditions(body):
            n += 1
            k = call.func.id
            ft = _features(k)
            want_line = "diag" if "diag" in mname else "vert"
            seq = None
            mv = False
            for c, pol in conds:
                cc = c.replace(" ", "")
                if cc == f"not{sn}.sparse_rqa":
                    seq = (not pol)
                elif cc == f"{sn}.sparse_rqa":
                    seq = pol
                elif cc == f"{sn}.missing_values":
                    mv = pol
            if seq is None:
                seq = False
            bad = []
            if ft["line"] != want_line:
                bad.append(f"line type {ft['line']} in {mname}")
            if ft["white"] != ("white" in mname):
                bad.append("colour")
            if mname != "white_vertline_dist":
                if ft["sequential"] != seq:
                    bad.append(f"storage mode (branch is "
                               f"{'sequential' if seq else 'matrix'})")
                if ft["mv"] != mv:
                    bad.append(f"missing-value handling (branch has missing_values="
                               f"{mv})")
            run.oblige("L1", f"{f.qualname}->{k}", not bad, sample={
                "where": f"{f.module.relpath}:{call.lineno}",
                "via": via.qualname if via else None,
                "branch": [f"{'' if p else 'not '}({c})" for c, p in conds]})
            if bad:
                run.add("L1", f"{f.qualname}/{k}", f"{f.module.relpath}:{call.lineno}",
                        f"{f.qualname} {'(through ' + via.qualname + ' and its dispatch table) ' if via else ''}calls {k} on the branch "
                        f"{[('' if p else 'not ') + c for c, p in conds]}: wrong "
                        f"{', '.join(bad)}")
    run.floor("python dispatch sites", n, 9)


def l3(run: Run, prog: Program):
    """The cache key of the cached histograms contains every attribute the
    dispatch branches on."""
    rp = prog.classes["RecurrencePlot"]
    for mname in HIST:
        f = rp.methods[mname]
        if not f.cached:
            continue
        sn = f.params[0]
        flags = set()
        for n in ast.walk(f.node):
            if isinstance(n, ast.If):
                for a in ast.walk(n.test):
                    if isinstance(a, ast.Attribute) and isinstance(a.value, ast.Name) \
                            and a.value.id == sn:
                        flags.add(a.attr)
        missing = sorted(flags - set(f.cache_attrs))
        run.oblige("L3", f.qualname, not missing, sample={
            "where": f.where, "flags": sorted(flags), "attrs": list(f.cache_attrs)})
        for m in missing:
            run.add("L3", f"{f.qualname}/{m}", f.where,
                    f"cached {f.qualname} dispatches on `{m}` but `{m}` is not part of "
                    f"its cache key {list(f.cache_attrs)}")


def l7(run: Run, prog: Program):
    """Sibling agreement of the three histogram methods: each consults the same
    mode flags (storage mode, missing-value handling) before choosing a kernel.
    A histogram that ignores a mode its siblings dispatch on cannot return "the
    same histogram in both storage modes" / "exclude lines touching missing
    samples"."""
    rp = prog.classes["RecurrencePlot"]
    flags = {}
    for mname in HIST:
        f = rp.methods.get(mname)
        if f is None:
            raise AnalysisError(f"RecurrencePlot.{mname} vanished")
        sn = f.params[0]
        fl = set()

        def truth(e):
            # attributes tested for truthiness (mode switches), not compared values
            if isinstance(e, ast.Attribute) and isinstance(e.value, ast.Name) and \
                    e.value.id == sn:
                fl.add(e.attr)
            elif isinstance(e, ast.UnaryOp) and isinstance(e.op, ast.Not):
                truth(e.operand)
            elif isinstance(e, ast.BoolOp):
                for v in e.values:
                    truth(v)
        for n in ast.walk(f.node):
            if isinstance(n, (ast.If, ast.IfExp)):
                truth(n.test)
        flags[mname] = (f, fl)
    # mode flags = those consulted by a majority of the siblings
    allf = sorted({x for _, fl in flags.values() for x in fl})
    mode = [x for x in allf if sum(1 for _, fl in flags.values() if x in fl) * 2
            > len(flags)]
    for mname, (f, fl) in sorted(flags.items()):
        missing = [x for x in mode if x not in fl]
        run.oblige("L7", f"{f.qualname}:modes", not missing, sample={
            "where": f.where, "consults": sorted(fl), "siblings_consult": mode})
        if missing:
            run.add("L7", f"{f.qualname}/missing-dispatch:" + ",".join(missing), f.where,
                    f"{f.qualname} chooses its kernel without consulting "
                    f"{['self.' + x for x in missing]}, which its sibling histograms "
                    f"dispatch on: in those modes it does not compute the histogram "
                    f"its siblings' contract promises (sequential mode: the recurrence "
                    f"matrix it reads does not exist; missing values: lines touching "
                    f"missing samples are counted)")


def l8(run: Run, cy: CyProgram):
    """Index roles in _line_dist: the outer loop variable numbers *lines*
    (columns or diagonals), the inner one positions within a line; the sample
    indices of a cell are (I, j) with I = ij2I(i, j, N).  The mask, the matrix and
    the embedding are indexed by samples, so every subscript of them must be I or
    the inner loop variable - never the line number itself."""
    f = cy.modules[TS].funcs["_line_dist"]
    # a scan factored into a cdef helper is analysed in place
    from .loopir import inline_value_helpers
    fbody = inline_value_helpers(f)
    outer = [s for s in fbody if s.k == "for" and s.a[0].k == "name"]
    if len(outer) != 1:
        raise AnalysisError(f"{f.where}: outer scan loop of _line_dist not found")
    line_var = outer[0].a[0].a[0]
    inner = [s for s in outer[0].a[2] if s.k == "for" and s.a[0].k == "name"]
    if len(inner) != 1:
        raise AnalysisError(f"{f.where}: inner scan loop of _line_dist not found")
    pos_var = inner[0].a[0].a[0]
    fp = {n for n, t in f.args if t.kind == "simple" and t.name == "line_type_ij2I"}
    sample = {pos_var}
    from .cymodel import names_in
    for s in walk(inner[0].a[2]):
        if not (isinstance(s, X) and s.k == "assign"):
            continue
        # the row coordinate of the cell: computed inside the scan from the line
        # number and the position (through the line type's index function, or
        # spelled out as an expression of them)
        via_fp = s.a[1].k == "call" and pp(s.a[1].a[0]) in fp
        derived = bool(names_in(s.a[1]) & {line_var, pos_var}) and not (
            s.a[1].k == "name")
        if via_fp or derived:
            for t in s.a[0]:
                if t.k == "name" and t.a[0] != line_var:
                    sample.add(t.a[0])
    arrays = {n for n, t in f.args if t.kind in ("buffer", "memview")
              and t.name in ("MASK_t", "LAG_t", "DFIELD_t")}
    metric = {n for n, t in f.args if t.kind == "simple" and t.name == "metric_type"}
    n = 0
    for s in walk(fbody):
        idx = None
        if isinstance(s, X) and s.k == "index" and s.a[0].k == "name" and \
                s.a[0].a[0] in arrays:
            idx, what = s.a[1], pp(s)
        elif isinstance(s, X) and s.k == "call" and pp(s.a[0]) in metric:
            idx, what = s.a[1][:2], pp(s)
        if idx is None:
            continue
        n += 1
        bad = [pp(i) for i in idx if not (i.k == "name" and i.a[0] in sample)]
        run.oblige("L8", f"_line_dist:{what}", not bad, sample={
            "where": f"{f.module.relpath}:{s.line}", "sample_indices": sorted(sample)})
        if bad:
            run.add("L8", f"_line_dist/index-role/{pp(s.a[0])}", f"{f.module.relpath}:{s.line}",
                    f"_line_dist indexes `{what}` with {bad}; only the sample indices "
                    f"{sorted(sample)} address samples - `{line_var}` numbers lines "
                    f"(for diagonal lines it is the diagonal, not a sample), so the "
                    f"wrong samples are consulted")
    run.floor("L8 sample subscripts", n, 3)


def l9(run: Run, cy: CyProgram):
    """Both storage modes decide `distance < threshold` at the same precision:
    the matrix mode compares float64 distances with the Python float threshold;
    the sequential mode recomputes the distance inside _line_dist, so neither the
    distance local nor the threshold parameter of _line_dist / its sequential
    wrappers may be narrower than the metric's result."""
    from .precision import narrowing_report, float_widths
    mod = cy.modules[TS]
    W = float_widths(cy.types)
    n = 0
    for f in sorted(mod.funcs.values(), key=lambda f: f.name):
        if f.name != "_line_dist" and not (f.name.endswith(("_sequential",
                                                             "_sequential_missingvalues"))
                                           and "line_dist" in f.name):
            continue
        rep, ncmp = narrowing_report(mod, f, W)
        # wrappers only forward eps: their parameter must be as wide as the core's
        n += 1
        if f.name != "_line_dist":
            core = mod.funcs["_line_dist"]
            cw = max([W.get(t.name, 0) for a, t in core.args if t.kind == "simple"
                      and t.name in W] or [0])
            for a, t in f.args:
                if t.kind == "simple" and t.name in W:
                    ebuf = max([W.get(t2.name, 0) for _, t2 in f.args
                                if t2.kind in ("buffer", "memview")] or [0])
                    if W[t.name] < ebuf:
                        rep.append((a, (W[t.name], "parameter", t.name), ebuf,
                                    "forwarded next to", f.line))
        run.oblige("L9", f"{f.name}:precision", not rep, sample={"where": f.where})
        for (name, (w, kind, tname), wo, how, line) in rep:
            run.add("L9", f"{f.name}/narrow/{kind}", f"{mod.relpath}:{line}",
                    f"{f.name}: the {kind} `{name}` is declared {tname} ({w * 8} bit) but "
                    f"is {how} a {wo * 8}-bit floating value: the sequential mode "
                    f"decides `distance < threshold` in single precision while the "
                    f"matrix mode decides it in double precision, so the two modes "
                    f"return different histograms for thresholds that float32 cannot "
                    f"represent")
    run.floor("L9 kernels", n, 5)


def l4(run: Run, cy: CyProgram):
    """Scan flags of _line_dist are reset unconditionally per outer iteration."""
    f = cy.modules[TS].funcs["_line_dist"]
    outer = [s for s in f.body if s.k == "for"]
    if len(outer) != 1:
        raise AnalysisError(f"{f.where}: outer scan loop of _line_dist not found")
    body = outer[0].a[2]
    flags = [n for n, (t, init, _) in f.locals.items()
             if t.kind == "simple" and t.name == "bint" and n != "line"]
    if not flags:
        # the scan state lives elsewhere (e.g. in a per-subspace helper, where
        # it is a fresh local of every call): nothing carried across iterations
        run.unknowns.append("L4: _line_dist holds no scan flag of its own; carried "
                            "state not decided")
        return
    set_true = set()
    for s in walk(body):
        if isinstance(s, X) and s.k == "assign" and s.a[1].k == "bool" and s.a[1].a[0]:
            for t in s.a[0]:
                if t.k == "name":
                    set_true.add(t.a[0])
    n = 0
    for fl in sorted(set(flags) & set_true):
        n += 1
        reset = any(s.k == "assign" and any(t.k == "name" and t.a[0] == fl for t in s.a[0])
                    and s.a[1].k == "bool" and not s.a[1].a[0] for s in body)
        run.oblige("L4", f"_line_dist:{fl}", reset, sample={"where": f.where})
        if not reset:
            run.add("L4", f"_line_dist/{fl}", f.where,
                    f"_line_dist: scan flag `{fl}` is raised inside the inner loop but "
                    f"not reset unconditionally at the end of each row/diagonal: it "
                    f"leaks into the next row and lines there are dropped")
    run.floor("L4 scan flags", n, 1)


def l5(run: Run, prog: Program):
    """RQA measures are functions of the histograms only."""
    rp = prog.classes["RecurrencePlot"]
    forbidden_cells = {"R", "_R", "JR", "CR", "_embedding", "time_series"}
    n = 0
    for name, f in sorted(rp.methods.items()):
        if f.kind != "method" or f.cached or name in HIST or name.startswith("_"):
            continue
        if name in ("recurrence_rate", "rqa_summary") or name.startswith("resample_"):
            continue
        calls_hist = any(isinstance(c, ast.Call) and isinstance(c.func, ast.Attribute)
                         and c.func.attr in HIST for c in ast.walk(f.node))
        if "resampled_dist" not in f.params and not calls_hist:
            continue
        n += 1
        t = prog.tree(f, rp, {})
        bad = []

        def go(node):
            k = node[0]
            if k == "ev":
                e = node[1]
                if e.kind == "read" and e.cell in forbidden_cells:
                    bad.append(e)
            elif k in ("seq", "alt"):
                for c in node[1]:
                    go(c)
            elif k == "loop":
                go(node[1])
            elif k == "call":
                if node[1].func.name in HIST:
                    return
                go(node[2])
        go(t)
        run.oblige("L5", f.qualname, not bad, sample={"where": f.where})
        for e in bad[:1]:
            run.add("L5", f"{f.qualname}/{e.cell}", e.where,
                    f"{f.qualname} is documented as a function of the line-length "
                    f"histogram but also reads `{e.cell}` (via {e.func.qualname}): with "
                    f"missing-value handling or in sequential mode the two sources "
                    f"disagree")
    run.floor("L5 histogram measures", n, 10)


def check(run: Run, prog: Program, cy: CyProgram, sites):
    run.rule("L1", "the wrappers of _line_dist form a consistent table (line type x "
             "storage mode x missing values x colour) and the Python methods dispatch "
             "to the wrapper matching the branch condition")
    run.rule("L2", "the line-distribution kernels are called with the dtype/rank "
             "their signature demands")
    run.rule("L3", "the cache key of the cached histograms contains every flag the "
             "dispatch branches on")
    run.rule("L4", "per-row scan flags of _line_dist are reset unconditionally")
    run.rule("L8", "_line_dist addresses mask, matrix and embedding only with sample "
             "indices (I = ij2I(i, j, N) and the inner loop variable)")
    run.rule("L9", "the sequential mode compares distances and threshold at the "
             "precision of the matrix mode (no float32 narrowing in _line_dist and "
             "its sequential wrappers)")
    run.rule("L7", "the three histogram methods consult the same mode flags (storage "
             "mode, missing-value handling) before choosing a kernel")
    run.rule("L11", "summary methods forward each minimal length to the measure "
             "parameter of the same role (l_min / v_min / w_min not crossed), also "
             "through table-driven getattr loops")
    run.rule("L5", "derived RQA measures read the histograms only")
    run.explanation = (
        "Structural necessary conditions of C08: storage-mode / missing-value / "
        "colour wrappers pass consistent line-type arguments and the Python side "
        "selects the matching wrapper; cache keys cover the dispatch flags; scan "
        "state is reset per row; derived measures depend on the histograms only. "
        "The run-length algorithm itself is NOT verified.")
    wr = l1(run, prog, cy)
    l1_python(run, prog, wr)
    n = report_sites(run, "L2", sites, lambda s: "line_dist" in s.kernel.name)
    run.floor("L2 call sites", n, 1)
    l3(run, prog)
    l4(run, cy)
    l7(run, prog)
    l8(run, cy)
    l9(run, cy)
    l5(run, prog)
    l11(run, prog)
    from .rules_c06 import p1_restricted
    run.rule("L6", "the memoised histograms are never edited in place")
    p1_restricted(run, "L6", prog,
                  lambda o: o.startswith("cached:RecurrencePlot.") and "line_dist" in o,
                  "memoised line-length histogram", floor=1)
