"""C15 - surrogates: clauses U1..U3."""
from __future__ import annotations

from .pymodel import Program
from .cymodel import CyProgram, X, pp, walk
from .kernels import report_sites, local_buffer_decls
from .loopir import stale_work_arrays
from .report import Run, AnalysisError

TS = "pyunicorn.timeseries._ext.numerics"
U2_KERNELS = ("_twins_s", "_twins_r", "_twin_surrogates_s", "_twin_surrogates_r",
              "_embed_time_series_array", "_recurrence_plot", "_embed_time_series")


def u3(run: Run, cy: CyProgram):
    """_twins_s processes the N series one after the other with shared work
    buffers: each buffer is fully re-initialised per series."""
    f = cy.func(TS, "_twins_s")
    if f is None:
        raise AnalysisError("_twins_s vanished")
    # the per-series loop is the single top-level loop over range(<first int
    # parameter>); the read-only input is the 3-D buffer
    ints = [n for n, t in f.args if t.kind == "simple" and t.name == "int"]
    nser = ints[0] if ints else "N"
    outer = [s for s in f.body if s.k == "for"
             and pp(s.a[1]).replace(" ", "") == f"range({nser})"]
    if len(outer) != 1:
        raise AnalysisError(f"{f.where}: per-series loop `for i in range({nser})` "
                            f"not found")
    arrays = {n for n, t in f.args if t.kind == "buffer"} | \
        {n for n, (t, _, _) in f.locals.items() if t.kind == "buffer"}
    arrays -= {n for n, t in f.args if t.kind == "buffer" and t.ndim == 3}
    written, problems = stale_work_arrays(outer[0].a[2], arrays)
    def unconditional_stores(a):
        """plain stores `a[<loop variables>] = v` of the per-series loop body that
        are under loops only (no `if`)"""
        out = []

        def go(body, loopvars):
            for st in body:
                if st.k == "for":
                    go(st.a[2], loopvars | {pp(st.a[0])})
                elif st.k == "assign":
                    for t in st.a[0]:
                        if t.k == "index" and pp(t.a[0]) == a and all(
                                pp(i_) in loopvars for i_ in t.a[1]):
                            out.append(st)
        go(outer[0].a[2], set())
        return out
    for a in sorted(written):
        bad = [st for (x, st) in problems if x == a]
        if bad and unconditional_stores(a):
            # the buffer is (re)written by unconditional stores inside the loop
            # nest, in an order the coverage argument does not follow (fused
            # initialisation and use, peeled diagonal)
            run.unknowns.append(f"U3: _twins_s: `{a}` is written by unconditional stores "
                                f"at {f.module.relpath}:{unconditional_stores(a)[0].line} "
                                f"whose coverage of the buffer is not established")
            run.oblige("U3", f"_twins_s:{a}", True, nontrivial=False)
            continue
        run.oblige("U3", f"_twins_s:{a}", not bad, sample={"where": f.where})
        for st in bad[:1]:
            run.add("U3", f"_twins_s/{a}", f"{f.module.relpath}:{st.line}",
                    f"_twins_s: work buffer `{a}` is used for series i without being "
                    f"fully re-initialised inside the per-series loop: the recurrence "
                    f"structure of earlier series leaks into the twins of later ones")
    run.floor("U3 work buffers", len(written), 2)


def u5(run: Run, cy: CyProgram):
    """The recurrence neighbourhood of the twin machinery is decided at the
    precision of the data: the threshold a distance is compared with must not be
    narrower than the distance (see precision.py)."""
    from .precision import narrowing_report, float_widths
    mod = cy.modules[TS]
    W = float_widths(cy.types)
    n = 0
    for name in U2_KERNELS:
        f = mod.funcs.get(name)
        if f is None:
            continue
        rep, ncmp = narrowing_report(mod, f, W)
        n += 1
        run.oblige("U5", f"{name}:precision", not rep, sample={
            "where": f.where, "floating_names_compared": ncmp})
        for (nm, (w, kind, tname), wo, how, line) in rep:
            run.add("U5", f"{name}/narrow/{kind}", f"{mod.relpath}:{line}",
                    f"{name}: the {kind} `{nm}` is declared {tname} ({w * 8} bit) but is "
                    f"{how} a {wo * 8}-bit floating value: states whose distance "
                    f"differs from the threshold by less than float32 resolution are "
                    f"put on the wrong side, so the recurrence neighbourhoods (and the "
                    f"twins derived from them) are not those of the stated threshold")
    run.floor("U5 kernels", n, 5)


def check(run: Run, prog: Program, cy: CyProgram, sites):
    run.rule("U5", "the twin machinery compares distances with a threshold of at least "
             "the distances' precision")
    run.rule("U1", "the memoised spectrum / twins of a Surrogates object are never "
             "edited in place (repeated generation does not degrade)")
    run.rule("U2", "the twin-surrogate machinery is applicable: kernel boundary "
             "typing and declared vs allocated rank of local buffers")
    run.rule("U3", "per-series work buffers of the twin search are re-initialised "
             "for every series")
    run.explanation = (
        "Clauses of C15 decided structurally. Permutation exactness, spectra and "
        "the twin transition structure are NOT decided.")
    from .rules_c06 import p1_restricted
    p1_restricted(run, "U1", prog, lambda o: o.startswith("cached:Surrogates."),
                  "memoised surrogate spectrum/twins", floor=1)
    n = report_sites(run, "U2", sites, lambda s: s.kernel.name in U2_KERNELS)
    run.floor("U2 call sites", n, 1)
    for (f, name, t, init, verdict, detail) in local_buffer_decls(cy):
        if f.name not in U2_KERNELS:
            continue
        ok = not verdict.startswith("mismatch")
        run.oblige("U2", f"local:{f.name}.{name}", ok, sample=detail)
        if not ok:
            run.add("U2", f"local/{f.name}/{name}", f"{f.module.relpath}:{detail['line']}",
                    f"kernel {f.name} declares `{name}` as {detail['declared']} but "
                    f"allocates it with {detail['init']} ({verdict}): raises on every "
                    f"call")
    u3(run, cy)
    u5(run, cy)
    from .rules_c01 import CacheModel, _k4_cond_recompute
    run.rule("U4", "a conditionally recomputed embedding/twin memo of Surrogates is "
             "refreshed by every writer of the data it derives from")
    _k4_cond_recompute(run, prog, CacheModel(prog), rule="U4",
                       class_pred=lambda C: C.name == "Surrogates")
    run.oblige("U4", "Surrogates:memo-scan", True, nontrivial=False)
