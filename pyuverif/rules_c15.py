"""C15 - surrogates: clauses U1..U3."""
from __future__ import annotations

from .pymodel import Program
from .cymodel import CyProgram, X, pp, walk
from .kernels import report_sites, local_buffer_decls
from .loopir import stale_work_arrays
from .report import Run, AnalysisError

TS = "pyunicorn.timeseries._ext.numerics"
U2_KERNELS = ("_twins_s", "_twins_r", "_twin_surrogates_s", "_twin_surrogates_r",
              "_embed_time_series_array", "_recurrence_plot", "_embed_time_series")


def u3(run: Run, cy: CyProgram):
    """_twins_s processes the N series one after the other with shared work
    buffers: each buffer is fully re-initialised per series."""
    f = cy.func(TS, "_twins_s")
    if f is None:
        raise AnalysisError("_twins_s vanished")
    # the per-series loop is the single top-level loop over range(<first int
    # parameter>); the read-only input is the 3-D buffer
    ints = [n for n, t in f.args if t.kind == "simple" and t.name == "int"]
    nser = ints[0] if ints else "N"
    outer = [s for s in f.body if s.k == "for"
             and pp(s.a[1]).replace(" ", "") == f"range({nser})"]
    if len(outer) != 1:
        raise AnalysisError(f"{f.where}: per-series loop `for i in range({nser})` "
                            f"not found")
    arrays = {n for n, t in f.args if t.kind == "buffer"} | \
        {n for n, (t, _, _) in f.locals.items() if t.kind == "buffer"}
    arrays -= {n for n, t in f.args if t.kind == "buffer" and t.ndim == 3}
    written, problems = stale_work_arrays(outer[0].a[2], arrays)
    def unconditional_stores(a):
        """plain stores `a[<loop variables>] = v` of the per-series loop body that
        are under loops only (no `if`)"""
        out = []

        def go(body, loopvars):
            for st in body:
                if st.k == "for":
                    go(st.a[2], loopvars | {pp(st.a[0])})
                elif st.k == "assign":
                    for t in st.a[0]:
                        if t.k == "index" and pp(t.a[0]) == a and all(
                                pp(i_) in loopvars for i_ in t.a[1]):
                            out.append(st)
        go(outer[0].a[2], set())
        return out
    for a in sorted(written):
        bad = [st for (x, st) in problems if x == a]
        if bad and unconditional_stores(a):
            # the buffer is (re)written by unconditional stores inside the loop
            # nest, in an order the coverage argument does not follow (fused
            # initialisation and use, peeled diagonal)
            run.unknowns.append(f"U3: _twins_s: `{a}` is written by unconditional stores "
                                f"at {f.module.relpath}:{unconditional_stores(a)[0].line} "
                                f"whose coverage of the buffer is not established")
            run.oblige("U3", f"_twins_s:{a}", True, nontrivial=False)
            continue
        run.oblige("U3", f"_twins_s:{a}", not bad, sample={"where": f.where})
        for st in bad[:1]:
            run.add("U3", f"_twins_s/{a}", f"{f.module.relpath}:{st.line}",
                    f"_twins_s: work buffer `{a}` is used for series i without being "
                    f"fully re-initialised inside the per-series loop: the recurrence "
                    f"structure of earlier series leaks into the twins of later ones")
    run.floor("U3 work buffers", len(written), 2)


def u5(run: Run, cy: CyProgram):
    """The recurrence neighbourhood of the twin machinery is decided at the
    precision of the data: the threshold a distance is compared with must not be
    narrower than the distance (see precision.py)."""
    from .precision import narrowing_report, float_widths
    mod = cy.modules[TS]
    W = float_widths(cy.types)
    n = 0
    for name in U2_KERNELS:
        f = mod.funcs.get(name)
        if f is None:
            continue
        rep, ncmp = narrowing_report(mod, f, W)
        n += 1
        run.oblige("U5", f"{name}:precision", not rep, sample={
            "where": f.where, "floating_names_compared": ncmp})
        for (nm, (w, kind, tname), wo, how, line) in rep:
            run.add("U5", f"{name}/narrow/{kind}", f"{mod.relpath}:{line}",
                    f"{name}: the {kind} `{nm}` is declared {tname} ({w * 8} bit) but is "
                    f"{how} a {wo * 8}-bit floating value: states whose distance "
                    f"differs from the threshold by less than float32 resolution are "
                    f"put on the wrong side, so the recurrence neighbourhoods (and the "
                    f"twins derived from them) are not those of the stated threshold")
    run.floor("U5 kernels", n, 5)


def _specialise(h, call, static_arg):
    """Copy of helper definition `h` under the arguments of `call`: parameters
    bound to static arguments (constants, defaults, references to library
    callables) are replaced - by substitution when the helper never rebinds the
    parameter, by a leading assignment otherwise - and tests that became
    constant are folded.  -> (FunctionDef, {parameter: caller expression} for
    the non-static arguments) or None when the binding is not static."""
    import ast
    import copy
    from .idioms import bind_call_args, _subst_names, fold_constants, \
        resolve_default_idiom
    b = bind_call_args(h, call)
    if b is None:
        return None
    stored = {n.id for n in ast.walk(h) if isinstance(n, ast.Name)
              and isinstance(n.ctx, (ast.Store, ast.Del))}
    subst, lead, dynamic = {}, [], {}
    for p_, a_ in b.items():
        if p_ in ("self", "cls"):
            continue
        if not static_arg(a_):
            dynamic[p_] = a_
        elif p_ in stored:
            st = ast.Assign(targets=[ast.Name(id=p_, ctx=ast.Store())],
                            value=copy.deepcopy(a_))
            lead.append(ast.fix_missing_locations(ast.copy_location(st, h.body[0])))
        else:
            subst[p_] = a_
    node = _subst_names(h, subst)
    node.body = lead + node.body
    node = resolve_default_idiom(node)
    node = _fold_identity_tests(node)
    node = fold_constants(node, {})
    return ast.fix_missing_locations(node), dynamic


def _fold_identity_tests(node):
    """`<constant> is None` / `is not None` evaluated."""
    import ast

    class T(ast.NodeTransformer):
        def visit_Compare(self, n):
            self.generic_visit(n)
            if len(n.ops) == 1 and isinstance(n.ops[0], (ast.Is, ast.IsNot)) and \
                    isinstance(n.left, ast.Constant) and \
                    isinstance(n.comparators[0], ast.Constant) and \
                    n.comparators[0].value is None:
                v = n.left.value is None
                if isinstance(n.ops[0], ast.IsNot):
                    v = not v
                return ast.copy_location(ast.Constant(v), n)
            return n
    return T().visit(node)


def u6(run: Run, prog: Program):
    """The input data a Surrogates object holds is edited in place only by the
    methods that declare the edit to the cache (they bump a counter listed in
    some memoised method's `attrs`); every other method - the generators above
    all - leaves it alone, also through helpers called with constant
    arguments (specialised per call site) and library callables handed over
    as arguments."""
    import ast
    import dataclasses
    from .rules_c06 import purity, FuncAnalysis
    run.rule("U6", "only methods that declare a data change to the cache edit the "
             "held input series in place: generators leave `original_data` alone "
             "(repeated generation does not degrade)")
    C = next((c for c in prog.classes.values() if c.name == "Surrogates"), None)
    if C is None:
        raise AnalysisError("U6: class Surrogates not found")
    an = purity(prog)
    methods = prog.all_methods(C)
    counters = set()
    for f in methods.values():
        if f.cached:
            counters |= set(f.cache_attrs or ())
    if not counters:
        run.unknowns.append("U6: no memoised method of Surrogates declares "
                            "dependency counters; writers cannot be told apart")
        return
    init = methods.get("__init__")
    init_fa = an.analysis(init) if init else None
    # cells holding the caller's series: stored from a constructor parameter
    cells = set()
    if init_fa is not None:
        for cell, o in init_fa.stored.items():
            if any(x.startswith("param:") for x in o):
                cells.add(cell)
    if not cells:
        run.unknowns.append("U6: the constructor of Surrogates stores no series "
                            "from its parameters in a public cell")
        return
    protected = {f"state:{c}" for c in cells}

    def bumps(f, depth=3, seen=None):
        seen = seen or set()
        if f in seen:
            return False
        seen.add(f)
        sn = f.params[0] if f.params else None
        for n in ast.walk(f.node):
            t = None
            if isinstance(n, ast.AugAssign):
                t = n.target
            elif isinstance(n, ast.Assign):
                t = n.targets[0]
            if isinstance(t, ast.Attribute) and isinstance(t.value, ast.Name) and \
                    t.value.id == sn and t.attr in counters:
                return True
            if depth and isinstance(n, ast.Call) and isinstance(n.func, ast.Attribute) \
                    and isinstance(n.func.value, ast.Name) and n.func.value.id == sn:
                g = prog.lookup(C, n.func.attr)
                if g is not None and bumps(g, depth - 1, seen):
                    return True
            if depth and isinstance(n, ast.Assign) and isinstance(t, ast.Attribute) and \
                    isinstance(t.value, ast.Name) and t.value.id == sn:
                pr = prog.lookup_prop(C, t.attr)
                if pr and "set" in pr and bumps(pr["set"], depth - 1, seen):
                    return True
        return False

    def static_arg(a):
        if isinstance(a, ast.Constant):
            return True
        if isinstance(a, ast.Attribute):
            b = a
            while isinstance(b, ast.Attribute):
                b = b.value
            return isinstance(b, ast.Name) and b.id not in ("self", "cls")
        return False

    n_methods = n_spec = 0
    for name, f in sorted(methods.items()):
        if f.kind != "method" or name == "__init__" or f.cls is None or \
                not f.params:
            continue
        if bumps(f):
            run.oblige("U6", f"writer:{f.qualname}", True, nontrivial=False,
                       sample={"where": f.where, "declares": sorted(counters)})
            continue
        # private helpers are judged at their (specialised) call sites
        n_methods += 1
        fa = an.analysis(f)
        bad = []
        for m in fa.mutations:
            if m.tentative or m.exempt:
                continue
            hit = sorted(o for o in m.origins if o in protected)
            if hit:
                bad.append((m.where, f"edits `{m.target_src}` in place ({m.how}), "
                            f"which may be (a view of) {hit[0]}", m.how))
        for (target, pn, o, node, pos, src) in fa.calls_passing:
            hit = sorted(x for x in o if x in protected)
            if hit and pn in an.mut_params.get(target, {}) and \
                    an.real_mutation(fa, target, pn, node):
                bad.append((f"{f.module.relpath}:{node.lineno}",
                            f"passes `{src}` ({hit[0]}) to {target.qualname}, which "
                            f"edits its parameter `{pn}` in place",
                            f"via:{target.qualname}"))
        # helpers of the class called with static arguments, analysed under them
        sn = f.params[0]
        for c in ast.walk(f.node):
            if not (isinstance(c, ast.Call) and isinstance(c.func, ast.Attribute) and
                    isinstance(c.func.value, ast.Name) and c.func.value.id == sn):
                continue
            h = prog.lookup(C, c.func.attr)
            if h is None or h.kind != "method" or h.cached or h is f or bumps(h):
                continue
            if not any(static_arg(a) for a in list(c.args) +
                       [k.value for k in c.keywords]) and not h.defaults():
                continue
            try:
                sp = _specialise(h.node, c, static_arg)
            except Exception:       # noqa: an unreadable helper is no verdict
                sp = None
            if sp is None:
                continue
            node, dynamic = sp
            n_spec += 1
            hfa = FuncAnalysis(an, dataclasses.replace(h, node=node))
            hfa.run()
            dyn_hit = {p_ for p_, a_ in dynamic.items()
                       if any(o in protected for o in fa.origins(a_))}
            for m in hfa.mutations:
                if m.tentative or m.exempt:
                    continue
                hit = sorted(o for o in m.origins if o in protected) or \
                    sorted(o for o in m.origins if o.startswith("param:") and
                           o[6:] in dyn_hit)
                if hit:
                    bad.append((f"{f.module.relpath}:{c.lineno}",
                                f"calls {h.qualname}({ast.unparse(c)[:70]}), which "
                                f"under these arguments edits `{m.target_src}` in "
                                f"place ({m.how}) at {h.module.relpath}:"
                                f"{getattr(m.node, 'lineno', h.node.lineno)} - (a view "
                                f"of) {hit[0]}", f"via:{h.qualname}"))
        run.oblige("U6", f"{f.qualname}:leaves-input-alone", not bad,
                   sample={"where": f.where, "protected": sorted(protected)})
        for (where, msg, how) in bad:
            run.add("U6", f"{f.qualname}/{sorted(protected)[0]}/{how}", where,
                    f"{f.qualname} {msg}: the object's input series changes behind "
                    f"the cache, and every later surrogate is drawn from the edited "
                    f"data")
    run.extra["U6"] = {"protected_cells": sorted(protected), "counters": sorted(counters),
                       "non_writer_methods": n_methods,
                       "specialised_helper_calls": n_spec}
    run.floor("U6 methods of Surrogates analysed", n_methods, 8, hard=True)


def check(run: Run, prog: Program, cy: CyProgram, sites):
    run.rule("U5", "the twin machinery compares distances with a threshold of at least "
             "the distances' precision")
    run.rule("U1", "the memoised spectrum / twins of a Surrogates object are never "
             "edited in place (repeated generation does not degrade)")
    run.rule("U2", "the twin-surrogate machinery is applicable: kernel boundary "
             "typing and declared vs allocated rank of local buffers")
    run.rule("U3", "per-series work buffers of the twin search are re-initialised "
             "for every series")
    run.explanation = (
        "Clauses of C15 decided structurally. Permutation exactness, spectra and "
        "the twin transition structure are NOT decided.")
    from .rules_c06 import p1_restricted
    p1_restricted(run, "U1", prog, lambda o: o.startswith("cached:Surrogates."),
                  "memoised surrogate spectrum/twins", floor=1)
    n = report_sites(run, "U2", sites, lambda s: s.kernel.name in U2_KERNELS)
    run.floor("U2 call sites", n, 1)
    for (f, name, t, init, verdict, detail) in local_buffer_decls(cy):
        if f.name not in U2_KERNELS:
            continue
        ok = not verdict.startswith("mismatch")
        run.oblige("U2", f"local:{f.name}.{name}", ok, sample=detail)
        if not ok:
            run.add("U2", f"local/{f.name}/{name}", f"{f.module.relpath}:{detail['line']}",
                    f"kernel {f.name} declares `{name}` as {detail['declared']} but "
                    f"allocates it with {detail['init']} ({verdict}): raises on every "
                    f"call")
    u3(run, cy)
    u5(run, cy)
    from .rules_c01 import CacheModel, _k4_cond_recompute
    run.rule("U4", "a conditionally recomputed embedding/twin memo of Surrogates is "
             "refreshed by every writer of the data it derives from")
    _k4_cond_recompute(run, prog, CacheModel(prog), rule="U4",
                       class_pred=lambda C: C.name == "Surrogates")
    run.oblige("U4", "Surrogates:memo-scan", True, nontrivial=False)
    u6(run, prog)
