"""C18 - resistive networks: "follows a change of resistances" (Z1..Z5)."""
from __future__ import annotations

import ast

from .pymodel import Program, iter_events, iter_calls
from .cymodel import CyProgram
from .kernels import report_sites
from .report import Run, AnalysisError


def z1(run: Run, prog: Program):
    rn = prog.classes.get("ResNetwork")
    if rn is None:
        raise AnalysisError("ResNetwork vanished")
    m = rn.methods.get("update_resistances")
    if m is None:
        raise AnalysisError("ResNetwork.update_resistances vanished")
    # order of the two update calls at the top level of update_resistances
    order = []
    for st in m.node.body:
        if isinstance(st, ast.Expr) and isinstance(st.value, ast.Call):
            nme = ast.unparse(st.value.func)
            if nme in ("self.update_admittance", "self.update_R"):
                order.append(nme)
    ok = order == ["self.update_admittance", "self.update_R"]
    tr = None
    if not ok:
        # spelled differently (a loop over the bound methods, a helper): the
        # order of the calls and of the store in the effect tree of the method
        def linear(t, out):
            k = t[0]
            if k == "ev":
                out.append(("ev", t[1]))
            elif k == "seq":
                for c in t[1]:
                    linear(c, out)
            elif k == "call":
                out.append(("call", t[1]))
                linear(t[2], out)
            elif k in ("alt", "loop"):
                out.append(("branch", None))
                for c in (t[1] if k == "alt" else [t[1]]):
                    linear(c, out)
                out.append(("join", None))
        try:
            tr = []
            linear(prog.tree(m, rn, {}), tr)
        except AnalysisError:
            tr = None
        if tr is not None:
            depth = 0
            seq_ = []
            for kind, x in tr:
                if kind == "branch":
                    depth += 1
                elif kind == "join":
                    depth -= 1
                elif kind == "call" and x.func.name in (
                        "update_admittance", "update_R") and depth == 0 and \
                        x.func.qualname.startswith("ResNetwork."):
                    if not seq_ or seq_[-1] != "self." + x.func.name:
                        seq_.append("self." + x.func.name)
            if seq_ == ["self.update_admittance", "self.update_R"]:
                ok, order = True, seq_
    run.oblige("Z1", "update-order", ok, sample={"where": m.where, "order": order})
    if not ok:
        run.add("Z1", "ResNetwork.update_resistances/order", m.where,
                f"update_resistances must call update_admittance() and then update_R() "
                f"unconditionally (R is the pseudo-inverse of the *new* admittance "
                f"Laplacian); found {order}")
    # ... on every path: no early return before the derived matrices are rebuilt
    # (a "nothing changed" shortcut compares against storage the caller may have
    # edited in place, or against values the derived matrices do not reflect)
    upd_lines = [c.lineno for c in ast.walk(m.node) if isinstance(c, ast.Call)
                 and ast.unparse(c.func) in ("self.update_admittance", "self.update_R")]
    early = [r for r in ast.walk(m.node) if isinstance(r, ast.Return)
             and upd_lines and r.lineno < max(upd_lines)]
    # (a shortcut is sound only against a private copy of the last resistances)
    stores = [st for st in ast.walk(m.node) if isinstance(st, ast.Assign)
              and ast.unparse(st.targets[0]) == "self.resistances"]
    private = bool(stores) and all(
        isinstance(st.value, ast.Call) and (
            ast.unparse(st.value.func).endswith(".copy") or
            ast.unparse(st.value.func) in ("np.array", "np.copy", "numpy.array"))
        and not any(k.arg == "copy" and ast.unparse(k.value) == "False"
                    for k in st.value.keywords)
        for st in stores)
    if private:
        early = []
    run.oblige("Z1", "update-unconditional", not early, sample={"where": m.where})
    for r in early:
        run.add("Z1", "ResNetwork.update_resistances/early-return",
                f"{m.module.relpath}:{r.lineno}",
                "update_resistances returns before update_admittance()/update_R() on "
                "some path: admittance, R and everything derived from them then "
                "belong to the previous resistances")
    # the resistances are stored before the derived matrices are rebuilt
    first_upd = None
    store = None
    for i, st in enumerate(m.node.body):
        s = ast.unparse(st)
        if s.startswith("self.resistances =") and store is None:
            store = i
        if "self.update_admittance()" in s and first_upd is None:
            first_upd = i
    ok = store is not None and first_upd is not None and store < first_upd
    if not ok and tr is not None:
        # same through the effect tree: the first write of `resistances` comes
        # before the first of the two update calls
        pos_store = next((i for i, (k_, x) in enumerate(tr) if k_ == "ev" and
                          x.kind in ("write", "assign") and x.cell == "resistances"), None)
        pos_call = next((i for i, (k_, x) in enumerate(tr) if k_ == "call" and
                         x.func.name in ("update_admittance", "update_R")), None)
        ok = pos_store is not None and pos_call is not None and pos_store < pos_call
    run.oblige("Z1", "store-before-update", ok)
    if not ok:
        run.add("Z1", "ResNetwork.update_resistances/store", m.where,
                "update_resistances must store the new resistances before rebuilding "
                "admittance and R")
    # update_R derives R from the admittance Laplacian; update_admittance from
    # the resistances on the network's links
    ur = rn.methods.get("update_R")
    t = prog.tree(ur, rn, {})
    reads = {e.cell for e in iter_events(t) if e.kind == "read"}
    ok = "sparse_Adm" in reads and any(
        e.kind in ("write", "assign") and e.cell == "sparse_R" for e in iter_events(t))
    run.oblige("Z1", "R-from-admittance", ok, sample={"reads": sorted(reads)})
    if not ok:
        run.add("Z1", "ResNetwork.update_R/source", ur.where,
                "update_R must compute sparse_R from the current admittance matrix")
    ua = rn.methods.get("update_admittance")
    t = prog.tree(ua, rn, {})
    reads = {e.cell for e in iter_events(t) if e.kind == "read"}
    ok = "resistances" in reads and ("sp_A" in reads or "graph" in reads)
    run.oblige("Z1", "admittance-from-links", ok, sample={"reads": sorted(reads)})
    if not ok:
        run.add("Z1", "ResNetwork.update_admittance/support", ua.where,
                f"update_admittance must fill the admittance from the resistances *on "
                f"the links of the network* (reads {sorted(reads)}): resistances given "
                f"for unlinked pairs must not create conductances")
    # def-use closure: what the admittance entries (values and index sets)
    # depend on must include the network's link structure
    deps = {}

    def names(e):
        out = set()
        for n in ast.walk(e):
            if isinstance(n, ast.Name):
                out.add(n.id)
            elif isinstance(n, ast.Attribute) and isinstance(n.value, ast.Name) and \
                    n.value.id == "self":
                out.add("self." + n.attr)
        return out
    aliases = {}
    for st in ast.walk(ua.node):
        if isinstance(st, ast.Assign) and len(st.targets) > 1:
            # a = self.X = <new object>: one object under two names
            attrs = [t for t in st.targets if isinstance(t, ast.Attribute)
                     and isinstance(t.value, ast.Name) and t.value.id == "self"]
            if attrs:
                for t in st.targets:
                    if isinstance(t, ast.Name):
                        aliases[t.id] = "self." + attrs[0].attr
        if isinstance(st, ast.Assign):
            for tg in st.targets:
                if isinstance(tg, (ast.Tuple, ast.List)):
                    # a, b = x, y element-wise; otherwise every target depends
                    # on the whole value
                    vals = st.value.elts if isinstance(st.value, (ast.Tuple, ast.List)) \
                        and len(st.value.elts) == len(tg.elts) else [st.value] * len(tg.elts)
                    for t_, v_ in zip(tg.elts, vals):
                        if isinstance(t_, ast.Name):
                            deps.setdefault(t_.id, set()).update(names(v_))
                    continue
                if isinstance(tg, ast.Name) and isinstance(st.value, ast.Attribute) and \
                        isinstance(st.value.value, ast.Name) and st.value.value.id == "self":
                    # a local shorthand for the attribute's object: stores through
                    # it are stores into the attribute
                    aliases[tg.id] = "self." + st.value.attr
                if isinstance(tg, ast.Name):
                    deps.setdefault(tg.id, set()).update(names(st.value))
                elif isinstance(tg, ast.Attribute):
                    deps.setdefault(ast.unparse(tg), set()).update(names(st.value))
                elif isinstance(tg, ast.Subscript):
                    base = ast.unparse(tg.value)
                    deps.setdefault(base, set()).update(
                        names(st.value) | names(tg.slice))
        elif isinstance(st, (ast.For, ast.comprehension)):
            for x in ast.walk(st.target):
                if isinstance(x, ast.Name):
                    deps.setdefault(x.id, set()).update(names(st.iter))
    for a_, attr_ in aliases.items():
        deps.setdefault(attr_, set()).update(deps.get(a_, set()) - {attr_})
    closure = set()
    work = ["self.sparse_Adm"]
    while work:
        x = work.pop()
        for d in deps.get(x, ()):
            if d not in closure:
                closure.add(d)
                work.append(d)
    ok = bool(closure & {"self.edge_list", "self.sp_A", "self.adjacency", "self.graph"})
    run.oblige("Z1", "admittance-support", ok, sample={
        "depends_on": sorted(c for c in closure if c.startswith("self."))})
    if not ok:
        run.add("Z1", "ResNetwork.update_admittance/support-defuse", ua.where,
                f"the admittance matrix is computed from "
                f"{sorted(c for c in closure if c.startswith('self.'))} only: its "
                f"support no longer follows the network's links (edge_list/adjacency), "
                f"so resistances given for unlinked node pairs become conductances")


def z3(run: Run, prog: Program):
    """C01's coherence obligations restricted to ResNetwork (a cached ResNetwork
    quantity must be keyed on something update_resistances changes)."""
    from . import rules_c01
    sub = Run("C01", write=False, quiet=True, repo=run.repo)
    rules_c01.check(sub, prog)
    n = 0
    for f in sub.findings:
        cls = f.detail.get("classes") or []
        writer = f.key.split("/")[-1]
        if ("ResNetwork" in f.key or cls == ["ResNetwork"]) and \
                writer.startswith("ResNetwork."):
            n += 1
            run.add("Z3", f.key.replace("/", "|", 0), f.where, f.message)
    rn = prog.classes["ResNetwork"]
    own_cached = [m for m in rn.methods.values() if m.cached]
    run.oblige("Z3", "ResNetwork:coherence", n == 0, sample={
        "own_cached_methods": [m.qualname for m in own_cached],
        "c01_obligations": sub.obligations})
    run.extra["c01_obligations_reused"] = sub.obligations


def z5(run: Run, prog: Program):
    """Complex impedances: no conjugating products in the defining sums."""
    rn = prog.classes["ResNetwork"]
    n = 0
    for m in rn.methods.values():
        for c in ast.walk(m.node):
            if isinstance(c, ast.Call):
                nme = ast.unparse(c.func)
                n += 1
                bad = nme in ("np.vdot", "numpy.vdot") or \
                    (nme.endswith(".conj") or nme.endswith(".conjugate")) and False
                if bad:
                    run.oblige("Z5", f"{m.qualname}@{c.lineno}", False)
                    run.add("Z5", f"{m.qualname}/vdot", f"{m.module.relpath}:{c.lineno}",
                            f"{m.qualname} uses np.vdot, which complex-conjugates its "
                            f"first argument: with complex impedances the defining sum "
                            f"sum a_ij a_ik a_jk is not what is computed")
    run.oblige("Z5", "ResNetwork:no-conjugating-products", True, nontrivial=True,
               sample={"calls_scanned": n})
    run.floor("Z5 calls scanned", n, 30, hard=True)


def check(run: Run, prog: Program, cy: CyProgram, sites):
    run.rule("Z1", "update_resistances stores the resistances, then rebuilds the "
             "admittance (on the network's links) and then R, in that order")
    run.rule("Z2", "the current-flow kernels are applicable (kernel boundary typing)")
    run.rule("Z3", "cache/memo coherence of ResNetwork under update_resistances "
             "(C01 rules restricted to this class)")
    run.rule("Z5", "no conjugating product in ResNetwork's defining sums")
    run.explanation = (
        "Structural clauses of 'all of them follow a change of the resistances'. "
        "The circuit laws themselves (metric, Foster, series/parallel) are NOT "
        "decided.")
    z1(run, prog)
    n = report_sites(run, "Z2", sites,
                     lambda s: "resistive_network" in s.func.module.relpath)
    run.floor("Z2 call sites", n, 1)
    z3(run, prog)
    z5(run, prog)
