"""C18 - resistive networks: "follows a change of resistances" (Z1..Z5)."""
from __future__ import annotations

import ast

from .pymodel import Program, iter_events, iter_calls
from .cymodel import CyProgram
from .kernels import report_sites
from .report import Run, AnalysisError


def z1(run: Run, prog: Program):
    rn = prog.classes.get("ResNetwork")
    if rn is None:
        raise AnalysisError("ResNetwork vanished")
    m = rn.methods.get("update_resistances")
    if m is None:
        raise AnalysisError("ResNetwork.update_resistances vanished")
    # order of the two update calls at the top level of update_resistances
    order = []
    for st in m.node.body:
        if isinstance(st, ast.Expr) and isinstance(st.value, ast.Call):
            nme = ast.unparse(st.value.func)
            if nme in ("self.update_admittance", "self.update_R"):
                order.append(nme)
    ok = order == ["self.update_admittance", "self.update_R"]
    tr = None
    if not ok:
        # spelled differently (a loop over the bound methods, a helper): the
        # order of the calls and of the store in the effect tree of the method
        def linear(t, out):
            k = t[0]
            if k == "ev":
                out.append(("ev", t[1]))
            elif k == "seq":
                for c in t[1]:
                    linear(c, out)
            elif k == "call":
                out.append(("call", t[1]))
                linear(t[2], out)
            elif k in ("alt", "loop"):
                out.append(("branch", None))
                for c in (t[1] if k == "alt" else [t[1]]):
                    linear(c, out)
                out.append(("join", None))
        try:
            tr = []
            linear(prog.tree(m, rn, {}), tr)
        except AnalysisError:
            tr = None
        if tr is not None:
            depth = 0
            seq_ = []
            for kind, x in tr:
                if kind == "branch":
                    depth += 1
                elif kind == "join":
                    depth -= 1
                elif kind == "call" and x.func.name in (
                        "update_admittance", "update_R") and depth == 0 and \
                        x.func.qualname.startswith("ResNetwork."):
                    if not seq_ or seq_[-1] != "self." + x.func.name:
                        seq_.append("self." + x.func.name)
            if seq_ == ["self.update_admittance", "self.update_R"]:
                ok, order = True, seq_
    run.oblige("Z1", "update-order", ok, sample={"where": m.where, "order": order})
    if not ok:
        run.add("Z1", "ResNetwork.update_resistances/order", m.where,
                f"update_resistances must call update_admittance() and then update_R() "
                f"unconditionally (R is the pseudo-inverse of the *new* admittance "
                f"Laplacian); found {order}")
    # ... on every path: no early return before the derived matrices are rebuilt
    # (a "nothing changed" shortcut compares against storage the caller may have
    # edited in place, or against values the derived matrices do not reflect)
    upd_lines = [c.lineno for c in ast.walk(m.node) if isinstance(c, ast.Call)
                 and ast.unparse(c.func) in ("self.update_admittance", "self.update_R")]
    early = [r for r in ast.walk(m.node) if isinstance(r, ast.Return)
             and upd_lines and r.lineno < max(upd_lines)]
    # (a shortcut is sound only against a private copy of the last resistances)
    stores = [st for st in ast.walk(m.node) if isinstance(st, ast.Assign)
              and ast.unparse(st.targets[0]) == "self.resistances"]
    private = bool(stores) and all(
        isinstance(st.value, ast.Call) and (
            ast.unparse(st.value.func).endswith(".copy") or
            ast.unparse(st.value.func) in ("np.array", "np.copy", "numpy.array"))
        and not any(k.arg == "copy" and ast.unparse(k.value) == "False"
                    for k in st.value.keywords)
        for st in stores)
    if private:
        early = []
    run.oblige("Z1", "update-unconditional", not early, sample={"where": m.where})
    for r in early:
        run.add("Z1", "ResNetwork.update_resistances/early-return",
                f"{m.module.relpath}:{r.lineno}",
                "update_resistances returns before update_admittance()/update_R() on "
                "some path: admittance, R and everything derived from them then "
                "belong to the previous resistances")
    # the resistances are stored before the derived matrices are rebuilt
    first_upd = None
    store = None
    for i, st in enumerate(m.node.body):
        s = ast.unparse(st)
        if s.startswith("self.resistances =") and store is None:
            store = i
        if "self.update_admittance()" in s and first_upd is None:
            first_upd = i
    ok = store is not None and first_upd is not None and store < first_upd
    if not ok and tr is not None:
        # same through the effect tree: the first write of `resistances` comes
        # before the first of the two update calls
        pos_store = next((i for i, (k_, x) in enumerate(tr) if k_ == "ev" and
                          x.kind in ("write", "assign") and x.cell == "resistances"), None)
        pos_call = next((i for i, (k_, x) in enumerate(tr) if k_ == "call" and
                         x.func.name in ("update_admittance", "update_R")), None)
        ok = pos_store is not None and pos_call is not None and pos_store < pos_call
    run.oblige("Z1", "store-before-update", ok)
    if not ok:
        run.add("Z1", "ResNetwork.update_resistances/store", m.where,
                "update_resistances must store the new resistances before rebuilding "
                "admittance and R")
    # update_R derives R from the admittance Laplacian; update_admittance from
    # the resistances on the network's links
    ur = rn.methods.get("update_R")
    t = prog.tree(ur, rn, {})
    reads = {e.cell for e in iter_events(t) if e.kind == "read"}
    ok = "sparse_Adm" in reads and any(
        e.kind in ("write", "assign") and e.cell == "sparse_R" for e in iter_events(t))
    run.oblige("Z1", "R-from-admittance", ok, sample={"reads": sorted(reads)})
    if not ok:
        run.add("Z1", "ResNetwork.update_R/source", ur.where,
                "update_R must compute sparse_R from the current admittance matrix")
    ua = rn.methods.get("update_admittance")
    t = prog.tree(ua, rn, {})
    reads = {e.cell for e in iter_events(t) if e.kind == "read"}
    ok = "resistances" in reads and ("sp_A" in reads or "graph" in reads)
    run.oblige("Z1", "admittance-from-links", ok, sample={"reads": sorted(reads)})
    if not ok:
        run.add("Z1", "ResNetwork.update_admittance/support", ua.where,
                f"update_admittance must fill the admittance from the resistances *on "
                f"the links of the network* (reads {sorted(reads)}): resistances given "
                f"for unlinked pairs must not create conductances")
    # def-use closure: what the admittance entries (values and index sets)
    # depend on must include the network's link structure
    deps = {}

    def names(e):
        out = set()
        for n in ast.walk(e):
            if isinstance(n, ast.Name):
                out.add(n.id)
            elif isinstance(n, ast.Attribute) and isinstance(n.value, ast.Name) and \
                    n.value.id == "self":
                out.add("self." + n.attr)
        return out
    aliases = {}
    for st in ast.walk(ua.node):
        if isinstance(st, ast.Assign) and len(st.targets) > 1:
            # a = self.X = <new object>: one object under two names
            attrs = [t for t in st.targets if isinstance(t, ast.Attribute)
                     and isinstance(t.value, ast.Name) and t.value.id == "self"]
            if attrs:
                for t in st.targets:
                    if isinstance(t, ast.Name):
                        aliases[t.id] = "self." + attrs[0].attr
        if isinstance(st, ast.Assign):
            for tg in st.targets:
                if isinstance(tg, (ast.Tuple, ast.List)):
                    # a, b = x, y element-wise; otherwise every target depends
                    # on the whole value
                    vals = st.value.elts if isinstance(st.value, (ast.Tuple, ast.List)) \
                        and len(st.value.elts) == len(tg.elts) else [st.value] * len(tg.elts)
                    for t_, v_ in zip(tg.elts, vals):
                        if isinstance(t_, ast.Name):
                            deps.setdefault(t_.id, set()).update(names(v_))
                    continue
                if isinstance(tg, ast.Name) and isinstance(st.value, ast.Attribute) and \
                        isinstance(st.value.value, ast.Name) and st.value.value.id == "self":
                    # a local shorthand for the attribute's object: stores through
                    # it are stores into the attribute
                    aliases[tg.id] = "self." + st.value.attr
                if isinstance(tg, ast.Name):
                    deps.setdefault(tg.id, set()).update(names(st.value))
                elif isinstance(tg, ast.Attribute):
                    deps.setdefault(ast.unparse(tg), set()).update(names(st.value))
                elif isinstance(tg, ast.Subscript):
                    base = ast.unparse(tg.value)
                    deps.setdefault(base, set()).update(
                        names(st.value) | names(tg.slice))
        elif isinstance(st, (ast.For, ast.comprehension)):
            for x in ast.walk(st.target):
                if isinstance(x, ast.Name):
                    deps.setdefault(x.id, set()).update(names(st.iter))
    for a_, attr_ in aliases.items():
        deps.setdefault(attr_, set()).update(deps.get(a_, set()) - {attr_})
    closure = set()
    work = ["self.sparse_Adm"]
    while work:
        x = work.pop()
        for d in deps.get(x, ()):
            if d not in closure:
                closure.add(d)
                work.append(d)
    ok = bool(closure & {"self.edge_list", "self.sp_A", "self.adjacency", "self.graph"})
    run.oblige("Z1", "admittance-support", ok, sample={
        "depends_on": sorted(c for c in closure if c.startswith("self."))})
    if not ok:
        run.add("Z1", "ResNetwork.update_admittance/support-defuse", ua.where,
                f"the admittance matrix is computed from "
                f"{sorted(c for c in closure if c.startswith('self.'))} only: its "
                f"support no longer follows the network's links (edge_list/adjacency), "
                f"so resistances given for unlinked node pairs become conductances")


def z3(run: Run, prog: Program):
    """C01's coherence obligations restricted to ResNetwork (a cached ResNetwork
    quantity must be keyed on something update_resistances changes)."""
    from . import rules_c01
    sub = Run("C01", write=False, quiet=True, repo=run.repo)
    rules_c01.check(sub, prog)
    n = 0
    for f in sub.findings:
        cls = f.detail.get("classes") or []
        writer = f.key.split("/")[-1]
        if ("ResNetwork" in f.key or cls == ["ResNetwork"]) and \
                writer.startswith("ResNetwork."):
            n += 1
            run.add("Z3", f.key.replace("/", "|", 0), f.where, f.message)
    rn = prog.classes["ResNetwork"]
    own_cached = [m for m in rn.methods.values() if m.cached]
    run.oblige("Z3", "ResNetwork:coherence", n == 0, sample={
        "own_cached_methods": [m.qualname for m in own_cached],
        "c01_obligations": sub.obligations})
    run.extra["c01_obligations_reused"] = sub.obligations


def z5(run: Run, prog: Program):
    """Complex impedances: no conjugating products in the defining sums."""
    rn = prog.classes["ResNetwork"]
    n = 0
    for m in rn.methods.values():
        for c in ast.walk(m.node):
            if isinstance(c, ast.Call):
                nme = ast.unparse(c.func)
                n += 1
                bad = nme in ("np.vdot", "numpy.vdot") or \
                    (nme.endswith(".conj") or nme.endswith(".conjugate")) and False
                if bad:
                    run.oblige("Z5", f"{m.qualname}@{c.lineno}", False)
                    run.add("Z5", f"{m.qualname}/vdot", f"{m.module.relpath}:{c.lineno}",
                            f"{m.qualname} uses np.vdot, which complex-conjugates its "
                            f"first argument: with complex impedances the defining sum "
                            f"sum a_ij a_ik a_jk is not what is computed")
    run.oblige("Z5", "ResNetwork:no-conjugating-products", True, nontrivial=True,
               sample={"calls_scanned": n})
    run.floor("Z5 calls scanned", n, 30, hard=True)


# ---------------------------------------------------------------------------
# Z6: layout of flat per-pair stores (writer and reader agree)

def _pair_layout_of_producer(st, attr):
    """'lower' / 'upper' (row-major triangle order) of a statement that fills
    `self.<attr>` with one value per unordered node pair, None if it is not such
    a statement, '?' if it is one in an unknown order."""
    # self.X = M[np.triu_indices(N, k=1)] / np.tril_indices(N, k=-1)
    if isinstance(st, ast.Assign) and any(ast.unparse(t) == f"self.{attr}"
                                          for t in st.targets):
        for c in ast.walk(st.value):
            if isinstance(c, ast.Call) and ast.unparse(c.func) in (
                    "np.triu_indices", "np.tril_indices"):
                k = next((kw.value for kw in c.keywords if kw.arg == "k"),
                         c.args[1] if len(c.args) > 1 else None)
                kv = ast.literal_eval(k) if k is not None and isinstance(
                    k, (ast.Constant, ast.UnaryOp)) else None
                if ast.unparse(c.func).endswith("triu_indices") and kv == 1:
                    return "upper"
                if ast.unparse(c.func).endswith("tril_indices") and kv == -1:
                    return "lower"
                return "?"
        return None
    # for i in range(N): for j in range(i): self.X = np.append(self.X, f(i, j))
    if isinstance(st, ast.For) and isinstance(st.target, ast.Name) and \
            isinstance(st.iter, ast.Call) and ast.unparse(st.iter.func) == "range":
        i = st.target.id
        for inner in st.body:
            if not (isinstance(inner, ast.For) and isinstance(inner.target, ast.Name) and
                    isinstance(inner.iter, ast.Call) and
                    ast.unparse(inner.iter.func) == "range"):
                continue
            fills = [a for a in ast.walk(inner) if isinstance(a, ast.Assign) and any(
                ast.unparse(t) == f"self.{attr}" for t in a.targets) and
                "append" in ast.unparse(a.value)] + \
                [c for c in ast.walk(inner) if isinstance(c, ast.Call) and
                 ast.unparse(c.func) == f"self.{attr}.append"]
            if not fills:
                continue
            args = [ast.unparse(a) for a in inner.iter.args]
            if len(st.iter.args) == 1 and args == [i]:
                return "lower"
            if len(st.iter.args) == 1 and len(args) == 2 and \
                    args[0].replace(" ", "") in (f"{i}+1", f"1+{i}") and \
                    args[1] == ast.unparse(st.iter.args[0]):
                return "upper"
            return "?"
    return None


def _pair_layout_of_index(e):
    """'lower' for a*(a-1)//2 + b, 'upper' for a*N - a*(a+1)//2 + (b - a - 1)
    (any order of the summands), else '?'."""
    from .cmodel import Poly
    txt = ast.unparse(e).replace(" ", "")
    names = sorted({n.id for n in ast.walk(e) if isinstance(n, ast.Name)})
    for a in names:
        for b in names:
            if a == b:
                continue
            if txt in (f"{a}*({a}-1)//2+{b}", f"{b}+{a}*({a}-1)//2",
                       f"({a}-1)*{a}//2+{b}", f"{b}+({a}-1)*{a}//2",
                       f"{a}*({a}-1)/2+{b}"):
                return "lower"
            for n in names:
                if n in (a, b):
                    continue
                if txt in (f"{a}*{n}-{a}*({a}+1)//2+{b}-{a}-1",
                           f"{a}*{n}-{a}*({a}+1)//2+({b}-{a}-1)",
                           f"{n}*{a}-{a}*({a}+1)//2+{b}-{a}-1"):
                    return "upper"
    return "?"


def z6(run: Run, prog: Program):
    # the rule knows its two forms: a built-in positive example on every run
    ex_w = ast.parse("self.S = ER[np.triu_indices(self.N, k=1)]").body[0]
    ex_r = ast.parse("self.S[i * (i - 1) // 2 + j]").body[0].value
    if _pair_layout_of_producer(ex_w, "S") != "upper" or \
            _pair_layout_of_index(ex_r.slice) != "lower":
        raise AnalysisError("Z6 self-test: the layout recognisers no longer work")
    rn = prog.classes["ResNetwork"]
    # flat pair stores: attributes some statement fills in pair order
    stores = {}
    for m in rn.methods.values():
        for st in ast.walk(m.node):
            for tgt in ([t for t in st.targets] if isinstance(st, ast.Assign) else []):
                if isinstance(tgt, ast.Attribute) and ast.unparse(tgt.value) == "self":
                    stores.setdefault(tgt.attr, [])
    n_prod = n_read = 0
    for attr in sorted(stores):
        layouts = []
        for m in rn.methods.values():
            for st in ast.walk(m.node):
                lay = _pair_layout_of_producer(st, attr)
                if lay is not None:
                    layouts.append((lay, m, st))
        if not layouts:
            continue
        n_prod += len(layouts)
        reads = [(m, n) for m in rn.methods.values() for n in ast.walk(m.node)
                 if isinstance(n, ast.Subscript) and isinstance(n.ctx, ast.Load) and
                 ast.unparse(n.value) == f"self.{attr}" and
                 not isinstance(n.slice, (ast.Slice, ast.Constant))]
        for m, n in reads:
            n_read += 1
            want = _pair_layout_of_index(n.slice)
            have = {l for l, _, _ in layouts}
            if want == "?" or "?" in have:
                run.unknowns.append(f"Z6: {m.qualname}: `{ast.unparse(n)[:60]}` reads the "
                                    f"pair store `{attr}` by position; the index formula "
                                    f"or the producer's order is not recognised")
                run.oblige("Z6", f"{m.qualname}:{attr}@{n.lineno}", True, nontrivial=False)
                continue
            ok = have == {want}
            run.oblige("Z6", f"{m.qualname}:{attr}@{n.lineno}", ok)
            if not ok:
                lay, pm, pst = next(x for x in layouts if x[0] != want)
                run.add("Z6", f"{m.qualname}/{attr}/layout",
                        f"{m.module.relpath}:{n.lineno}",
                        f"{m.qualname} reads `{ast.unparse(n)}`, the position of a pair "
                        f"in row-major *{want}*-triangle order, but {pm.qualname} "
                        f"({pm.module.relpath}:{pst.lineno}) fills `{attr}` in row-major "
                        f"*{lay}*-triangle order: for N >= 4 the value of another node "
                        f"pair is returned")
    run.oblige("Z6", "ResNetwork:pair-stores", True, nontrivial=False,
               sample={"producers": n_prod, "indexed_reads": n_read})


def check(run: Run, prog: Program, cy: CyProgram, sites):
    run.rule("Z1", "update_resistances stores the resistances, then rebuilds the "
             "admittance (on the network's links) and then R, in that order")
    run.rule("Z2", "the current-flow kernels are applicable (kernel boundary typing)")
    run.rule("Z3", "cache/memo coherence of ResNetwork under update_resistances "
             "(C01 rules restricted to this class)")
    run.rule("Z5", "no conjugating product in ResNetwork's defining sums")
    run.rule("Z6", "a positional read of a flat per-pair store uses the triangle order "
             "in which the store is filled")
    run.explanation = (
        "Structural clauses of 'all of them follow a change of the resistances'. "
        "The circuit laws themselves (metric, Foster, series/parallel) are NOT "
        "decided.")
    z1(run, prog)
    n = report_sites(run, "Z2", sites,
                     lambda s: "resistive_network" in s.func.module.relpath)
    run.floor("Z2 call sites", n, 1)
    z3(run, prog)
    z5(run, prog)
    z6(run, prog)
