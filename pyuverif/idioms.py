"""Enumerated spellings of small numpy idioms (Python ast).  Rules ask "does
this statement clear the diagonal of X?" instead of matching one spelling, so
an equivalent rewrite of the statement does not change a verdict."""
from __future__ import annotations

import ast

ZEROS = (0, 0.0, False)


def _is_zero(e) -> bool:
    return isinstance(e, ast.Constant) and not isinstance(e.value, str) and \
        e.value is not None and e.value in ZEROS


def _np(func, names) -> bool:
    return isinstance(func, ast.Attribute) and func.attr in names and \
        isinstance(func.value, ast.Name) and func.value.id in ("np", "numpy")


def _plus_one(e) -> bool:
    return isinstance(e, ast.BinOp) and isinstance(e.op, ast.Add) and any(
        isinstance(x, ast.Constant) and x.value == 1 for x in (e.left, e.right))


def diagonal_clear_target(st) -> str | None:
    """Source text of the array whose main diagonal `st` sets to zero, else None.

    Recognised: X.flat[::n+1] = 0; np.fill_diagonal(X, 0); X[np.diag_indices(n)]
    = 0; X[np.diag_indices_from(X)] = 0; X[r, r] = 0 with r = range(n) /
    np.arange(n); X[np.eye(n, dtype=bool)] = 0; X.setdiag(0)."""
    if isinstance(st, ast.Expr) and isinstance(st.value, ast.Call):
        c = st.value
        if _np(c.func, ("fill_diagonal",)) and len(c.args) >= 2 and _is_zero(c.args[1]):
            return ast.unparse(c.args[0])
        if isinstance(c.func, ast.Attribute) and c.func.attr == "setdiag" and \
                c.args and _is_zero(c.args[0]):
            return ast.unparse(c.func.value)
        return None
    if not (isinstance(st, ast.Assign) and len(st.targets) == 1
            and isinstance(st.targets[0], ast.Subscript) and _is_zero(st.value)):
        return None
    tg = st.targets[0]
    sl = tg.slice
    # X.flat[::n+1]
    if isinstance(tg.value, ast.Attribute) and tg.value.attr == "flat" and \
            isinstance(sl, ast.Slice) and sl.lower is None and sl.upper is None and \
            sl.step is not None and _plus_one(sl.step):
        return ast.unparse(tg.value.value)
    if isinstance(sl, ast.Call):
        if _np(sl.func, ("diag_indices", "diag_indices_from")):
            return ast.unparse(tg.value)
        if _np(sl.func, ("eye", "identity")) and any(
                k.arg == "dtype" and ast.unparse(k.value) in ("bool", "np.bool_")
                for k in sl.keywords):
            return ast.unparse(tg.value)
    if isinstance(sl, ast.Tuple) and len(sl.elts) == 2 and \
            ast.unparse(sl.elts[0]) == ast.unparse(sl.elts[1]) and \
            isinstance(sl.elts[0], ast.Call) and (
                _np(sl.elts[0].func, ("arange",)) or
                (isinstance(sl.elts[0].func, ast.Name) and sl.elts[0].func.id == "range")):
        return ast.unparse(tg.value)
    return None


def is_copy_of(value, src_text: str) -> bool:
    """`value` builds a fresh array from the expression `src_text`:
    S.copy(), np.array(S), np.copy(S), S.astype(..), np.array(S, copy=True),
    S - np.eye(..), S * c, S.toarray() ..."""
    if isinstance(value, ast.Call):
        f = value.func
        if isinstance(f, ast.Attribute) and f.attr in ("copy", "astype", "toarray",
                                                       "todense") and \
                ast.unparse(f.value) == src_text:
            return True
        if _np(f, ("array", "copy")) and value.args and \
                ast.unparse(value.args[0]) == src_text and not any(
                    k.arg == "copy" and isinstance(k.value, ast.Constant)
                    and k.value.value is False for k in value.keywords):
            return True
        if isinstance(f, ast.Attribute) and f.attr in ("copy", "astype") and \
                isinstance(f.value, ast.Call):
            return is_copy_of(f.value, src_text) or \
                ast.unparse(f.value).startswith(src_text)
    if isinstance(value, ast.BinOp):
        return src_text in (ast.unparse(value.left), ast.unparse(value.right))
    return False


def minus_identity_of(value, src_text: str) -> bool:
    """S - np.eye(n) / S - np.identity(n): a copy with the (unit) diagonal removed."""
    return isinstance(value, ast.BinOp) and isinstance(value.op, ast.Sub) and \
        ast.unparse(value.left) == src_text and isinstance(value.right, ast.Call) and \
        _np(value.right.func, ("eye", "identity"))


def symmetrises(st, name: str) -> bool:
    """`name` is rebound to an expression containing name + name.T /
    name.transpose() (any scaling)."""
    if not (isinstance(st, ast.Assign) and len(st.targets) == 1 and
            isinstance(st.targets[0], ast.Name) and st.targets[0].id == name):
        return False
    for n in ast.walk(st.value):
        if isinstance(n, ast.BinOp) and isinstance(n.op, ast.Add):
            l, r = ast.unparse(n.left), ast.unparse(n.right)
            for a, b in ((l, r), (r, l)):
                # Y + Y.T for any Y: the value bound to `name` is symmetric
                if b in (f"{a}.T", f"{a}.transpose()", f"np.transpose({a})") and \
                        a.isidentifier():
                    return True
    if isinstance(st.value, ast.Call) and _np(st.value.func, ("maximum", "minimum")):
        a = [ast.unparse(x) for x in st.value.args]
        return len(a) == 2 and name in a and (f"{name}.T" in a or
                                              f"{name}.transpose()" in a)
    return False


def negated_flag(test, flags) -> bool:
    """`not F`, `F is False`, `F == False`, `F is not True` for F in flags (source
    texts such as 'self.directed', 'directed')."""
    if isinstance(test, ast.UnaryOp) and isinstance(test.op, ast.Not):
        return ast.unparse(test.operand) in flags
    if isinstance(test, ast.Compare) and len(test.ops) == 1 and \
            ast.unparse(test.left) in flags and \
            isinstance(test.comparators[0], ast.Constant):
        v = test.comparators[0].value
        op = test.ops[0]
        return (v is False and isinstance(op, (ast.Is, ast.Eq))) or \
            (v is True and isinstance(op, (ast.IsNot, ast.NotEq)))
    return False


def mirrors_edge_list(st, fnode=None) -> str | None:
    """`X = <concat>(X, X[:, [1, 0]] ...)`: the edge list X is extended by its
    column-swapped copy.  Returns X."""
    if not (isinstance(st, ast.Assign) and len(st.targets) == 1 and
            isinstance(st.targets[0], ast.Name)):
        return None
    x = st.targets[0].id
    swapped = plain = False
    value = st.value
    if fnode is not None:
        # the swapped copy may be bound to a local first
        defs = {k: v for k, v in single_defs(fnode).items() if k != x}
        value = inline_locals(fnode, st.value, defs=defs)
    for n in ast.walk(value):
        if isinstance(n, ast.Subscript) and isinstance(n.value, ast.Name) and \
                n.value.id == x and isinstance(n.slice, ast.Tuple) and \
                len(n.slice.elts) == 2:
            c = ast.unparse(n.slice.elts[1]).replace(" ", "")
            r = ast.unparse(n.slice.elts[0]).replace(" ", "")
            if r == ":" and c in ("[1,0]", "::-1", "(1,0)"):
                swapped = True
    if isinstance(value, ast.Call):
        for a in ast.walk(value):
            if isinstance(a, ast.Call):
                for arg in a.args:
                    els = arg.elts if isinstance(arg, (ast.Tuple, ast.List)) else [arg]
                    if any(isinstance(e, ast.Name) and e.id == x for e in els):
                        plain = True
    return x if swapped and plain else None


def single_defs(fn_node) -> dict:
    """name -> value for locals assigned exactly once in the function (simple
    `name = value` statements anywhere in its body)."""
    cnt, val = {}, {}
    for n in ast.walk(fn_node):
        if isinstance(n, ast.Assign):
            for t in n.targets:
                for x in ast.walk(t):
                    if isinstance(x, ast.Name) and isinstance(x.ctx, ast.Store):
                        cnt[x.id] = cnt.get(x.id, 0) + 1
                        if len(n.targets) == 1 and x is t:
                            val[x.id] = n.value
                        elif len(n.targets) == 1 and isinstance(t, (ast.Tuple, ast.List)) \
                                and isinstance(n.value, (ast.Tuple, ast.List)) and \
                                len(t.elts) == len(n.value.elts) and x in t.elts:
                            # a, b = x, y: element-wise
                            val[x.id] = n.value.elts[t.elts.index(x)]
        elif isinstance(n, (ast.AugAssign, ast.AnnAssign)) and isinstance(n.target, ast.Name):
            cnt[n.target.id] = cnt.get(n.target.id, 0) + 2
        elif isinstance(n, (ast.For, ast.comprehension)):
            for x in ast.walk(n.target):
                if isinstance(x, ast.Name):
                    cnt[x.id] = cnt.get(x.id, 0) + 2
    return {k: v for k, v in val.items() if cnt.get(k) == 1}


def inline_locals(fn_node, expr, depth=5, defs=None):
    """`expr` with every single-definition local replaced by its value
    (recursively): the value an argument has, independent of what the
    intermediate locals are called.  Returns an ast expression."""
    import copy
    defs = single_defs(fn_node) if defs is None else defs

    class T(ast.NodeTransformer):
        def __init__(self, d):
            self.d = d

        def visit_Name(self, n):
            if isinstance(n.ctx, ast.Load) and n.id in defs and self.d > 0:
                return T(self.d - 1).visit(copy.deepcopy(defs[n.id]))
            return n
    return T(depth).visit(copy.deepcopy(expr))


def strip_int(e):
    """int(x) / float(x) wrappers are irrelevant for identity of a quantity."""
    while isinstance(e, ast.Call) and isinstance(e.func, ast.Name) and \
            e.func.id in ("int", "float") and len(e.args) == 1:
        e = e.args[0]
    return e


def truthiness_flags(fnode, sn) -> set:
    """Attributes of `sn` (self) that the function tests for truthiness in an
    if / conditional expression (mode switches such as `self.missing_values`,
    `not self.sparse_rqa`), as opposed to attributes whose value is compared."""
    fl = set()

    def truth(e):
        if isinstance(e, ast.Attribute) and isinstance(e.value, ast.Name) and \
                e.value.id == sn:
            fl.add(e.attr)
        elif isinstance(e, ast.UnaryOp) and isinstance(e.op, ast.Not):
            truth(e.operand)
        elif isinstance(e, ast.BoolOp):
            for v in e.values:
                truth(v)
    for n in ast.walk(fnode):
        if isinstance(n, (ast.If, ast.IfExp)):
            truth(n.test)
    return fl


def diagonal_store(st, fnode=None):
    """(array text, value node) when `st` assigns one value to the whole main
    diagonal of an array, in any of the spellings of diagonal_clear_target (the
    value need not be zero); a slice bound to a local is looked up in `fnode`."""
    if isinstance(st, ast.Expr) and isinstance(st.value, ast.Call):
        c = st.value
        if _np(c.func, ("fill_diagonal",)) and len(c.args) >= 2:
            return ast.unparse(c.args[0]), c.args[1]
        return None
    if isinstance(st, ast.Call) and _np(st.func, ("fill_diagonal",)) and len(st.args) >= 2:
        return ast.unparse(st.args[0]), st.args[1]
    if not (isinstance(st, ast.Assign) and len(st.targets) == 1
            and isinstance(st.targets[0], ast.Subscript)):
        return None
    tg = st.targets[0]
    sl = tg.slice
    if fnode is not None:
        sl = inline_locals(fnode, sl)
    if isinstance(tg.value, ast.Attribute) and tg.value.attr == "flat":
        lower = step = None
        upper_ok = True
        if isinstance(sl, ast.Slice):
            lower, step = sl.lower, sl.step
        elif isinstance(sl, ast.Call) and isinstance(sl.func, ast.Name) and \
                sl.func.id == "slice" and len(sl.args) == 3:
            lower, step = sl.args[0], sl.args[2]
        else:
            return None
        low0 = lower is None or (isinstance(lower, ast.Constant) and lower.value in (0, None))
        if low0 and step is not None and _plus_one(step):
            return ast.unparse(tg.value.value), st.value
        return None
    probe = ast.Assign(targets=[ast.Subscript(value=tg.value, slice=sl, ctx=ast.Store())],
                       value=ast.Constant(value=0))
    t = diagonal_clear_target(probe)
    if t is not None:
        return t, st.value
    return None


def bind_call_args(h, call):
    """{parameter: argument expression} for the call `call` of the function
    definition `h` (positional, keyword and default arguments; the receiver of
    `obj.h(...)` is bound to `self`); None when the binding is not static."""
    if any(k_.arg is None for k_ in call.keywords) or \
            h.args.vararg or h.args.kwarg or h.args.kwonlyargs or \
            any(isinstance(a, ast.Starred) for a in call.args):
        return None
    params = [a.arg for a in h.args.args]
    args = list(call.args)
    if call.keywords or len(h.args.defaults):
        dflt = dict(zip(params[len(params) - len(h.args.defaults):], h.args.defaults))
        kw = {k_.arg: k_.value for k_ in call.keywords}
        implicit = 1 if params and params[0] in ("self", "cls") and not (
            isinstance(call.func, ast.Name)) else 0
        rest = params[implicit + len(args):]
        if set(kw) - set(rest):
            return None
        for p_ in rest:
            if p_ in kw:
                args.append(kw[p_])
            elif p_ in dflt:
                args.append(dflt[p_])
            else:
                return None
    is_static = any(ast.unparse(d) in ("staticmethod", "classmethod")
                    for d in h.decorator_list)
    if params and params[0] in ("self", "cls") and len(params) == len(args) + 1:
        if params[0] == "self" and not is_static and isinstance(call.func, ast.Attribute):
            args = [call.func.value] + args
        else:
            params = params[1:]
    if len(params) != len(args):
        return None
    return dict(zip(params, args))


def _subst_names(node, mapping):
    import copy

    class T(ast.NodeTransformer):
        def visit_Name(self, n):
            if isinstance(n.ctx, ast.Load) and n.id in mapping:
                return ast.copy_location(copy.deepcopy(mapping[n.id]), n)
            return n
    return T().visit(copy.deepcopy(node))


def returned_tuple(h, call, not_none=lambda name: False, tuple_type=lambda name: False):
    """The elements of the tuple the helper `h` returns for the call `call`, as
    expressions of the *caller's* scope: helper locals inlined, nested
    single-expression closures applied, parameters replaced by the arguments,
    `<dtype constant> is None` folded.  None when h does not end in one
    `return (a, b, ...)`."""
    rets = [n for n in ast.walk(h) if isinstance(n, ast.Return)]
    nested = {n.name: n for n in h.body if isinstance(n, ast.FunctionDef)}
    rets = [r for r in rets if not any(r in ast.walk(nf) for nf in nested.values())]
    if len(rets) != 1 or h.body[-1] is not rets[0] or rets[0].value is None:
        return None
    rv = rets[0].value
    if isinstance(rv, ast.Name):
        rv = inline_locals(h, rv, depth=1)
    if isinstance(rv, ast.Call) and isinstance(rv.func, ast.Name) and \
            tuple_type(rv.func.id) and not rv.keywords and \
            not any(isinstance(a_, ast.Starred) for a_ in rv.args):
        # a NamedTuple / namedtuple built positionally is the tuple of its fields
        elts = rv.args
    elif isinstance(rv, ast.Tuple):
        elts = rv.elts
    else:
        return None
    mp = bind_call_args(h, call)
    if mp is None:
        return None
    out = []
    for e in elts:
        e = inline_locals(h, e)
        # apply nested closures `def g(x): return <expr>`
        for _ in range(3):
            changed = False

            class A(ast.NodeTransformer):
                def visit_Call(self, n):
                    nonlocal changed
                    self.generic_visit(n)
                    if isinstance(n.func, ast.Name) and n.func.id in nested:
                        g = nested[n.func.id]
                        body = [b for b in g.body if not (
                            isinstance(b, ast.Expr) and isinstance(b.value, ast.Constant))]
                        if len(body) == 1 and isinstance(body[0], ast.Return) and \
                                body[0].value is not None:
                            gm = bind_call_args(g, n)
                            if gm is not None:
                                changed = True
                                return _subst_names(body[0].value, gm)
                    return n
            e = A().visit(e)
            if not changed:
                break
        e = _subst_names(e, mp)

        class Fold(ast.NodeTransformer):
            def visit_IfExp(self, n):
                self.generic_visit(n)
                t = n.test
                if isinstance(t, ast.Compare) and len(t.ops) == 1 and \
                        isinstance(t.comparators[0], ast.Constant) and \
                        t.comparators[0].value is None:
                    known = None
                    if isinstance(t.left, ast.Constant):
                        known = t.left.value is None
                    elif isinstance(t.left, ast.Name) and not_none(t.left.id):
                        known = False
                    if known is not None:
                        if isinstance(t.ops[0], ast.Is):
                            return n.body if known else n.orelse
                        if isinstance(t.ops[0], ast.IsNot):
                            return n.orelse if known else n.body
                return n
        out.append(ast.fix_missing_locations(Fold().visit(e)))
    return out


def expand_starred_args(call, resolve, not_none=lambda name: False,
                        tuple_type=lambda name: False, fnode=None):
    """Positional arguments of `call` with every `*obj.H(...)` replaced by the
    elements of the tuple H returns (resolve(name) -> FunctionDef | None);
    None when some starred argument cannot be expanded statically."""
    out = []
    for a in call.args:
        if not isinstance(a, ast.Starred):
            out.append(a)
            continue
        v = a.value
        if isinstance(v, ast.Name) and fnode is not None:
            # *name: the tuple the local was bound to (once)
            d = single_defs(fnode).get(v.id)
            if d is not None:
                v = d
        if isinstance(v, ast.Call) and isinstance(v.func, ast.Name) and \
                tuple_type(v.func.id) and not v.keywords and \
                not any(isinstance(x_, ast.Starred) for x_ in v.args):
            out.extend(v.args)
            continue
        if isinstance(v, (ast.Tuple, ast.List)):
            out.extend(v.elts)
            continue
        if not (isinstance(v, ast.Call) and isinstance(v.func, (ast.Attribute, ast.Name))):
            return None
        name = v.func.attr if isinstance(v.func, ast.Attribute) else v.func.id
        h = resolve(name)
        elts = returned_tuple(h, v, not_none, tuple_type) if h is not None else None
        if elts is None:
            return None
        out.extend(elts)
    return out


def inline_simple_helpers(fnode, resolve, depth=2):
    """Copy of the function `fnode` in which calls of small private helpers are
    replaced by what they stand for (resolve(name) -> FunctionDef | None):

      T = H(args)              H: straight-line body ending in `return e`
      for T in H(args): BODY   H: generator `for v in it: <pre>; yield e`

    Helper parameters are substituted by the argument expressions and helper
    locals get fresh names, so the rules see the statements the original,
    un-factored code consisted of."""
    import copy
    counter = [0]

    def subst(node, mapping):
        class T(ast.NodeTransformer):
            def visit_Name(self, n):
                if n.id in mapping:
                    new = copy.deepcopy(mapping[n.id])
                    if isinstance(new, ast.Name):
                        new.ctx = n.ctx
                    return ast.copy_location(new, n)
                return n
        return T().visit(copy.deepcopy(node))

    def prepare(call):
        if not (isinstance(call, ast.Call) and isinstance(call.func, (ast.Attribute,
                                                                       ast.Name))):
            return None
        name = call.func.attr if isinstance(call.func, ast.Attribute) else call.func.id
        h = resolve(name)
        if h is None or any(k_.arg is None for k_ in call.keywords) or \
                h.args.vararg or h.args.kwarg or h.args.kwonlyargs or \
                any(isinstance(a, ast.Starred) for a in call.args):
            return None
        params = [a.arg for a in h.args.args]
        args = list(call.args)
        if call.keywords or len(h.args.defaults):
            # bind keywords by name and omitted trailing parameters to defaults
            dflt = dict(zip(params[len(params) - len(h.args.defaults):],
                            h.args.defaults))
            kw = {k_.arg: k_.value for k_ in call.keywords}
            implicit = 1 if params and params[0] in ("self", "cls") and not (
                isinstance(call.func, ast.Name)) else 0
            rest = params[implicit + len(args):]
            if set(kw) - set(rest):
                return None
            for p_ in rest:
                if p_ in kw:
                    args.append(kw[p_])
                elif p_ in dflt:
                    args.append(dflt[p_])
                else:
                    return None
        is_static = any(ast.unparse(d) in ("staticmethod", "classmethod")
                        for d in h.decorator_list)
        if params and params[0] in ("self", "cls") and len(params) == len(args) + 1:
            if params[0] == "self" and not is_static and \
                    isinstance(call.func, ast.Attribute):
                # obj.H(a, b): the receiver is the helper's self
                args = [call.func.value] + args
            else:
                params = params[1:]
        if len(params) != len(args):
            return None
        body = [b for b in h.body if not (isinstance(b, ast.Expr) and
                                          isinstance(b.value, ast.Constant))]
        counter[0] += 1
        k = counter[0]
        locs = {n.id for b in body for n in ast.walk(b)
                if isinstance(n, ast.Name) and isinstance(n.ctx, ast.Store)}
        mapping = {p_: a for p_, a in zip(params, args)}
        # a parameter the helper rebinds (`if p is None: p = default`) is a local
        # that starts as the argument
        inits = []
        for p_ in [p_ for p_ in params if p_ in locs]:
            nm = f"_h{k}_{p_}"
            inits.append(ast.Assign(targets=[ast.Name(id=nm, ctx=ast.Store())],
                                    value=copy.deepcopy(mapping[p_])))
            mapping[p_] = ast.Name(id=nm, ctx=ast.Load())
        for l in locs:
            if l not in mapping:
                mapping[l] = ast.Name(id=f"_h{k}_{l}", ctx=ast.Load())
        if inits:
            for i_ in inits:
                ast.copy_location(i_, h)
                ast.fix_missing_locations(i_)
            body = inits + body
        return body, mapping

    def fixloc(nodes, lineno):
        for o in nodes:
            for n in ast.walk(o):
                if not hasattr(n, "lineno") or n.lineno is None:
                    n.lineno = lineno
                    n.col_offset = 0
                    n.end_lineno = lineno
                    n.end_col_offset = 0
        return nodes

    def alias(target, value, mapping, params):
        """`a, b = x, y` with x, y helper locals: let the helper compute straight
        into a, b (no bind statement needed).  -> True when applied."""
        ts = target.elts if isinstance(target, ast.Tuple) else [target]
        vs = value.elts if isinstance(value, ast.Tuple) else [value]
        if len(ts) != len(vs) or not all(isinstance(t, ast.Name) for t in ts) or \
                not all(isinstance(v, ast.Name) and v.id not in params for v in vs) or \
                len({v.id for v in vs}) != len(vs):
            return False
        for t, v in zip(ts, vs):
            mapping[v.id] = ast.Name(id=t.id, ctx=ast.Load())
        return True

    def expand(st):
        if isinstance(st, ast.Assign) and len(st.targets) == 1:
            pr = prepare(st.value)
            if pr is None:
                return None
            body, mapping = pr
            rets = [n for b in body for n in ast.walk(b) if isinstance(n, ast.Return)]
            if not (len(rets) == 1 and body and isinstance(body[-1], ast.Return)
                    and body[-1].value is not None):
                return None
            params = {k_ for k_, v_ in mapping.items() if not (
                isinstance(v_, ast.Name) and v_.id.startswith("_h"))}
            if alias(st.targets[0], body[-1].value, mapping, params):
                return fixloc([subst(b, mapping) for b in body[:-1]], st.lineno)
            out = [subst(b, mapping) for b in body[:-1]]
            out.append(ast.Assign(targets=[copy.deepcopy(st.targets[0])],
                                  value=subst(body[-1].value, mapping)))
            return fixloc(out, st.lineno)
        if isinstance(st, ast.Return) and isinstance(st.value, ast.Call):
            # return H(args): the helper's statements, then return its result
            pr = prepare(st.value)
            if pr is None:
                return None
            body, mapping = pr
            rets = [n for b in body for n in ast.walk(b) if isinstance(n, ast.Return)]
            if not (len(rets) == 1 and body and isinstance(body[-1], ast.Return)
                    and body[-1].value is not None):
                return None
            out = [subst(b, mapping) for b in body[:-1]]
            out.append(ast.Return(value=subst(body[-1].value, mapping)))
            return fixloc(out, st.lineno)
        if isinstance(st, ast.Expr) and isinstance(st.value, ast.Call):
            # a helper called for its effects: H(args) / obj.H(args)
            pr = prepare(st.value)
            if pr is None:
                return None
            body, mapping = pr
            # a result the caller discards: the trailing `return e` is dropped
            if body and isinstance(body[-1], ast.Return) and \
                    body[-1].value is not None and not any(
                        isinstance(n, ast.Call) for n in ast.walk(body[-1].value)):
                body = body[:-1]
            if any(isinstance(n, ast.Return) and n.value is not None
                   for b in body for n in ast.walk(b)) or \
                    any(isinstance(n, (ast.Yield, ast.YieldFrom))
                        for b in body for n in ast.walk(b)):
                return None
            if any(isinstance(n, ast.Return) for b in body[:-1] for n in ast.walk(b)):
                return None          # early returns are not modelled
            body = [b for b in body if not isinstance(b, ast.Return)]
            return fixloc([subst(b, mapping) for b in body], st.lineno)
        if isinstance(st, ast.For):
            pr = prepare(st.iter)
            if pr is None:
                return None
            body, mapping = pr
            if not (len(body) == 1 and isinstance(body[0], ast.For) and body[0].body and
                    isinstance(body[0].body[-1], ast.Expr) and
                    isinstance(body[0].body[-1].value, ast.Yield) and
                    body[0].body[-1].value.value is not None):
                return None
            ys = [n for n in ast.walk(body[0]) if isinstance(n, (ast.Yield, ast.YieldFrom))]
            if len(ys) != 1:
                return None
            g = body[0]
            params = {k_ for k_, v_ in mapping.items() if not (
                isinstance(v_, ast.Name) and v_.id.startswith("_h"))}
            aliased = alias(st.target, g.body[-1].value.value, mapping, params)
            pre = [subst(b, mapping) for b in g.body[:-1]]
            # leaving the generator ends the iteration: `return` there is `break`

            class _RetToBreak(ast.NodeTransformer):
                def visit_Return(self, n):
                    return ast.copy_location(ast.Break(), n) if n.value is None else n

                def visit_FunctionDef(self, n):
                    return n
            pre = [_RetToBreak().visit(b) for b in pre]
            bind = [] if aliased else [ast.Assign(
                targets=[copy.deepcopy(st.target)],
                value=subst(g.body[-1].value.value, mapping))]
            new = ast.For(target=subst(g.target, mapping), iter=subst(g.iter, mapping),
                          body=pre + bind + list(st.body), orelse=list(st.orelse))
            for x in ast.walk(new.target):
                if isinstance(x, ast.Name):
                    x.ctx = ast.Store()
            new.lineno = st.lineno
            return fixloc([new], st.lineno)
        return None

    def walk_block(stmts, d):
        out = []
        for st in stmts:
            ex = expand(st) if d > 0 else None
            if ex is not None:
                out.extend(walk_block(ex, d - 1))
                continue
            st = copy.copy(st)
            for fld in ("body", "orelse", "finalbody"):
                if isinstance(getattr(st, fld, None), list) and \
                        not isinstance(st, (ast.FunctionDef, ast.ClassDef)):
                    setattr(st, fld, walk_block(getattr(st, fld), d))
            if isinstance(st, ast.Try):
                hs = []
                for h_ in st.handlers:
                    h2 = copy.copy(h_)
                    h2.body = walk_block(h_.body, d)
                    hs.append(h2)
                st.handlers = hs
            out.append(st)
        return out
    new = copy.copy(fnode)
    new.body = walk_block(fnode.body, depth)
    return new


def is_bump_of(st, obj: str, cell: str) -> bool:
    """`obj.cell += c`, `obj.cell = obj.cell + c` or
    `setattr(obj, "cell", getattr(obj, "cell"[, d]) + c)` with c > 0."""
    def pos(c):
        return isinstance(c, ast.Constant) and isinstance(c.value, (int, float)) and \
            not isinstance(c.value, bool) and c.value > 0

    def reads(e):
        if isinstance(e, ast.Attribute) and ast.unparse(e) == f"{obj}.{cell}":
            return True
        return isinstance(e, ast.Call) and isinstance(e.func, ast.Name) and \
            e.func.id == "getattr" and len(e.args) >= 2 and \
            ast.unparse(e.args[0]) == obj and isinstance(e.args[1], ast.Constant) and \
            e.args[1].value == cell

    def plus(v):
        return isinstance(v, ast.BinOp) and isinstance(v.op, ast.Add) and (
            (reads(v.left) and pos(v.right)) or (reads(v.right) and pos(v.left)))
    if isinstance(st, ast.AugAssign) and isinstance(st.op, ast.Add) and \
            ast.unparse(st.target) == f"{obj}.{cell}" and pos(st.value):
        return True
    if isinstance(st, ast.Assign) and len(st.targets) == 1 and \
            ast.unparse(st.targets[0]) == f"{obj}.{cell}" and plus(st.value):
        return True
    if isinstance(st, ast.Expr) and isinstance(st.value, ast.Call) and \
            isinstance(st.value.func, ast.Name) and st.value.func.id == "setattr" and \
            len(st.value.args) == 3 and ast.unparse(st.value.args[0]) == obj and \
            isinstance(st.value.args[1], ast.Constant) and \
            st.value.args[1].value == cell and plus(st.value.args[2]):
        return True
    return False


def private_closure(prog, C, roots):
    """roots + the private helpers (self._x / cls._x / Class._x) they call,
    transitively: the code a method is built of."""
    out, work = [], list(roots)
    while work:
        f = work.pop()
        if f in out:
            continue
        out.append(f)
        sn = f.params[0] if f.params and f.kind != "static" else None
        for n in ast.walk(f.node):
            if isinstance(n, ast.Call) and isinstance(n.func, ast.Attribute) and \
                    isinstance(n.func.value, ast.Name) and n.func.attr.startswith("_") \
                    and not n.func.attr.startswith("__") and \
                    (n.func.value.id == sn or n.func.value.id in ("self", "cls") or
                     n.func.value.id in prog.classes):
                g = prog.lookup(C, n.func.attr)
                if g is not None and g not in out:
                    work.append(g)
            # a private module-level function called by its bare name
            elif isinstance(n, ast.Call) and isinstance(n.func, ast.Name) and \
                    n.func.id.startswith("_") and not n.func.id.startswith("__"):
                r = prog.resolve_name(f.module, n.func.id)
                if r and r[0] == "func" and r[1] not in out:
                    work.append(r[1])
    return out


def const_seq(expr, cls=None, classes=None):
    """[constants] when expr is a tuple/list/set literal of constants or a
    class-level name (self.X / cls.X / Class.X) bound to one; else None."""
    if isinstance(expr, (ast.Tuple, ast.List, ast.Set)) and all(
            isinstance(x, ast.Constant) for x in expr.elts):
        return [x.value for x in expr.elts]
    if isinstance(expr, ast.Attribute) and isinstance(expr.value, ast.Name):
        mro = []
        if classes and expr.value.id in classes:
            mro = classes[expr.value.id].mro
        elif cls is not None:
            mro = cls.mro
        for c in mro:
            for st in c.node.body:
                tgt = val = None
                if isinstance(st, ast.Assign) and len(st.targets) == 1:
                    tgt, val = st.targets[0], st.value
                elif isinstance(st, ast.AnnAssign):
                    tgt, val = st.target, st.value
                if isinstance(tgt, ast.Name) and tgt.id == expr.attr and val is not None:
                    return const_seq(val, cls, classes)
    return None


def fold_constants(node, consts: dict):
    """Copy of a function body with names / self attributes of `consts`
    replaced by constants, comparisons between constants evaluated, and
    if / conditional expressions / boolean operators with a constant test
    pruned."""
    import copy

    def const(e):
        return isinstance(e, ast.Constant)

    class F(ast.NodeTransformer):
        def visit_Name(self, n):
            if isinstance(n.ctx, ast.Load) and n.id in consts:
                return ast.copy_location(ast.Constant(consts[n.id]), n)
            return n

        def visit_Attribute(self, n):
            self.generic_visit(n)
            key = ast.unparse(n)
            if isinstance(n.ctx, ast.Load) and key in consts:
                return ast.copy_location(ast.Constant(consts[key]), n)
            return n

        def visit_Compare(self, n):
            self.generic_visit(n)
            if len(n.ops) == 1 and const(n.left) and const(n.comparators[0]):
                a, b = n.left.value, n.comparators[0].value
                op = n.ops[0]
                if isinstance(op, ast.Eq):
                    return ast.copy_location(ast.Constant(a == b), n)
                if isinstance(op, ast.NotEq):
                    return ast.copy_location(ast.Constant(a != b), n)
            if len(n.ops) == 1 and const(n.left) and isinstance(
                    n.comparators[0], (ast.Tuple, ast.List, ast.Set)) and all(
                    const(e) for e in n.comparators[0].elts):
                vals = [e.value for e in n.comparators[0].elts]
                if isinstance(n.ops[0], ast.In):
                    return ast.copy_location(ast.Constant(n.left.value in vals), n)
                if isinstance(n.ops[0], ast.NotIn):
                    return ast.copy_location(ast.Constant(n.left.value not in vals), n)
            return n

        def visit_UnaryOp(self, n):
            self.generic_visit(n)
            if isinstance(n.op, ast.Not) and const(n.operand):
                return ast.copy_location(ast.Constant(not n.operand.value), n)
            return n

        def visit_BoolOp(self, n):
            self.generic_visit(n)
            is_and = isinstance(n.op, ast.And)
            vals = []
            for v in n.values:
                if const(v):
                    if bool(v.value) != is_and:      # absorbing element
                        return ast.copy_location(ast.Constant(not is_and), n)
                    continue                          # neutral element
                vals.append(v)
            if not vals:
                return ast.copy_location(ast.Constant(is_and), n)
            if len(vals) == 1:
                return vals[0]
            n.values = vals
            return n

        def visit_IfExp(self, n):
            self.generic_visit(n)
            if const(n.test):
                return n.body if n.test.value else n.orelse
            return n

        def visit_If(self, n):
            n.test = self.visit(n.test)
            if const(n.test):
                out = []
                for st in (n.body if n.test.value else n.orelse):
                    r = self.visit(st)
                    out.extend(r if isinstance(r, list) else [r] if r is not None else [])
                return out or [ast.copy_location(ast.Pass(), n)]
            self.generic_visit(n)
            return n
    return F().visit(copy.deepcopy(node))


def normalise_enumerate_range(fnode):
    """`for i, x in enumerate(range(0, P * S, S)): BODY`  ->
    `for i in range(P): x = i * S; BODY`  (the same pairs (i, x), the loop the
    chunking rules know)."""
    import copy

    class T(ast.NodeTransformer):
        def visit_For(self, n):
            self.generic_visit(n)
            it = n.iter
            if not (isinstance(it, ast.Call) and isinstance(it.func, ast.Name) and
                    it.func.id == "enumerate" and len(it.args) == 1 and not it.keywords
                    and isinstance(n.target, ast.Tuple) and len(n.target.elts) == 2 and
                    all(isinstance(e, ast.Name) for e in n.target.elts)):
                return n
            r = it.args[0]
            if not (isinstance(r, ast.Call) and isinstance(r.func, ast.Name) and
                    r.func.id == "range" and len(r.args) == 3 and
                    isinstance(r.args[0], ast.Constant) and r.args[0].value == 0 and
                    isinstance(r.args[1], ast.BinOp) and
                    isinstance(r.args[1].op, ast.Mult)):
                return n
            step = ast.unparse(r.args[2])
            l, rr = r.args[1].left, r.args[1].right
            if ast.unparse(rr) == step:
                parts = l
            elif ast.unparse(l) == step:
                parts = rr
            else:
                return n
            idx, start = n.target.elts
            bind = ast.Assign(
                targets=[ast.Name(id=start.id, ctx=ast.Store())],
                value=ast.BinOp(left=ast.Name(id=idx.id, ctx=ast.Load()), op=ast.Mult(),
                                right=copy.deepcopy(r.args[2])))
            new = ast.For(target=ast.Name(id=idx.id, ctx=ast.Store()),
                          iter=ast.Call(func=ast.Name(id="range", ctx=ast.Load()),
                                        args=[copy.deepcopy(parts)], keywords=[]),
                          body=[bind] + n.body, orelse=n.orelse)
            ast.copy_location(new, n)
            for x in ast.walk(bind):
                ast.copy_location(x, n)
            return ast.fix_missing_locations(new)
    return T().visit(copy.deepcopy(fnode))


def expand_kwargs(fnode, resolve=None):
    """Calls `f(a=1, **D)` with a keyword dictionary D that can be read are
    rewritten with explicit keywords.  D may be a dict literal / `dict(k=v)`, a
    local with one such definition (plus `D.update(...)`), or the result of a
    private helper `self._h(**overrides)` whose body builds a dict literal,
    updates it with its `**overrides` and returns it.  `resolve(name)` gives the
    helper's FunctionDef or None."""
    import copy
    fnode = copy.deepcopy(fnode)

    def merged(parts):
        out = {}
        for d in parts:
            if d is None:
                return None
            out.update(d)
        return out

    def dict_of(e, scope, env, depth=0):
        """{key: value expr} or None"""
        if depth > 4:
            return None
        if isinstance(e, ast.Dict):
            parts = []
            for k, v in zip(e.keys, e.values):
                if k is None:
                    parts.append(dict_of(v, scope, env, depth + 1))
                elif isinstance(k, ast.Constant) and isinstance(k.value, str):
                    parts.append({k.value: v})
                else:
                    return None
            return merged(parts)
        if isinstance(e, ast.Call) and isinstance(e.func, ast.Name) and e.func.id == "dict" \
                and len(e.args) <= 1:
            parts = [dict_of(e.args[0], scope, env, depth + 1)] if e.args else []
            for k in e.keywords:
                parts.append({k.arg: k.value} if k.arg else
                             dict_of(k.value, scope, env, depth + 1))
            return merged(parts)
        if isinstance(e, ast.Name):
            if e.id in env:
                return dict(env[e.id])
            defs = [st for st in ast.walk(scope) if isinstance(st, ast.Assign) and
                    len(st.targets) == 1 and isinstance(st.targets[0], ast.Name) and
                    st.targets[0].id == e.id]
            if len(defs) != 1:
                return None
            d = dict_of(defs[0].value, scope, env, depth + 1)
            if d is None:
                return None
            for st in ast.walk(scope):
                if isinstance(st, ast.Expr) and isinstance(st.value, ast.Call) and \
                        isinstance(st.value.func, ast.Attribute) and \
                        isinstance(st.value.func.value, ast.Name) and \
                        st.value.func.value.id == e.id:
                    c = st.value
                    if c.func.attr != "update" or len(c.args) > 1:
                        return None
                    parts = [d]
                    if c.args:
                        parts.append(dict_of(c.args[0], scope, env, depth + 1))
                    for k in c.keywords:
                        parts.append({k.arg: k.value} if k.arg else
                                     dict_of(k.value, scope, env, depth + 1))
                    d = merged(parts)
                    if d is None:
                        return None
                elif isinstance(st, (ast.Subscript,)) and isinstance(st.ctx, ast.Store) and \
                        isinstance(st.value, ast.Name) and st.value.id == e.id:
                    return None
            return d
        if isinstance(e, ast.Call) and isinstance(e.func, ast.Attribute) and \
                isinstance(e.func.value, ast.Name) and resolve is not None:
            h = resolve(e.func.attr)
            if h is None or e.args:
                return None
            a = h.args
            if a.vararg or len(a.args) != 1:
                # (self, **overrides) or (self, *, k=..): keep to the simple shape
                if a.vararg or len(a.args) < 1:
                    return None
            given = {}
            for k in e.keywords:
                if k.arg:
                    given[k.arg] = k.value
                else:
                    d = dict_of(k.value, scope, env, depth + 1)
                    if d is None:
                        return None
                    given.update(d)
            names = [x.arg for x in a.args[1:]] + [x.arg for x in a.kwonlyargs]
            if names:
                return None
            if a.kwarg is None and given:
                return None
            henv = {a.kwarg.arg: given} if a.kwarg is not None else {}
            rets = [r for r in ast.walk(h) if isinstance(r, ast.Return)]
            if len(rets) != 1 or rets[0].value is None:
                return None
            d = dict_of(rets[0].value, h, henv, depth + 1)
            if d is None:
                return None
            # the helper's self is the caller's receiver
            hself = a.args[0].arg
            recv = e.func.value

            class S(ast.NodeTransformer):
                def visit_Name(self, n):
                    return ast.copy_location(copy.deepcopy(recv), n) if n.id == hself else n
            return {k: (S().visit(copy.deepcopy(v)) if v not in given.values() else v)
                    for k, v in d.items()}
        return None

    class T(ast.NodeTransformer):
        def visit_Call(self, c):
            self.generic_visit(c)
            if not any(k.arg is None for k in c.keywords):
                return c
            kws = []
            for k in c.keywords:
                if k.arg is not None:
                    kws.append(k)
                    continue
                d = dict_of(k.value, fnode, {})
                if d is None:
                    return c
                for kk, vv in d.items():
                    kws.append(ast.keyword(arg=kk, value=vv))
            if len({k.arg for k in kws}) != len(kws):
                return c
            c.keywords = kws
            return ast.fix_missing_locations(c)
    return T().visit(fnode)


def normalise_chunk_table(fnode):
    """A chunk table built by one comprehension and consumed by loops,
        T = [(S(k), E(k)) for k in range(P)]
        for i, (a, b) in enumerate(T): BODY        |  for a, b in T: BODY
        for i in range(len(T)): ...
    is the loop the chunking rules know:
        for i in range(P): a = S(i); b = E(i); BODY
        for i in range(P): ...
    Only when T has exactly that one definition in the function and is used
    nowhere else."""
    import copy
    fnode = copy.deepcopy(fnode)
    defs = {}
    for n in ast.walk(fnode):
        if isinstance(n, ast.Assign) and len(n.targets) == 1 and \
                isinstance(n.targets[0], ast.Name):
            defs.setdefault(n.targets[0].id, []).append(n)
    tables = {}
    for name, ds in defs.items():
        if len(ds) != 1:
            continue
        v = ds[0].value
        if isinstance(v, ast.Call) and isinstance(v.func, ast.Name) and \
                v.func.id in ("list", "tuple") and len(v.args) == 1 and not v.keywords:
            v = v.args[0]
        if not (isinstance(v, (ast.ListComp, ast.GeneratorExp)) and
                len(v.generators) == 1 and not v.generators[0].ifs and
                isinstance(v.generators[0].target, ast.Name) and
                isinstance(v.elt, ast.Tuple) and len(v.elt.elts) == 2):
            continue
        if isinstance(v, ast.GeneratorExp) and v is ds[0].value:
            continue            # a one-shot generator, not a table
        g = v.generators[0]
        if not (isinstance(g.iter, ast.Call) and isinstance(g.iter.func, ast.Name) and
                g.iter.func.id == "range" and len(g.iter.args) == 1):
            continue
        tables[name] = (g.target.id, v.elt.elts[0], v.elt.elts[1], g.iter.args[0], ds[0])
    if not tables:
        return fnode

    def subst(e, var, by):
        class S(ast.NodeTransformer):
            def visit_Name(self, n):
                return ast.copy_location(ast.Name(id=by, ctx=ast.Load()), n) \
                    if n.id == var and isinstance(n.ctx, ast.Load) else n
        return S().visit(copy.deepcopy(e))

    for name, (var, se, ee, parts, defst) in list(tables.items()):
        # every use must be one of the three forms
        uses = [n for n in ast.walk(fnode) if isinstance(n, ast.Name) and n.id == name
                and isinstance(n.ctx, ast.Load)]
        ok_uses = set()
        for n in ast.walk(fnode):
            if isinstance(n, ast.For):
                it = n.iter
                if isinstance(it, ast.Name) and it.id == name:
                    ok_uses.add(id(it))
                elif isinstance(it, ast.Call) and isinstance(it.func, ast.Name) and \
                        it.func.id == "enumerate" and len(it.args) == 1 and \
                        isinstance(it.args[0], ast.Name) and it.args[0].id == name:
                    ok_uses.add(id(it.args[0]))
            if isinstance(n, ast.Call) and isinstance(n.func, ast.Name) and \
                    n.func.id == "len" and len(n.args) == 1 and \
                    isinstance(n.args[0], ast.Name) and n.args[0].id == name:
                ok_uses.add(id(n.args[0]))
        if any(id(u) not in ok_uses for u in uses):
            del tables[name]
    if not tables:
        return fnode
    fresh = [0]

    class T(ast.NodeTransformer):
        def visit_Call(self, n):
            self.generic_visit(n)
            if isinstance(n.func, ast.Name) and n.func.id == "len" and len(n.args) == 1 \
                    and isinstance(n.args[0], ast.Name) and n.args[0].id in tables:
                return ast.copy_location(copy.deepcopy(tables[n.args[0].id][3]), n)
            return n

        def visit_For(self, n):
            it = n.iter
            name = idx = pair = None
            if isinstance(it, ast.Name) and it.id in tables and \
                    isinstance(n.target, ast.Tuple) and len(n.target.elts) == 2 and \
                    all(isinstance(e, ast.Name) for e in n.target.elts):
                name, pair = it.id, n.target.elts
                fresh[0] += 1
                idx = f"_chunk{fresh[0]}"
            elif isinstance(it, ast.Call) and isinstance(it.func, ast.Name) and \
                    it.func.id == "enumerate" and len(it.args) == 1 and \
                    isinstance(it.args[0], ast.Name) and it.args[0].id in tables and \
                    isinstance(n.target, ast.Tuple) and len(n.target.elts) == 2 and \
                    isinstance(n.target.elts[0], ast.Name) and \
                    isinstance(n.target.elts[1], ast.Tuple) and \
                    len(n.target.elts[1].elts) == 2 and \
                    all(isinstance(e, ast.Name) for e in n.target.elts[1].elts):
                name, idx, pair = it.args[0].id, n.target.elts[0].id, n.target.elts[1].elts
            self.generic_visit(n)
            if name is None:
                return n
            var, se, ee, parts, _ = tables[name]
            binds = [ast.Assign(targets=[ast.Name(id=pair[0].id, ctx=ast.Store())],
                                value=subst(se, var, idx)),
                     ast.Assign(targets=[ast.Name(id=pair[1].id, ctx=ast.Store())],
                                value=subst(ee, var, idx))]
            new = ast.For(target=ast.Name(id=idx, ctx=ast.Store()),
                          iter=ast.Call(func=ast.Name(id="range", ctx=ast.Load()),
                                        args=[copy.deepcopy(parts)], keywords=[]),
                          body=binds + n.body, orelse=n.orelse)
            ast.copy_location(new, n)
            for b in binds:
                for x in ast.walk(b):
                    ast.copy_location(x, n)
            return ast.fix_missing_locations(new)

    out = T().visit(fnode)
    # the table definitions stay (harmless: nothing reads them any more)
    return out


def resolve_default_idiom(fnode):
    """`x = V` followed (in the same block, x untouched in between) by `if x is
    None: x = E` is one definition of x: E when V is the literal None, V when V
    is another literal, `V if V is not None else E` otherwise (the
    optional-parameter idiom after inlining)."""
    import copy

    def is_default_if(st):
        return isinstance(st, ast.If) and not st.orelse and len(st.body) == 1 and \
            isinstance(st.test, ast.Compare) and len(st.test.ops) == 1 and \
            isinstance(st.test.ops[0], ast.Is) and isinstance(st.test.left, ast.Name) and \
            isinstance(st.test.comparators[0], ast.Constant) and \
            st.test.comparators[0].value is None and \
            isinstance(st.body[0], ast.Assign) and len(st.body[0].targets) == 1 and \
            isinstance(st.body[0].targets[0], ast.Name) and \
            st.body[0].targets[0].id == st.test.left.id

    def fix(stmts):
        out = []
        for st in stmts:
            if is_default_if(st):
                x = st.test.left.id
                j = None
                for k in range(len(out) - 1, -1, -1):
                    prev = out[k]
                    writes = {n.id for n in ast.walk(prev) if isinstance(n, ast.Name)
                              and isinstance(n.ctx, ast.Store)}
                    if x in writes:
                        if isinstance(prev, ast.Assign) and len(prev.targets) == 1 and \
                                isinstance(prev.targets[0], ast.Name):
                            j = k
                        break
                if j is not None:
                    V, E = out[j].value, st.body[0].value
                    if isinstance(V, ast.Constant) and V.value is None:
                        val = E
                    elif isinstance(V, ast.Constant):
                        val = V
                    else:
                        val = ast.IfExp(
                            test=ast.Compare(left=copy.deepcopy(V), ops=[ast.IsNot()],
                                             comparators=[ast.Constant(None)]),
                            body=copy.deepcopy(V), orelse=E)
                    new = ast.Assign(targets=[out[j].targets[0]], value=val)
                    ast.copy_location(new, out[j])
                    out[j] = ast.fix_missing_locations(new)
                    continue
            for fld in ("body", "orelse", "finalbody"):
                if isinstance(getattr(st, fld, None), list) and \
                        not isinstance(st, (ast.FunctionDef, ast.ClassDef)):
                    setattr(st, fld, fix(getattr(st, fld)))
            out.append(st)
        return out
    node = copy.deepcopy(fnode)
    node.body = fix(node.body)
    return node
