"""C13 - data windows and anomalies: clauses D1..D4."""
from __future__ import annotations

import ast

from .pymodel import Program, iter_events
from .report import Run, AnalysisError

FULL = {"_full_observable", "_full_grid"}


def _private_closure(prog, C, roots):
    """roots + the private helpers (methods or module-level functions) they
    call, transitively."""
    from .idioms import private_closure
    return private_closure(prog, C, roots)


def d1(run: Run, prog: Program):
    """Derived series see only the window."""
    fam = [c for c in prog.classes.values() if any(b.name == "Data" for b in c.mro)]
    run.floor("Data family", len(fam), 2, hard=True)
    n = 0
    for C in sorted(fam, key=lambda c: c.name):
        roots = [m_ for m_ in (prog.lookup(C, "__init__"), prog.lookup(C, "set_window"))
                 if m_ is not None]
        # the constructor, set_window and the private helpers they are built of
        window_code = {g for g in _private_closure(prog, C, roots)
                       if g in roots or g.name.startswith("_")}
        # ... provided nobody else calls those helpers
        for g in list(window_code):
            if g in roots:
                continue
            for h in C.methods.values():
                if h in window_code:
                    continue
                if any(isinstance(n, ast.Call) and isinstance(n.func, ast.Attribute)
                       and n.func.attr == g.name for n in ast.walk(h.node)):
                    window_code.discard(g)
        for f in list(C.methods.values()):
            if f.kind != "method" or not f.params:
                continue
            sn = f.params[0]
            for node in ast.walk(f.node):
                if isinstance(node, ast.Attribute) and isinstance(node.value, ast.Name) \
                        and node.value.id == sn and node.attr in FULL and \
                        isinstance(node.ctx, ast.Load):
                    n += 1
                    allowed = f.name in ("__init__", "set_window") or f in window_code
                    # accepted: base of a `.silence_level = ...` store
                    parent_store = False
                    for st in ast.walk(f.node):
                        if isinstance(st, ast.Assign):
                            for t in st.targets:
                                if isinstance(t, ast.Attribute) and t.value is node and \
                                        t.attr == "silence_level":
                                    parent_store = True
                    ok = allowed or parent_store
                    run.oblige("D1", f"{f.qualname}:{node.attr}@{node.lineno}", ok,
                               sample={"where": f"{f.module.relpath}:{node.lineno}"})
                    if not ok:
                        run.add("D1", f"{f.qualname}/{node.attr}",
                                f"{f.module.relpath}:{node.lineno}",
                                f"{f.qualname} reads `{node.attr}` (the unwindowed "
                                f"data) directly; every derived series must be computed "
                                f"from the windowed view (`observable()` / `grid`), "
                                f"otherwise shapes and contents ignore the window")
    run.floor("D1 reads of the full data", n, 5)


def d2(run: Run, prog: Program):
    """Window setters funnel into set_window and invalidate."""
    data = prog.classes.get("Data")
    cd = prog.classes.get("ClimateData")
    if data is None or cd is None:
        raise AnalysisError("Data / ClimateData vanished")
    g = data.methods.get("set_global_window")
    calls = [c for c in ast.walk(g.node) if isinstance(c, ast.Call)
             and ast.unparse(c.func) == "self.set_window"]
    ok = len(calls) == 1
    run.oblige("D2", "Data.set_global_window:virtual", ok, sample={"where": g.where})
    if not ok:
        run.add("D2", "Data.set_global_window/funnel", g.where,
                "Data.set_global_window must go through the overridable "
                "`self.set_window(...)` so that subclasses' invalidation runs")
    # the global window passes coinciding bounds on every axis
    if calls:
        arg = calls[0].args[0] if calls[0].args else None
        d = None
        for st in ast.walk(g.node):
            if isinstance(st, ast.Assign) and isinstance(arg, ast.Name) and \
                    isinstance(st.targets[0], ast.Name) and st.targets[0].id == arg.id \
                    and isinstance(st.value, ast.Dict):
                d = st.value
        if d is not None:
            kv = {k.value: ast.unparse(v) for k, v in zip(d.keys, d.values)
                  if isinstance(k, ast.Constant)}
            okb = all(kv.get(f"{a}_min") == kv.get(f"{a}_max") and f"{a}_min" in kv
                      for a in ("time", "lat", "lon"))
            run.oblige("D2", "Data.set_global_window:bounds", okb, sample={"window": kv})
            if not okb:
                run.add("D2", "Data.set_global_window/bounds", g.where,
                        f"the global window must have coinciding bounds on every axis "
                        f"(selects the full range), got {kv}")
    for mname in ("set_window", "set_global_window"):
        m = cd.methods.get(mname)
        if m is None:
            raise AnalysisError(f"ClimateData.{mname} vanished")
        t = prog.tree(m, cd, {})
        evs = list(iter_events(t))
        wrote = any(e.kind in ("write", "assign") and e.cell == "_observable" for e in evs)
        bumped = any(e.kind == "bump" and e.cell == "_mut_window" for e in evs)
        if not wrote:
            # the base setter handed to a private helper as a function value:
            # `self._apply(Data.set_window, window)` with `fn(self, *args)` inside
            for c in ast.walk(m.node):
                if not (isinstance(c, ast.Call) and isinstance(c.func, ast.Attribute) and
                        isinstance(c.func.value, ast.Name) and
                        c.func.value.id == (m.params[0] if m.params else "self")):
                    continue
                h = prog.lookup(cd, c.func.attr)
                if h is None or not h.name.startswith("_") or len(h.params) < 2:
                    continue
                for pos, a in enumerate(c.args):
                    if isinstance(a, ast.Attribute) and isinstance(a.value, ast.Name) and \
                            a.value.id in prog.classes and \
                            prog.is_subclass(cd, a.value.id) and \
                            a.attr in ("set_window", "set_global_window") and \
                            pos + 1 < len(h.params):
                        pname = h.params[pos + 1]
                        base = prog.lookup(prog.classes[a.value.id], a.attr)
                        if base is not None and any(
                                isinstance(k, ast.Call) and isinstance(k.func, ast.Name)
                                and k.func.id == pname and k.args and
                                isinstance(k.args[0], ast.Name) and
                                k.args[0].id == h.params[0] for k in ast.walk(h.node)):
                            bt = prog.tree(base, prog.classes[a.value.id], {})
                            wrote = wrote or any(
                                e.kind in ("write", "assign") and e.cell == "_observable"
                                for e in iter_events(bt))
        ok = wrote and bumped
        run.oblige("D2", f"ClimateData.{mname}", ok, sample={
            "where": m.where, "rewrites_view": wrote, "bumps": bumped})
        if not ok:
            run.add("D2", f"ClimateData.{mname}/invalidate", m.where,
                    f"ClimateData.{mname} must delegate to the base window setter and "
                    f"bump `_mut_window` (rewrites view: {wrote}, bumps: {bumped})")


def d3(run: Run, prog: Program):
    """Closed-interval sibling form of the axis masks in Data.set_window (and
    the private helpers it is built of)."""
    data = prog.classes["Data"]
    m = data.methods.get("set_window")
    if m is None:
        raise AnalysisError("Data.set_window vanished")
    n = 0
    pairs = {}
    FLIP = {"GtE": "LtE", "LtE": "GtE", "Gt": "Lt", "Lt": "Gt", "Eq": "Eq",
            "NotEq": "NotEq"}
    code = [g for g in _private_closure(prog, data, [m]) if g is m or
            g.name.startswith("_")]

    def window_names(f):
        # the parameter(s) through which the window dict reaches f: whatever is
        # subscripted with one of the bound keys
        out = set()
        for n_ in ast.walk(f.node):
            if isinstance(n_, ast.Subscript) and isinstance(n_.value, ast.Name) and \
                    n_.value.id in f.params and isinstance(n_.slice, ast.Constant) and \
                    isinstance(n_.slice.value, str) and \
                    n_.slice.value.endswith(("_min", "_max")):
                out.add(n_.value.id)
        return out

    def key_aliases(f):
        """local name -> window key, for `a = w["k"]` and tuple forms"""
        wn = window_names(f)
        al = {}

        def direct(e):
            if isinstance(e, ast.Subscript) and isinstance(e.value, ast.Name) and \
                    e.value.id in wn and isinstance(e.slice, ast.Constant) and \
                    isinstance(e.slice.value, str) and \
                    e.slice.value.endswith(("_min", "_max")):
                return e.slice.value
            return None
        for a_ in ast.walk(f.node):
            if not isinstance(a_, ast.Assign) or len(a_.targets) != 1:
                continue
            t, v = a_.targets[0], a_.value
            if isinstance(t, ast.Name) and direct(v):
                al[t.id] = direct(v)
            elif isinstance(t, ast.Tuple) and isinstance(v, ast.Tuple) and \
                    len(t.elts) == len(v.elts):
                for x, y in zip(t.elts, v.elts):
                    if isinstance(x, ast.Name) and direct(y):
                        al[x.id] = direct(y)
        return al, direct
    bound_key_of = {}
    for f in code:
        al, direct = key_aliases(f)

        def bk(e, al=al, direct=direct):
            if isinstance(e, ast.Name) and e.id in al:
                return al[e.id]
            return direct(e)
        bound_key_of[f] = bk
    short_axes = set()
    ret_axes = {}           # helper -> axes its returned masks are built from
    for f in code:
        bk = bound_key_of[f]
        for c in ast.walk(f.node):
            if not (isinstance(c, ast.Compare) and len(c.ops) == 1):
                continue
            kl, kr = bk(c.left), bk(c.comparators[0])
            if kl is not None and kr is not None:
                # min == max short-cut
                if isinstance(c.ops[0], ast.Eq) and kl.rsplit("_", 1)[0] == \
                        kr.rsplit("_", 1)[0]:
                    short_axes.add(kl.rsplit("_", 1)[0])
                continue
            if kl is None and kr is None:
                continue
            op = type(c.ops[0]).__name__
            if kl is not None:      # bound on the left: read it array-first
                op = FLIP.get(op, op)
            key = kr or kl
            n += 1
            axis, kind = key.rsplit("_", 1)
            pairs.setdefault(axis, {})[kind] = (op, c.lineno)
        from .idioms import inline_locals as _il, single_defs as _sd
        _defs = {k_: v_ for k_, v_ in _sd(f.node).items()
                 if any(isinstance(c_, ast.Compare) for c_ in ast.walk(v_))}
        for r in ast.walk(f.node):
            if isinstance(r, ast.Return) and r.value is not None:
                rv = _il(f.node, r.value, defs=_defs)
                ks = {bk(x) for c in ast.walk(rv) if isinstance(c, ast.Compare)
                      for x in [c.left] + c.comparators} - {None}
                # masks bound in several branches (if bounds coincide: all True,
                # else: the comparisons): every definition counts
                for nm_ in [x.id for x in ast.walk(rv) if isinstance(x, ast.Name)]:
                    for a_ in ast.walk(f.node):
                        if isinstance(a_, ast.Assign) and any(
                                isinstance(t_, ast.Name) and t_.id == nm_
                                for t_ in a_.targets):
                            ks |= {bk(x) for c in ast.walk(a_.value)
                                   if isinstance(c, ast.Compare)
                                   for x in [c.left] + c.comparators} - {None}
                for k in ks:
                    ret_axes.setdefault(f.name, set()).add(k.rsplit("_", 1)[0])
    for axis, d in sorted(pairs.items()):
        ok = d.get("min", ("", 0))[0] == "GtE" and d.get("max", ("", 0))[0] == "LtE"
        run.oblige("D3", f"axis:{axis}", ok, sample={"relations": d})
        if not ok:
            ln = (d.get("min") or d.get("max"))[1]
            run.add("D3", f"Data.set_window/{axis}", f"{m.module.relpath}:{ln}",
                    f"Data.set_window selects the {axis} axis with {d}; the window is "
                    f"closed: `>= {axis}_min` and `<= {axis}_max` like its sibling "
                    f"axes")
    run.floor("D3 axis bound comparisons", n, 3)
    if n == 0:
        # the window keys are computed (a table of bound names, closures): the
        # comparisons cannot be attributed to axes; the short-cut and the view
        # selection are not decided either
        run.unknowns.append("D3: Data.set_window compares no literal window bound "
                            "(`window['lat_min']` ...) with a coordinate array; the "
                            "closed-interval form, the coinciding-bounds short-cut and "
                            "the view selection are not decided")
        return
    # coinciding bounds => full range short-cut for both masks
    axes = sorted(short_axes)
    ok = axes == ["lat", "lon", "time"]
    run.oblige("D3", "coinciding-bounds-shortcut", ok, sample={"axes": axes})
    if not ok:
        run.add("D3", "Data.set_window/shortcut", m.where,
                f"the 'bounds coincide => full range' short-cut must exist for time, "
                f"lat and lon; found for {axes}")
    # the stored view is selected with exactly these masks, by fancy indexing
    st = [s for s in ast.walk(m.node) if isinstance(s, ast.Assign)
          and ast.unparse(s.targets[0]) == "self._observable"]
    # masks: the locals assigned from the bound comparisons, directly or through
    # a helper that returns them
    masks = {}
    bk = bound_key_of[m]
    for a_ in ast.walk(m.node):
        if isinstance(a_, ast.Assign) and isinstance(a_.targets[0], ast.Name):
            keys = {bk(x) for c in ast.walk(a_.value) if isinstance(c, ast.Compare)
                    for x in [c.left] + c.comparators} - {None}
            for k in keys:
                masks.setdefault(a_.targets[0].id, set()).add(k.rsplit("_", 1)[0])
            for c in ast.walk(a_.value):
                if isinstance(c, ast.Call) and isinstance(c.func, ast.Attribute) and \
                        c.func.attr in ret_axes:
                    masks.setdefault(a_.targets[0].id, set()).update(ret_axes[c.func.attr])
                elif isinstance(c, ast.Call) and isinstance(c.func, ast.Name) and \
                        c.func.id in ret_axes:
                    masks.setdefault(a_.targets[0].id, set()).update(ret_axes[c.func.id])
    ok = False
    if len(st) == 1:
        v = st[0].value
        used = set()
        base = v
        while isinstance(base, ast.Subscript):
            used |= {x.id for x in ast.walk(base.slice) if isinstance(x, ast.Name)}
            base = base.value
        got = set().union(*[masks.get(u, set()) for u in used] or [set()])
        ok = ast.unparse(base) == "self._full_observable" and \
            {"time", "lat", "lon"} <= got
    run.oblige("D3", "view-selection", ok, sample={
        "value": ast.unparse(st[0].value) if st else None})
    if not ok:
        run.add("D3", "Data.set_window/view", m.where,
                "the windowed observable must be `_full_observable` indexed by the "
                "time mask and the space mask built from the window bounds (a copy "
                "selected by exactly these masks)")


def d6(run: Run, prog: Program):
    """A window setter that remembers its last argument for an "already
    selected" short-cut must remember a *copy*: the window is a mutable dict the
    caller keeps (and typically updates in place for a sliding window); stored
    by reference, the remembered window changes with the caller's dict, the
    comparison is always true and the view never follows."""
    n = 0
    for cname in ("Data", "ClimateData"):
        C = prog.classes.get(cname)
        if C is None:
            continue
        for f in sorted(C.methods.values(), key=lambda f: f.name):
            if not f.params or "window" not in f.name:
                continue
            sn = f.params[0]
            params = set(f.params[1:])
            # cells compared with a parameter in a guard that returns early
            memo = set()
            for st in ast.walk(f.node):
                if isinstance(st, ast.If) and any(isinstance(x, ast.Return) for x in st.body):
                    for c in ast.walk(st.test):
                        if isinstance(c, ast.Compare) and len(c.ops) == 1 and \
                                isinstance(c.ops[0], (ast.Eq, ast.Is)):
                            for a, b in ((c.left, c.comparators[0]),
                                         (c.comparators[0], c.left)):
                                if isinstance(a, ast.Name) and a.id in params and \
                                        isinstance(b, ast.Attribute) and \
                                        isinstance(b.value, ast.Name) and b.value.id == sn:
                                    memo.add((b.attr, a.id))
            for (cell, p_) in sorted(memo):
                n += 1
                byref = [a for a in ast.walk(f.node) if isinstance(a, ast.Assign)
                         and any(isinstance(t, ast.Attribute) and t.attr == cell
                                 and isinstance(t.value, ast.Name) and t.value.id == sn
                                 for t in a.targets)
                         and isinstance(a.value, ast.Name) and a.value.id == p_]
                run.oblige("D6", f"{f.qualname}:{cell}", not byref)
                for a in byref:
                    run.add("D6", f"{f.qualname}/memo-by-reference/{cell}",
                            f"{f.module.relpath}:{a.lineno}",
                            f"{f.qualname} skips its work when `{p_} == self.{cell}` and "
                            f"stores `self.{cell} = {p_}` by reference: after the caller "
                            f"updates its dict in place the comparison is always true, so "
                            f"the window is never applied and observable / grid stay on "
                            f"the old window")
    run.count("D6", n)


def d5(run: Run, prog: Program):
    """phase_mean() and anomaly() are siblings: anomalies add back to the
    observable with the phase means only if both select the samples of a phase
    in the same way.  The selectors they apply to the windowed observable are
    compared (loop variable and locals normalised); a method that selects phases
    in another way than its sibling is reported."""
    from .idioms import inline_locals
    cd = prog.classes.get("ClimateData")
    if cd is None:
        raise AnalysisError("ClimateData vanished")
    sel = {}
    for mname in ("phase_mean", "anomaly"):
        m = cd.methods.get(mname)
        if m is None:
            raise AnalysisError(f"ClimateData.{mname} vanished")
        sn = m.params[0]
        # names bound to the windowed observable
        obs = {f"{sn}.observable()"}
        for a in ast.walk(m.node):
            if isinstance(a, ast.Assign) and isinstance(a.targets[0], ast.Name) and \
                    ast.unparse(a.value) in obs:
                obs.add(a.targets[0].id)
        # loop variables are named after what they iterate over, so that two
        # loops over the same sequence give the same selector text
        loopvars = {}
        for n in ast.walk(m.node):
            if not isinstance(n, (ast.For, ast.comprehension)):
                continue
            it = inline_locals(m.node, n.iter)
            tg = n.target
            if isinstance(it, ast.Call) and isinstance(it.func, ast.Name) and \
                    it.func.id == "enumerate" and it.args and \
                    isinstance(tg, ast.Tuple) and len(tg.elts) == 2:
                it, tg = it.args[0], tg.elts[1]
            if isinstance(tg, ast.Name):
                src = ast.unparse(_rename(it, sn, "self")).replace(" ", "")
                loopvars[tg.id] = f"EACH[{src}]"
        out = set()
        for sub in ast.walk(m.node):
            if isinstance(sub, ast.Subscript) and isinstance(sub.ctx, ast.Load) and \
                    ast.unparse(sub.value) in obs:
                sl = inline_locals(m.node, sub.slice)
                # X[a, :] and X[a] select the same rows
                if isinstance(sl, ast.Tuple):
                    elts = list(sl.elts)
                    while len(elts) > 1 and isinstance(elts[-1], ast.Slice) and \
                            elts[-1].lower is None and elts[-1].upper is None and \
                            elts[-1].step is None:
                        elts.pop()
                    sl = elts[0] if len(elts) == 1 else ast.Tuple(elts=elts, ctx=ast.Load())
                for v, tok in loopvars.items():
                    sl = _rename(sl, v, tok)
                # `self` may be spelled differently in the two methods
                sl = _rename(sl, sn, "self")
                out.add(ast.unparse(sl).replace(" ", ""))
        # selection delegated to a private helper that gets the observable (or a
        # copy of it): the helper's subscripts of that parameter, on the branches
        # the call's constant arguments select
        copies = set(obs)
        for a in ast.walk(m.node):
            if isinstance(a, ast.Assign) and isinstance(a.targets[0], ast.Name) and \
                    isinstance(a.value, ast.Call) and a.value.args and \
                    ast.unparse(a.value.func) in ("np.array", "np.asarray", "np.copy") and \
                    ast.unparse(a.value.args[0]) in obs:
                copies.add(a.targets[0].id)
        for c in ast.walk(m.node):
            if not (isinstance(c, ast.Call) and isinstance(c.func, ast.Attribute) and
                    isinstance(c.func.value, ast.Name) and c.func.value.id == sn and
                    c.func.attr.startswith("_") and not c.func.attr.startswith("__")):
                continue
            h = prog.lookup(cd, c.func.attr)
            if h is None or len(h.params) < 2:
                continue
            bound = {}
            hp = h.params[1:]
            for p_, a_ in zip(hp, c.args):
                bound[p_] = a_
            for k in c.keywords:
                if k.arg in hp:
                    bound[k.arg] = k.value
            for p_, d_ in h.defaults().items():
                bound.setdefault(p_, d_)
            series = [p_ for p_, a_ in bound.items() if ast.unparse(a_) in copies]
            if len(series) != 1:
                continue
            consts = {p_: a_.value for p_, a_ in bound.items()
                      if isinstance(a_, ast.Constant)}
            hsn = h.params[0]

            def taken(stmts):
                """statements reached under the constant arguments"""
                out_ = []
                for st in stmts:
                    if isinstance(st, ast.If):
                        t = st.test
                        neg = isinstance(t, ast.UnaryOp) and isinstance(t.op, ast.Not)
                        nm = t.operand if neg else t
                        if isinstance(nm, ast.Name) and nm.id in consts:
                            v = bool(consts[nm.id]) != neg
                            sub = taken(st.body if v else st.orelse)
                            out_ += sub
                            if sub and isinstance(sub[-1], ast.Return):
                                return out_
                            continue
                    out_.append(st)
                    if isinstance(st, ast.Return):
                        return out_
                return out_
            hl = {}
            for st in taken(h.node.body):
                for n in ast.walk(st):
                    if isinstance(n, (ast.For, ast.comprehension)) and \
                            isinstance(n.target, ast.Name):
                        it = inline_locals(h.node, n.iter)
                        src = ast.unparse(_rename(it, hsn, "self")).replace(" ", "")
                        hl[n.target.id] = f"EACH[{src}]"
            for st in taken(h.node.body):
                for sub in ast.walk(st):
                    if isinstance(sub, ast.Subscript) and isinstance(sub.ctx, ast.Load) \
                            and ast.unparse(sub.value) == series[0]:
                        sl = inline_locals(h.node, sub.slice)
                        if isinstance(sl, ast.Tuple):
                            elts = list(sl.elts)
                            while len(elts) > 1 and isinstance(elts[-1], ast.Slice) and \
                                    elts[-1].lower is None and elts[-1].upper is None \
                                    and elts[-1].step is None:
                                elts.pop()
                            sl = elts[0] if len(elts) == 1 else \
                                ast.Tuple(elts=elts, ctx=ast.Load())
                        for v, tok in hl.items():
                            sl = _rename(sl, v, tok)
                        sl = _rename(sl, hsn, "self")
                        out.add(ast.unparse(sl).replace(" ", ""))
        sel[mname] = (m, out)
    (pm, a), (an, b) = sel["phase_mean"], sel["anomaly"]
    if not a or not b:
        run.unknowns.append("D5: phase selection of phase_mean/anomaly not in "
                            "subscript form; sibling agreement not decided")
        return
    ok = a == b
    run.oblige("D5", "phase_mean~anomaly:selectors", ok, sample={
        "phase_mean": sorted(a), "anomaly": sorted(b)})
    if not ok:
        run.add("D5", "ClimateData.phase_mean/selector-drift", pm.where,
                f"phase_mean() selects the samples of a phase with {sorted(a)} but "
                f"anomaly() with {sorted(b)}: the anomalies no longer add back, with "
                f"the phase means, to the observable (e.g. when the cycle length does "
                f"not divide the record)")


def _rename(node, old, new):
    class T(ast.NodeTransformer):
        def visit_Name(self, n):
            return ast.copy_location(ast.Name(id=new, ctx=n.ctx), n) if n.id == old else n
    return T().visit(node)


def check(run: Run, prog: Program):
    run.rule("D6", "a remembered last window is a copy, not the caller's dict")
    run.rule("D5", "phase_mean() and anomaly() select the samples of a phase with the "
             "same selector")
    run.rule("D1", "only the constructor and set_window read the unwindowed data")
    run.rule("D2", "set_global_window funnels into the virtual set_window with "
             "coinciding bounds; ClimateData's window setters rewrite the view and "
             "bump the cache counter")
    run.rule("D3", "the axis masks are closed intervals of the same sibling form; the "
             "view is a mask-selected copy")
    run.rule("D4", "the memoised anomaly / phase means are never edited in place")
    run.explanation = (
        "Structural clauses of C13. The selected indices, anomaly arithmetic and "
        "non-dividing cycle lengths are NOT decided.")
    d1(run, prog)
    d2(run, prog)
    d3(run, prog)
    d5(run, prog)
    d6(run, prog)
    from .rules_c06 import p1_restricted
    p1_restricted(run, "D4", prog,
                  lambda o: "ClimateData." in o and o.startswith(("cached:", "shared:")),
                  "memoised anomaly / phase mean", floor=1)
