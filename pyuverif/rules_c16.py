"""C16 - event synchronisation / coincidence: registry clauses E1..E3."""
from __future__ import annotations

import ast

from .pymodel import Program, mangle
from .rules_c10 import a3_option_flow
from .report import Run, AnalysisError

FILES = ("eventseries/", "climate/eventseries_climatenetwork.py")


def e1(run: Run, prog: Program):
    es = prog.classes.get("EventSeries")
    if es is None:
        raise AnalysisError("EventSeries vanished")
    init = es.methods.get("__init__")
    reg = None
    for n in ast.walk(init.node):
        if isinstance(n, ast.Assign) and isinstance(n.targets[0], ast.Attribute) and \
                n.targets[0].attr == "symmetrization_options":
            reg = n.value
    if reg is None:
        raise AnalysisError("EventSeries.symmetrization_options registry vanished")
    table = {}
    if isinstance(reg, ast.Dict):
        for k, v in zip(reg.keys, reg.values):
            if isinstance(k, ast.Constant):
                table[k.value] = ast.unparse(v)
    elif isinstance(reg, ast.Call) and ast.unparse(reg.func) == "dict":
        for kw in reg.keywords:
            table[kw.arg] = ast.unparse(kw.value)
    elif isinstance(reg, ast.DictComp) and len(reg.generators) == 1 and \
            isinstance(reg.generators[0].target, ast.Name) and \
            isinstance(reg.key, ast.Name) and \
            reg.key.id == reg.generators[0].target.id:
        # {name: getattr(Cls, f"_prefix_{name}") for name in <constant names>}
        from .idioms import const_seq
        var = reg.key.id
        names = const_seq(reg.generators[0].iter, es, prog.classes)
        if names is None:
            raise AnalysisError("registry comprehension over a non-constant sequence")
        for nm in names:
            v = reg.value
            bound = None
            if isinstance(v, ast.Call) and isinstance(v.func, ast.Name) and \
                    v.func.id == "getattr" and len(v.args) >= 2:
                a = v.args[1]
                if isinstance(a, ast.JoinedStr):
                    bound = "".join(
                        str(p_.value) if isinstance(p_, ast.Constant) else
                        (str(nm) if isinstance(p_, ast.FormattedValue) and
                         isinstance(p_.value, ast.Name) and p_.value.id == var else "?")
                        for p_ in a.values)
                elif isinstance(a, ast.BinOp) and isinstance(a.op, ast.Add) and \
                        isinstance(a.left, ast.Constant) and \
                        isinstance(a.right, ast.Name) and a.right.id == var:
                    bound = str(a.left.value) + str(nm)
            table[nm] = f"{ast.unparse(v.args[0])}.{bound}" if bound else ast.unparse(v)
    else:
        raise AnalysisError("registry is not a dict literal / dict(...) call / "
                            "comprehension over constant names")
    run.floor("symmetrisation registry entries", len(table), 4)
    # bindings
    for k, v in sorted(table.items()):
        want = f"_symmetrization_{k}"
        ok = v.split(".")[-1] == want and want in es.methods
        run.oblige("E1", f"binding:{k}", ok, sample={"bound_to": v})
        if not ok:
            run.add("E1", f"registry/{k}", f"{init.module.relpath}:{reg.lineno}",
                    f"symmetrisation option '{k}' is bound to `{v}`, expected "
                    f"EventSeries.{want}: the analysis matrix is symmetrised with the "
                    f"wrong rule")
    # validation lists
    accepted = {}
    for f in es.methods.values():
        for st in ast.walk(f.node):
            if isinstance(st, ast.If) and isinstance(st.test, ast.Compare) and \
                    isinstance(st.test.ops[0], ast.NotIn) and \
                    ast.unparse(st.test.left) == "symmetrization":
                from .idioms import const_seq
                vals = const_seq(st.test.comparators[0], es, prog.classes)
                if vals is None:
                    continue
                accepted.setdefault(f.qualname, []).append((st.lineno, vals))
    nlists = sum(len(v) for v in accepted.values())
    run.floor("symmetrisation validation lists", nlists, 4)
    allacc = set()
    for fq, lists in sorted(accepted.items()):
        for ln, vals in lists:
            allacc |= set(vals)
            missing = [v for v in vals if v not in table]
            run.oblige("E1", f"accepted:{fq}@{ln}", not missing, sample={
                "where": f"{es.module.relpath}:{ln}", "list": vals})
            for v in missing:
                run.add("E1", f"{fq}/accepts/{v}", f"{es.module.relpath}:{ln}",
                        f"{fq} accepts symmetrization='{v}', which is not a key of "
                        f"symmetrization_options: KeyError after validation")
    for k in sorted(set(table) - allacc):
        run.oblige("E1", f"reachable:{k}", False)
        run.add("E1", f"registry/unreachable/{k}", f"{init.module.relpath}:{reg.lineno}",
                f"symmetrisation option '{k}' is registered but no validation list "
                f"accepts it")
    # the registry is consulted with the validated name
    uses = 0
    for f in es.methods.values():
        for n in ast.walk(f.node):
            if isinstance(n, ast.Subscript) and isinstance(n.value, ast.Attribute) and \
                    n.value.attr == "symmetrization_options":
                uses += 1
                ok = ast.unparse(n.slice) == "symmetrization"
                run.oblige("E1", f"lookup:{f.qualname}@{n.lineno}", ok)
                if not ok:
                    run.add("E1", f"{f.qualname}/lookup", f"{f.module.relpath}:{n.lineno}",
                            f"{f.qualname} looks the registry up with "
                            f"`{ast.unparse(n.slice)}` instead of the validated "
                            f"`symmetrization` argument")
    run.floor("registry lookups", uses, 2)


def undefined_attributes(prog: Program, file_pred):
    """(class C, reader func, attr cell, node): attribute read on self that no
    class in MRO(C) ever assigns (after name mangling) and that is not a
    method, property or class-level name."""
    assigned = {}
    classlevel = {}
    for c in prog.classes.values():
        a = set()
        for f in list(c.methods.values()) + [x for p in c.props.values()
                                             for x in p.values()]:
            if not f.params:
                continue
            sn = f.params[0]
            for n in ast.walk(f.node):
                tgts = []
                if isinstance(n, ast.Assign):
                    tgts = n.targets
                elif isinstance(n, (ast.AnnAssign, ast.AugAssign)):
                    tgts = [n.target]
                elif isinstance(n, (ast.For, ast.With)):
                    continue
                for t in tgts:
                    for el in (t.elts if isinstance(t, (ast.Tuple, ast.List)) else [t]):
                        if isinstance(el, ast.Attribute) and \
                                isinstance(el.value, ast.Name) and el.value.id == sn:
                            a.add(mangle(c.name, el.attr))
                # setattr(self, "x", ..) / self.__dict__ updates are not used here
        assigned[c] = a
        cl = set()
        for st in c.node.body:
            if isinstance(st, ast.Assign):
                for t in st.targets:
                    if isinstance(t, ast.Name):
                        cl.add(t.id)
            elif isinstance(st, ast.AnnAssign) and isinstance(st.target, ast.Name):
                cl.add(st.target.id)
        classlevel[c] = cl
    out = []
    checked = 0
    for C in prog.classes.values():
        known = set()
        for b in C.mro:
            known |= assigned[b] | classlevel[b] | set(b.methods) | set(b.props)
        ext = any(b.ext_bases and b.ext_bases != ["ABC"] for b in C.mro)
        if ext:
            continue
        for b in C.mro:
            for f in list(b.methods.values()) + [x for p in b.props.values()
                                                 for x in p.values()]:
                if not f.params or f.kind in ("static", "class"):
                    continue
                if not file_pred(f.module.relpath):
                    continue
                sn = f.params[0]
                for n in ast.walk(f.node):
                    if isinstance(n, ast.Attribute) and isinstance(n.value, ast.Name) \
                            and n.value.id == sn and isinstance(n.ctx, ast.Load):
                        cell = mangle(b.name, n.attr)
                        if n.attr.startswith("__") and n.attr.endswith("__"):
                            continue
                        checked += 1
                        if cell not in known:
                            out.append((C, f, cell, n))
    return out, checked


def e2(run: Run, prog: Program):
    found, checked = undefined_attributes(prog, lambda p: any(x in p for x in FILES))
    seen = set()
    for (C, f, cell, n) in found:
        # guarded by hasattr/try?  (not used in these files)
        key = f"{f.qualname}/{cell}"
        if key in seen:
            continue
        seen.add(key)
        run.oblige("E2", f"attr:{key}", False, sample={
            "where": f"{f.module.relpath}:{n.lineno}"})
        run.add("E2", key, f"{f.module.relpath}:{n.lineno}",
                f"{f.qualname} reads `self.{n.attr}` (i.e. `{cell}` after name "
                f"mangling), which no class in the MRO of {C.name} ever assigns: "
                f"AttributeError whenever this branch runs")
    run.count("E2", checked)
    run.floor("E2 attribute reads checked", checked, 100, hard=True)
    for _ in range(0):
        pass
    run.oblige("E2", "attrs:summary", True, nontrivial=False,
               sample={"reads_checked": checked, "undefined": len(seen)})
    a3_option_flow(run, prog, "E2", FILES)


# (method, locals assumed exchange-symmetric with the reason)
EXCHANGE_FUNCS = [
    ("event_coincidence_analysis", {}),
    ("_eca_coincidence_rate", {}),
    ("event_synchronization", {}),
]


def e4(run: Run, prog: Program):
    """Exchange consistency of the pairwise kernels (see exchange.py)."""
    from .exchange import Exchange
    es = prog.classes.get("EventSeries")
    if es is None:
        raise AnalysisError("EventSeries vanished")
    n = 0
    for mname, assumed in EXCHANGE_FUNCS:
        m = es.methods.get(mname)
        if m is None:
            raise AnalysisError(f"EventSeries.{mname} vanished")
        ps = [p_ for p_ in m.params if p_ not in ("self", "cls")]
        # the two sequences and their time stamps: parameters in pairs
        # (seq_x, seq_y, ...) and (ts1, ts2) - by position, then by stem
        seeds = {}
        if len(ps) >= 2:
            seeds[ps[0]] = ps[1]
        ts = [p_ for p_ in ps[2:] if p_[-1:] in "12" and p_[:-1] and
              p_[:-1] + ("2" if p_[-1] == "1" else "1") in ps]
        for p_ in ts:
            if p_.endswith("1"):
                seeds[p_] = p_[:-1] + "2"
        from .exchange import inline_helpers

        def resolve(name, _es=es):
            h = _es.methods.get(name)
            return h.node if h is not None and name.startswith("_") else None
        node = inline_helpers(m.node, resolve)
        # values produced by local closures or by run-time dispatch
        # (`getattr(cls, name)(...)`) are not followed by the exchange analysis:
        # no verdict for such a function
        opaque = [x for x in ast.walk(node) if x is not node and (
            isinstance(x, (ast.FunctionDef, ast.Lambda)) or (
                isinstance(x, ast.Call) and isinstance(x.func, ast.Name) and
                x.func.id == "getattr"))]
        if opaque:
            run.unknowns.append(
                f"E4: EventSeries.{mname} computes values through "
                f"{'a local closure' if not isinstance(opaque[0], ast.Call) else 'getattr dispatch'}"
                f" (line {getattr(opaque[0], 'lineno', '?')}); exchange consistency "
                f"not decided")
            continue
        ex = Exchange(node, seeds, symmetric=tuple(assumed)).run()
        n += len(ex.assigns)
        for a, why in assumed.items():
            run.assumptions.append(f"E4 {mname}: `{a}` taken as exchange-symmetric ({why})")
        bad = {}
        for name, line, msg in ex.findings:
            bad.setdefault(name, (line, msg))
        for (path, a, v, st) in ex.assigns:
            run.oblige("E4", f"{mname}:{a}@{st.lineno}", a not in bad, sample={
                "where": f"{m.module.relpath}:{st.lineno}", "local": a,
                "partner": ex.sw.get(a)})
        for path, r in ex.returns:
            run.oblige("E4", f"{mname}:return@{r.lineno}", "return" not in bad or
                       bad["return"][0] != r.lineno)
        for name, (line, msg) in sorted(bad.items()):
            run.add("E4", f"EventSeries.{mname}/{name}", f"{m.module.relpath}:{line}",
                    f"EventSeries.{mname} is not exchange consistent: {msg}. Exchanging "
                    f"the two event sequences then does not exchange the two returned "
                    f"directions")
        run.extra.setdefault("exchange_pairs", {})[mname] = sorted(
            {"<->".join(sorted(p_[:2])) for p_ in ex.pairs}) + \
            [f"antisymmetric:{a}" for a in sorted(ex.anti)] + \
            [f"shift:{a}" for a, _ in ex.shifts] + \
            [f"symmetric-transposed:{a}" for a in sorted(ex.symT)]
    run.floor("E4 statements analysed", n, 40)


def e6(run: Run, prog: Program):
    """make_event_matrix compares the data with per-variable thresholds
    (quantiles or given values, i.e. real numbers).  The array that holds them
    must be floating whatever the dtype of the data: allocating it "like the
    data" (zeros_like(data...), dtype=data.dtype) truncates the thresholds for
    integer-valued data and marks the wrong samples."""
    es = prog.classes.get("EventSeries")
    m = es.methods.get("make_event_matrix") if es else None
    if m is None:
        raise AnalysisError("EventSeries.make_event_matrix vanished")
    data = m.params[0] if m.kind == "static" else m.params[1]
    # locals derived from the data array
    derived = {data}
    changed = True
    while changed:
        changed = False
        for a in ast.walk(m.node):
            if isinstance(a, ast.Assign) and isinstance(a.targets[0], ast.Name) and \
                    a.targets[0].id not in derived and any(
                        isinstance(x, ast.Name) and x.id in derived
                        for x in ast.walk(a.value)) and not any(
                        isinstance(c, ast.Call) and ast.unparse(c.func).split(".")[-1]
                        in ("quantile", "percentile", "shape", "len")
                        for c in ast.walk(a.value)):
                derived.add(a.targets[0].id)
                changed = True
    # arrays that receive quantiles / threshold values by item assignment
    recv = set()
    for a in ast.walk(m.node):
        if isinstance(a, ast.Assign) and isinstance(a.targets[0], ast.Subscript) and \
                isinstance(a.targets[0].value, ast.Name) and any(
                    (isinstance(c, ast.Call) and ast.unparse(c.func).split(".")[-1]
                     in ("quantile", "percentile", "nanquantile"))
                    or (isinstance(c, ast.Name) and "threshold" in c.id and
                        c.id in m.params) for c in ast.walk(a.value)):
            recv.add(a.targets[0].value.id)
    n = 0
    for a in ast.walk(m.node):
        if not (isinstance(a, ast.Assign) and isinstance(a.targets[0], ast.Name)
                and a.targets[0].id in recv and isinstance(a.value, ast.Call)):
            continue
        fn = ast.unparse(a.value.func).split(".")[-1]
        if fn not in ("zeros", "empty", "ones", "full", "zeros_like", "empty_like",
                      "ones_like", "full_like"):
            continue
        n += 1
        dt = next((k.value for k in a.value.keywords if k.arg == "dtype"), None)
        why = None
        if fn.endswith("_like") and dt is None and any(
                isinstance(x, ast.Name) and x.id in derived for x in ast.walk(a.value.args[0])):
            why = f"`{ast.unparse(a.value)}` inherits the dtype of the data"
        elif dt is not None:
            d = ast.unparse(dt)
            if any(isinstance(x, ast.Name) and x.id in derived for x in ast.walk(dt)):
                why = f"dtype `{d}` is taken from the data"
            elif isinstance(dt, ast.Constant) and "int" in str(dt.value) or \
                    d.split(".")[-1].startswith(("int", "uint", "bool")):
                why = f"dtype `{d}` is not floating"
        run.oblige("E6", f"make_event_matrix:{a.targets[0].id}", why is None, sample={
            "where": f"{m.module.relpath}:{a.lineno}", "allocation": ast.unparse(a.value)})
        if why:
            run.add("E6", f"EventSeries.make_event_matrix/threshold-dtype/{a.targets[0].id}",
                    f"{m.module.relpath}:{a.lineno}",
                    f"make_event_matrix stores the (real-valued) thresholds in "
                    f"`{a.targets[0].id}`, but {why}: for integer-valued data the "
                    f"quantile or threshold is truncated and the wrong samples are "
                    f"marked as events")
    run.floor("E6 threshold arrays", n, 1)


NARROW_INT = ("int8", "int16", "uint8", "uint16", "i1", "i2", "u1", "u2")
POSITION_SOURCES = ("where", "nonzero", "flatnonzero", "argwhere", "arange")


def e5(run: Run, prog: Program):
    """Event positions (indices produced by np.where / nonzero ...) are not cast
    to an integer type narrower than 32 bits: positions beyond the type's range
    wrap around and the inter-event distances become meaningless."""
    es = prog.classes.get("EventSeries")
    n = 0
    for f in sorted(es.methods.values(), key=lambda f: f.name):
        for c in ast.walk(f.node):
            if not isinstance(c, ast.Call):
                continue
            src = None
            dt = None
            if ast.unparse(c.func) in ("np.array", "np.asarray", "numpy.array") and c.args:
                src = c.args[0]
                dt = next((k.value for k in c.keywords if k.arg == "dtype"), None)
            elif isinstance(c.func, ast.Attribute) and c.func.attr == "astype" and c.args:
                src, dt = c.func.value, c.args[0]
            if src is None or dt is None:
                continue
            if not any(isinstance(x, ast.Call) and isinstance(x.func, ast.Attribute)
                       and x.func.attr in POSITION_SOURCES for x in ast.walk(src)):
                continue
            n += 1
            d = dt.value if isinstance(dt, ast.Constant) else ast.unparse(dt).split(".")[-1]
            ok = str(d) not in NARROW_INT
            run.oblige("E5", f"{f.qualname}@{ast.unparse(c)[:50]}", ok, sample={
                "where": f"{f.module.relpath}:{c.lineno}", "dtype": str(d)})
            if not ok:
                run.add("E5", f"{f.qualname}/narrow-positions/{d}",
                        f"{f.module.relpath}:{c.lineno}",
                        f"{f.qualname} stores event positions as {d} "
                        f"(`{ast.unparse(c)[:70]}`): positions beyond the range of {d} "
                        f"wrap around, so for long series the events are compared at "
                        f"the wrong times")
    run.count("E5", n)


def check(run: Run, prog: Program):
    run.rule("E6", "the per-variable threshold array of make_event_matrix is floating "
             "whatever the dtype of the data")
    run.rule("E5", "event positions are not narrowed below 32-bit integers")
    run.rule("E4", "the pairwise ES/ECA kernels are exchange consistent: swapping the "
             "roles of the two sequences maps every statement onto a statement of the "
             "same branch and the first returned direction onto the second")
    run.rule("E1", "the symmetrisation registry is exhaustive and consistently bound: "
             "every accepted name is a key, every key is accepted somewhere, key k is "
             "bound to _symmetrization_k, lookups use the validated name")
    run.rule("E2", "attributes read on self exist (after name mangling); literal "
             "option values flowing into validated parameters are accepted")
    run.rule("E3", "the memoised directed event-synchronisation matrix is never "
             "edited in place (symmetrisation helpers are pure)")
    run.explanation = (
        "Registry/option clauses of C16 and the exchange-consistency clause "
        "(decided syntactically by role swapping with a polynomial normal form for "
        "comparisons). The counting formulas themselves, ranges, shift and rescaling "
        "invariance of the values are NOT decided.")
    e1(run, prog)
    e2(run, prog)
    e4(run, prog)
    e5(run, prog)
    e6(run, prog)
    from .rules_c06 import p1_restricted
    p1_restricted(run, "E3", prog, lambda o: o.startswith("cached:EventSeries."),
                  "memoised event-synchronisation matrix", floor=1)
