"""C01 - cache coherence (DESIGN.md §5, rules K1..K5)."""
from __future__ import annotations

import ast
from collections import defaultdict

from .pymodel import (Program, ClassInfo, FuncInfo, iter_events, iter_calls,
                      mangle, EMPTY)
from .report import Run, AnalysisError

# cells whose value only influences console output (verified repo-wide by
# C19/Q1: no statement other than output is control dependent on it)
OUTPUT_ONLY_CELLS = {"silence_level"}

# a write of the container invalidates its sub-cells
IMPLIED = {"graph": ("graph.es", "graph.vs")}


class CacheModel:
    """Keys, read sets, activations per concrete class."""

    def __init__(self, prog: Program):
        self.p = prog
        self.classes = [c for c in prog.subclasses("Cached") if c.name != "Cached"]
        self._state = {}
        self._reads = {}
        self._acts = {}
        self.counters = self._find_counters()

    # -- keys
    def state_def(self, cls: ClassInfo):
        return self.p.lookup(cls, "__cache_state__")

    def state_cells_of(self, f: FuncInfo, _depth=0) -> list[str]:
        """Cells named by one `__cache_state__` definition, expanded through
        explicit Base.__cache_state__(self) calls."""
        if f is None:
            return []
        if _depth > 10:
            raise AnalysisError(f"{f.where} __cache_state__ recursion")
        cells = []
        rets = [n for n in ast.walk(f.node) if isinstance(n, ast.Return)]
        if not rets and f.cls.name == "Cached":
            return []
        if not rets:
            raise AnalysisError(f"{f.where} __cache_state__ without return")
        sn = f.params[0]
        seen_names = set()

        def expand(e):
            if isinstance(e, (ast.Tuple, ast.List)):
                for x in e.elts:
                    if isinstance(x, ast.Attribute) and isinstance(x.value, ast.Name) \
                            and x.value.id == sn:
                        cells.append(mangle(f.cls.name, x.attr))
                    elif isinstance(x, ast.Starred):
                        expand(x.value)
                    else:
                        raise AnalysisError(
                            f"{f.where} unsupported key component "
                            f"{ast.unparse(x)}")
            elif isinstance(e, ast.BinOp) and isinstance(e.op, ast.Add):
                expand(e.left)
                expand(e.right)
            elif isinstance(e, ast.Call) and isinstance(e.func, ast.Attribute) \
                    and e.func.attr == "__cache_state__" \
                    and isinstance(e.func.value, ast.Name):
                r = self.p.resolve_name(f.module, e.func.value.id)
                if not r or r[0] != "class":
                    raise AnalysisError(f"{f.where} unresolved base "
                                        f"{ast.unparse(e)}")
                cells.extend(self.state_cells_of(
                    self.p.lookup(r[1], "__cache_state__"), _depth + 1))
            elif isinstance(e, ast.Call) and isinstance(e.func, ast.Attribute) \
                    and e.func.attr == "__cache_state__" \
                    and isinstance(e.func.value, ast.Call) \
                    and isinstance(e.func.value.func, ast.Name) \
                    and e.func.value.func.id == "super":
                nxt = None
                mro = f.cls.mro
                for b in mro[mro.index(f.cls) + 1:]:
                    if "__cache_state__" in b.methods:
                        nxt = b.methods["__cache_state__"]
                        break
                cells.extend(self.state_cells_of(nxt, _depth + 1))
            elif isinstance(e, ast.Call) and isinstance(e.func, ast.Name) \
                    and e.func.id == "tuple" and len(e.args) == 1:
                expand(e.args[0])
            elif isinstance(e, ast.Name) and e.id not in seen_names:
                # a local holding (part of) the key: every value bound to it
                seen_names.add(e.id)
                vals = []
                for n in ast.walk(f.node):
                    if isinstance(n, ast.Assign) and any(
                            isinstance(t, ast.Name) and t.id == e.id for t in n.targets):
                        vals.append(n.value)
                    elif isinstance(n, ast.AugAssign) and isinstance(n.target, ast.Name) \
                            and n.target.id == e.id and isinstance(n.op, ast.Add):
                        vals.append(n.value)
                if not vals:
                    raise AnalysisError(f"{f.where} unsupported __cache_state__ "
                                        f"expression {ast.unparse(e)}")
                for v in vals:
                    expand(v)
            elif isinstance(e, ast.Name):
                pass
            else:
                raise AnalysisError(f"{f.where} unsupported __cache_state__ "
                                    f"expression {ast.unparse(e)}")
        for r in rets:
            expand(r.value)
        return cells

    def state_cells(self, cls: ClassInfo) -> tuple:
        if cls not in self._state:
            self._state[cls] = tuple(self.state_cells_of(self.state_def(cls)))
        return self._state[cls]

    def full_state_cells(self, cls: ClassInfo) -> tuple:
        """Union over every __cache_state__ definition in MRO(cls)."""
        out = []
        for b in cls.mro:
            f = b.methods.get("__cache_state__")
            if f is not None and b.name != "Cached":
                for c in self.state_cells_of(f):
                    if c not in out:
                        out.append(c)
        return tuple(out)

    def key(self, cls, m: FuncInfo, full=False) -> frozenset:
        base = self.full_state_cells(cls) if full else self.state_cells(cls)
        return frozenset(base) | frozenset(mangle(m.cls.name, a) for a in m.cache_attrs)

    def cached_methods(self, cls) -> list[FuncInfo]:
        return [f for _, f in sorted(self.p.all_methods(cls).items()) if f.cached]

    def _find_counters(self) -> set:
        keycells = set()
        for c in self.classes:
            keycells |= set(self.full_state_cells(c))
            for f in c.methods.values():
                if f.cached:
                    keycells |= {mangle(c.name, a) for a in f.cache_attrs}
        bumped = set()
        for f in self.p.functions():
            sn = f.params[0] if f.params else None
            for n in ast.walk(f.node):
                if isinstance(n, ast.AugAssign) and isinstance(n.op, ast.Add) \
                        and isinstance(n.target, ast.Attribute) \
                        and isinstance(n.target.value, ast.Name) \
                        and n.target.value.id == sn \
                        and isinstance(n.value, ast.Constant) \
                        and isinstance(n.value.value, (int, float)) \
                        and n.value.value > 0:
                    bumped.add(mangle(f.cls.name if f.cls else "", n.target.attr))
        # ... and whatever the effect trees of the public entry points see as a
        # bump (spelled-out increments, setattr tables, helper methods)
        for c in self.classes:
            for a in self.activations(c):
                try:
                    t = self.p.tree(a, c, {})
                except AnalysisError:
                    continue
                for e in iter_events(t):
                    if e.kind == "bump":
                        bumped.add(e.cell)
        return keycells & bumped

    # -- reads
    def reads(self, cls, m: FuncInfo):
        """(cells read, cells written, objcalls) of cached method m on cls,
        transitively; counters and output-only cells excluded."""
        k = (cls, m)
        if k in self._reads:
            return self._reads[k]
        t = self.p.tree(m, cls, {})
        rd, wr, oc = set(), {}, []
        for e in iter_events(t):
            if e.kind == "dynread":
                raise AnalysisError(
                    f"{e.where} cached method {m.qualname} reads an attribute whose "
                    f"name is computed (`getattr(self, {e.info.get('name')})`): its "
                    f"dependencies cannot be enumerated")
            if e.kind == "read":
                if e.cell not in OUTPUT_ONLY_CELLS and e.cell not in self.counters:
                    rd.add(e.cell)
            elif e.kind in ("write", "assign"):
                wr.setdefault(e.cell, e)
            elif e.kind == "objcall":
                oc.append(e)
        self._reads[k] = (frozenset(rd), wr, oc)
        return self._reads[k]

    # -- activations
    def activations(self, cls):
        """Public non-constructor entry points of cls that are not cached
        queries: [(label, FuncInfo)]."""
        if cls in self._acts:
            return self._acts[cls]
        out = []
        for name, f in sorted(self.p.all_methods(cls).items()):
            if f.kind != "method" or name.startswith("_") or f.cached:
                continue
            out.append(f)
        for name, pr in sorted(self.p.all_props(cls).items()):
            if "set" in pr and not name.startswith("_"):
                out.append(pr["set"])
        self._acts[cls] = out
        return out


# ---------------------------------------------------------------------------
# the staleness automaton over an effect tree

N, R, X = 0, 1, 2     # path status: normal / returned / raised


class Automaton:
    """state = (pending, dirty_writer).

    pending: a cache entry of the method group may exist whose key equals the
    current key (true at activation start: entries from before).  A write of
    x while pending makes that entry stale (dirty); a guard event (bump of a
    key counter, replacement of a key object, cache_clear of the method)
    makes all existing entries unreachable.  Violation: dirty at a normal end.
    """

    def __init__(self, is_write, is_guard, is_group_call):
        self.is_write = is_write
        self.is_guard = is_guard
        self.is_group_call = is_group_call
        self.memo = {}

    def run(self, tree):
        res = self.T(tree, (True, None))
        return {st for (st, status) in res if status != X}

    def T(self, n, s):
        key = (id(n), s)
        hit = self.memo.get(key)
        if hit is not None:
            return hit
        k = n[0]
        if k == "ev":
            e = n[1]
            pending, dirty = s
            if self.is_guard(e):
                s2 = (False, None)
            elif self.is_write(e):
                s2 = (pending, dirty or (e if pending else None))
            else:
                s2 = s
            out = frozenset([(s2, N)])
        elif k == "ret":
            out = frozenset([(s, R)])
        elif k == "raise":
            out = frozenset([(s, X)])
        elif k == "seq":
            cur = {(s, N)}
            for c in n[1]:
                new = set()
                for (st, status) in cur:
                    if status != N:
                        new.add((st, status))
                    else:
                        new |= self.T(c, st)
                cur = new
            out = frozenset(cur)
        elif k == "alt":
            acc = set()
            for c in n[1]:
                acc |= self.T(c, s)
            out = frozenset(acc)
        elif k == "loop":
            seen = {s}
            work = [s]
            acc = {(s, N)}
            while work:
                st = work.pop()
                for (st2, status) in self.T(n[1], st):
                    acc.add((st2, status))
                    if status == N and st2 not in seen:
                        seen.add(st2)
                        work.append(st2)
            out = frozenset(acc)
        elif k == "call":
            ci, body = n[1], n[2]
            s_in = s
            cached = ci.func.cached
            if cached and self.is_group_call(ci):
                s_in = (True, s[1])
            res = set()
            for (st, status) in self.T(body, s_in):
                res.add((st, N if status == R else status))
            if cached:
                res.add((s_in, N))          # cache hit: body not executed
            out = frozenset(res)
        else:
            out = frozenset([(s, N)])
        self.memo[key] = out
        return out


def tree_summary(t):
    """(written cells -> first event, guard-ish events present)"""
    wr, bumps, clears, objrepl = {}, set(), set(), set()
    for e in iter_events(t):
        if e.kind in ("write", "assign"):
            wr.setdefault(e.cell, e)
            for sub in IMPLIED.get(e.cell, ()):
                if e.info.get("how") in ("rebind", None) or e.kind == "assign":
                    wr.setdefault(sub, e)
            if e.info.get("new_object"):
                objrepl.add(e.cell)
        elif e.kind == "bump":
            bumps.add(e.cell)
        elif e.kind == "methodref" and e.info.get("chain") == ["cache_clear"]:
            clears.add(e.cell)
    return wr, bumps, clears, objrepl


def check(run: Run, prog: Program):
    cm = CacheModel(prog)
    run.rule("K1", "every cell read by a cached method that some public "
             "mutator can write is guarded by a key component (state counter, "
             "attrs counter, replaced key object, or the value itself) on every "
             "normal path of every mutator activation; no entry of the method "
             "is created between the last guard event and a later write")
    run.rule("K2", "a mutation counter is never re-initialised on a live object")
    run.rule("K3", "the __cache_state__ a class resolves covers the cells of "
             "every __cache_state__ definition in its MRO")
    run.rule("K4", "hand-rolled memo attributes are reset by every writer of "
             "what they were derived from; members of a property setter's "
             "co-written group are written only through the setter")
    run.rule("K5", "a cell written by a cached method is not rewritten behind "
             "its back without a key change")
    run.explanation = (
        "Static cache-coherence analysis: for every class deriving from Cached "
        "the resolved key cells (C3 MRO, __cache_state__ expansion, attrs) are "
        "compared with the transitive read set of every cached method, and a "
        "staleness automaton is run over the inlined effect tree of every "
        "public mutator activation (constant-parameter specialisation, "
        "property setters and explicit base calls inlined).")
    run.assumptions += [
        "exceptional exits of mutators are not considered",
        "users do not assign to public attributes that have no setter",
        "lru_cache eviction and hash collisions ignored",
        f"cells {sorted(OUTPUT_ONLY_CELLS)} influence console output only",
    ]

    n_methods = 0
    defs = set()
    k1 = {}      # key -> detail
    k3 = defaultdict(lambda: {"witnesses": set(), "missing": ()})
    k2 = {}
    k5 = {}
    heldobj = {}
    all_cached = set()

    for C in cm.classes:
        sd = cm.state_def(C)
        if sd is not None and sd.cls.name != "Cached":
            defs.add(sd)
        K_state = cm.state_cells(C)
        K_full = cm.full_state_cells(C)
        missing = tuple(c for c in K_full if c not in K_state)
        methods = cm.cached_methods(C)
        all_cached.update(methods)
        acts = cm.activations(C)
        act_trees = [(a, prog.tree(a, C, {})) for a in acts]
        act_sum = [(a, t, tree_summary(t)) for a, t in act_trees]
        # cells with a post-construction writer
        written = {}
        for a, t, (wr, bumps, clears, objrepl) in act_sum:
            for cell, e in wr.items():
                written.setdefault(cell, []).append(a)

        # --- K2: counter resets reachable from mutators
        for a, t, (wr, bumps, clears, objrepl) in act_sum:
            for e in iter_events(t):
                if e.kind in ("assign", "write") and e.cell in cm.counters:
                    v = e.info.get("value")
                    ok = bool(e.info.get("fresh_guard"))   # under `if not hasattr(self, k)`

                    def _continues(x):
                        # getattr(self, "<k>", default)  [+ non-negative constant]
                        if isinstance(x, ast.BinOp) and isinstance(x.op, ast.Add):
                            for a_, b_ in ((x.left, x.right), (x.right, x.left)):
                                if isinstance(b_, ast.Constant) and \
                                        isinstance(b_.value, (int, float)) and \
                                        b_.value >= 0 and _continues(a_):
                                    return True
                            return False
                        return isinstance(x, ast.Call) and isinstance(x.func, ast.Name) \
                            and x.func.id == "getattr" and len(x.args) == 3 and \
                            isinstance(x.args[1], ast.Constant) and \
                            mangle(e.func.cls.name if e.func.cls else "",
                                   x.args[1].value) == e.cell
                    if v is not None and _continues(v):
                        ok = True
                    key = f"{e.func.qualname}/{e.cell}"
                    run.oblige("K2", key, ok, sample={
                        "where": e.where, "activation": f"{C.name}:{a.qualname}"})
                    if not ok:
                        d = k2.setdefault(key, {"where": e.where, "via": set(),
                                                "cell": e.cell,
                                                "func": e.func.qualname})
                        d["via"].add(f"{C.name}.{a.name}")

        # --- K1 / K5 per method
        groups = defaultdict(list)     # (Kc, x, rule) -> [m]
        for m in methods:
            n_methods += 1
            rd, wr_m, oc = cm.reads(C, m)
            K = cm.key(C, m)
            for x in rd:
                if x in written:
                    groups[(K, x, "K1")].append(m)
            for y in wr_m:
                if y in written and y not in rd and y not in cm.counters \
                        and y not in OUTPUT_ONLY_CELLS:
                    groups[(K, y, "K5")].append(m)
            # held objects
            for e in oc:
                _held_object(run, prog, cm, C, m, e, K, heldobj)

        for (K, x, rule), ms in sorted(groups.items(),
                                       key=lambda kv: (sorted(kv[0][0]), kv[0][1], kv[0][2])):
            mset = set(ms)
            for a, t, (wr, bumps, clears, objrepl) in act_sum:
                if x not in wr:
                    continue
                inst = f"{C.name}:{'|'.join(sorted(m.name for m in ms))}:{x}:{a.qualname}"
                if x in K:
                    run.oblige(rule, inst, True, nontrivial=False)
                    continue
                bad = _run(cm, C, t, x, K, mset, clears)
                if bad and missing:
                    Kf = K | frozenset(K_full)
                    bad_full = _run(cm, C, t, x, Kf, mset, clears)
                    if not bad_full:
                        d = k3[C.name]
                        d["missing"] = missing
                        d["where"] = C.where
                        d["resolved"] = sd.qualname if sd else None
                        for m in ms:
                            d["witnesses"].add(f"{m.qualname}/{x}/{a.qualname}")
                        run.oblige(rule, inst, False, sample={
                            "class": C.name, "cell": x, "key": sorted(K),
                            "activation": a.qualname, "explained_by": "K3"})
                        continue
                run.oblige(rule, inst, not bad, sample={
                    "class": C.name, "methods": sorted(m.qualname for m in ms)[:5],
                    "cell": x, "key": sorted(K), "activation": a.qualname,
                    "writers": sorted({w.func.qualname for w in bad})})
                store = k1 if rule == "K1" else k5
                for w in bad:
                    for m in ms:
                        if rule == "K5" and w.func is m:
                            continue
                        key = f"{m.qualname}/{x}/{w.func.qualname}"
                        d = store.setdefault(key, {
                            "where": w.where, "classes": set(), "via": set(),
                            "key": sorted(K), "method_where": m.where})
                        d["classes"].add(C.name)
                        d["via"].add(a.qualname)

        # --- K3 as a structural obligation
        run.oblige("K3", C.name, not (missing and C.name in k3),
                   nontrivial=bool(len([b for b in C.mro
                                        if "__cache_state__" in b.methods
                                        and b.name != "Cached"]) > 1),
                   sample={"resolved": sd.qualname if sd else None,
                           "cells": list(K_state), "missing": list(missing)})

    # --- findings
    for key, d in sorted(k1.items()):
        m, x, w = key.split("/")
        run.add("K1", key, d["where"],
                f"cached {m} reads `{x}`, which {w} writes without changing any "
                f"component of the key {d['key']} (on {len(d['classes'])} class(es): "
                f"{', '.join(sorted(d['classes'])[:6])}; entry points: "
                f"{', '.join(sorted(d['via'])[:6])}) -> stale result after the write",
                classes=sorted(d["classes"]), via=sorted(d["via"]))
    for key, d in sorted(k5.items()):
        m, x, w = key.split("/")
        run.add("K5", key, d["where"],
                f"cached {m} writes `{x}` only on a miss, but {w} rewrites it "
                f"without changing the key {d['key']} (classes: "
                f"{', '.join(sorted(d['classes'])[:6])})",
                classes=sorted(d["classes"]), via=sorted(d["via"]))
    for cname, d in sorted(k3.items()):
        run.add("K3", f"{cname}/missing:{','.join(d['missing'])}", d["where"],
                f"{cname} resolves __cache_state__ to {d['resolved']}, which omits "
                f"{list(d['missing'])} declared by other bases in its MRO; "
                f"{len(d['witnesses'])} (method, cell, mutator) triples go stale, "
                f"e.g. {sorted(d['witnesses'])[:3]}",
                witnesses=sorted(d["witnesses"])[:50])
    for key, d in sorted(k2.items()):
        run.add("K2", key, d["where"],
                f"{d['func']} re-initialises counter `{d['cell']}` on a live object "
                f"(reached from {', '.join(sorted(d['via'])[:8])}); the next "
                f"increment reproduces an earlier key",
                via=sorted(d["via"]))
    for key, d in sorted(heldobj.items()):
        run.add("K1", "held/" + key, d["where"], d["msg"])

    _k4_memo(run, prog, cm)
    _k4_cond_recompute(run, prog, cm)
    _k4_groups(run, prog, cm)

    run.units = {"classes": len(cm.classes), "cached_methods": len(all_cached),
                 "class_method_pairs": n_methods,
                 "cache_state_defs": len(defs),
                 "counters": sorted(cm.counters),
                 "trees_built": len(prog._tree_cache)}
    run.floor("Cached subclasses", len(cm.classes), 25, hard=True)
    run.floor("cached methods", len(all_cached), 60, hard=True)
    run.floor("mutation counters", len(cm.counters), 6)
    run.floor("__cache_state__ definitions", len(defs), 10)
    return cm


def _run(cm, C, tree, x, K, mset, clears):
    """Return the set of offending write events (empty = guarded)."""
    Kc = K
    xs = {x}
    # a write of the container is a write of the sub-cell
    containers = {c for c, subs in IMPLIED.items() if x in subs}

    def is_write(e):
        if e.kind in ("write", "assign"):
            if e.cell in xs:
                return True
            if e.cell in containers and (e.kind == "assign" or
                                         e.info.get("how") == "rebind"):
                return True
        return False

    clear_names = {m.name for m in mset} & clears

    def is_guard(e):
        if e.kind == "bump" and e.cell in Kc:
            return True
        if e.kind == "write" and e.cell in Kc and e.info.get("new_object"):
            return True
        if e.kind == "methodref" and e.cell in clear_names and \
                e.info.get("chain") == ["cache_clear"]:
            return True
        return False

    def is_group_call(ci):
        return ci.func in mset

    au = Automaton(is_write, is_guard, is_group_call)
    ends = au.run(tree)
    return {d for (_, d) in ends if d is not None}


def _held_object(run, prog, cm, C, m, e, K, out):
    """A cached method reading through an object held in a cell needs that cell
    in its key unless the object's class has no mutator for what is read."""
    meth = e.info.get("method")
    owners = [c for c in prog.classes.values() if meth in c.methods]
    if not owners:
        return      # not a pyunicorn object (array, sparse matrix, igraph, ...)
    cell = e.cell
    inst = f"{C.name}:{m.qualname}:{cell}.{meth}"
    if cell in K:
        run.oblige("K1", "held:" + inst, True, nontrivial=True)
        return
    # does any owner class have a mutator that writes what `meth` reads?
    bad = []
    for D in owners:
        for sub in [c for c in prog.classes.values() if D in c.mro]:
            f = prog.lookup(sub, meth)
            if f is None:
                continue
            rd = {ev.cell for ev in iter_events(prog.tree(f, sub, {}))
                  if ev.kind == "read"} - OUTPUT_ONLY_CELLS
            if prog.is_subclass(sub, "Cached"):
                acts = cm.activations(sub)
            else:
                acts = [g for n, g in prog.all_methods(sub).items()
                        if g.kind == "method" and not n.startswith("_")]
            for a in acts:
                wr = {ev.cell for ev in iter_events(prog.tree(a, sub, {}))
                      if ev.kind in ("write", "assign")}
                hit = (rd & wr) - OUTPUT_ONLY_CELLS
                if hit:
                    bad.append((sub.name, a.qualname, sorted(hit)))
    run.oblige("K1", "held:" + inst, not bad, sample={"cell": cell, "method": meth})
    if bad:
        key = f"{m.qualname}/{cell}.{meth}"
        out[key] = {"where": e.where, "msg":
                    f"cached {m.qualname} reads through `self.{cell}.{meth}()` but "
                    f"`{cell}` is not a key component, and {bad[0][1]} can change "
                    f"{bad[0][2]} of the held {bad[0][0]}"}


# ---------------------------------------------------------------------------
# K4

def _k4_memo(run, prog, cm):
    """Hand-rolled memo attributes."""
    n = 0
    for C in cm.classes + [c for c in prog.classes.values()
                           if c not in cm.classes and c.name not in
                           ("Cached", "NetworkError", "MPIException")]:
        # candidate memo cells: tested against None / hasattr in a method of C's
        # own body and assigned a computed value in a public non-constructor
        # method
        if not C.methods:
            continue
        tested = {}
        for f in C.methods.values():
            sn = f.params[0] if f.params else None
            # locals holding the memo: v = self.X | getattr(self, "X", None)
            holds = {}
            for node in ast.walk(f.node):
                if isinstance(node, ast.Assign) and len(node.targets) == 1 and \
                        isinstance(node.targets[0], ast.Name):
                    v = node.value
                    if isinstance(v, ast.Attribute) and isinstance(v.value, ast.Name) \
                            and v.value.id == sn:
                        holds.setdefault(node.targets[0].id, []).append(v.attr)
                    elif isinstance(v, ast.Call) and isinstance(v.func, ast.Name) and \
                            v.func.id == "getattr" and len(v.args) == 3 and \
                            isinstance(v.args[0], ast.Name) and v.args[0].id == sn and \
                            isinstance(v.args[1], ast.Constant) and \
                            isinstance(v.args[1].value, str) and \
                            isinstance(v.args[2], ast.Constant) and \
                            v.args[2].value is None:
                        holds.setdefault(node.targets[0].id, []).append(v.args[1].value)
                    else:
                        holds.setdefault(node.targets[0].id, []).append(None)
            for node in ast.walk(f.node):
                if isinstance(node, ast.If):
                    t = node.test
                    if isinstance(t, ast.Compare) and len(t.ops) == 1 and \
                            isinstance(t.ops[0], (ast.Is, ast.IsNot)) and \
                            isinstance(t.comparators[0], ast.Constant) and \
                            t.comparators[0].value is None and \
                            isinstance(t.left, ast.Name) and \
                            holds.get(t.left.id) and holds[t.left.id][0] is not None:
                        # `v = <memo>; if v is None: v = compute(); self.X = v`
                        tested.setdefault(mangle(C.name, holds[t.left.id][0]), f)
                    if isinstance(t, ast.UnaryOp) and isinstance(t.op, ast.Not):
                        t = t.operand
                    if isinstance(t, ast.Call) and isinstance(t.func, ast.Name) and \
                            t.func.id == "hasattr" and len(t.args) == 2 and \
                            isinstance(t.args[0], ast.Name) and t.args[0].id == sn and \
                            isinstance(t.args[1], ast.Constant) and \
                            isinstance(t.args[1].value, str):
                        tested.setdefault(mangle(C.name, t.args[1].value), f)
                    t = node.test
                    if isinstance(t, ast.Compare) and len(t.ops) == 1 and \
                            isinstance(t.ops[0], (ast.Is, ast.IsNot)) and \
                            isinstance(t.comparators[0], ast.Constant) and \
                            t.comparators[0].value is None and \
                            isinstance(t.left, ast.Attribute) and \
                            isinstance(t.left.value, ast.Name) and \
                            t.left.value.id == sn:
                        tested.setdefault(mangle(C.name, t.left.attr), f)
        for cell, reader in tested.items():
            # writers with computed values outside constructors
            producers = []
            for f in C.methods.values():
                if f.name == "__init__" or f.kind != "method":
                    continue
                try:
                    t = prog.tree(f, C, {})
                except AnalysisError:
                    continue        # dispatch on a run-time string: not a producer
                own = [e for e in iter_events(t, into_calls=False)
                       if e.kind == "write" and e.cell == cell
                       and e.info.get("how") in ("rebind",)]
                if own and not any(e.kind == "bump" for e in iter_events(t)):
                    producers.append((f, t))
            if not producers:
                continue
            for f, t in producers:
                src = {e.cell for e in iter_events(t) if e.kind == "read"}
                src -= {cell} | OUTPUT_ONLY_CELLS
                # every concrete class that inherits the producer
                for D in [d for d in prog.classes.values() if C in d.mro]:
                    acts = cm.activations(D) if prog.is_subclass(D, "Cached") else \
                        [g for nme, g in prog.all_methods(D).items()
                         if g.kind == "method" and not nme.startswith("_")]
                    for a in acts:
                        if a is f:
                            continue
                        try:
                            ta = prog.tree(a, D, {})
                        except AnalysisError as ex:
                            run.unknowns.append(f"K4 memo {cell}: entry {a.qualname} "
                                                f"not analysed ({str(ex)[:80]})")
                            continue
                        wr = {}
                        for e in iter_events(ta):
                            # the producer's own (guarded) fill is not a reset:
                            # it is skipped exactly when the memo is stale
                            if e.kind in ("write", "assign") and not (
                                    e.cell == cell and e.func is f):
                                wr.setdefault(e.cell, e)
                        hit = sorted((src & set(wr)))
                        if not hit:
                            continue
                        n += 1
                        ok = cell in wr
                        inst = f"{D.name}:{cell}:{a.qualname}"
                        run.oblige("K4", "memo:" + inst, ok, sample={
                            "memo": cell, "producer": f.qualname,
                            "derived_from": hit, "writer": a.qualname})
                        if not ok:
                            w = wr[hit[0]]
                            run.add("K4", f"memo/{f.qualname}/{cell}/{w.func.qualname}",
                                    w.where,
                                    f"memo `{cell}` (filled by {f.qualname}, consumed "
                                    f"under a None-test in {reader.qualname}) is derived "
                                    f"from {hit} but {w.func.qualname} rewrites "
                                    f"{hit[0]} without resetting it",
                                    classes=[D.name])
    run.count("K4", n)
    run.floor("memo obligations", n, 1)


def _k4_cond_recompute(run, prog, cm, rule="K4", class_pred=None):
    """Conditional recomputation: `if <test on guard cells G>: <recompute cells
    Y from cells SRC, refresh G>` keeps the old Y on the other path.  Every
    other public entry point that writes a SRC cell must then also write a
    guard or memo cell, otherwise the stale Y is reused."""
    from .pymodel import _Builder
    n_sites = 0
    for C in sorted(prog.classes.values(), key=lambda c: c.name):
        if class_pred is not None and not class_pred(C):
            continue
        for f in list(C.methods.values()):
            if f.kind != "method" or f.name == "__init__":
                continue
            # (if-node, statements of its else side): for a guard clause
            # `if <test>: return` the else side is the rest of the block
            ifs = []
            for blk_owner in ast.walk(f.node):
                for fld in ("body", "orelse", "finalbody"):
                    blk = getattr(blk_owner, fld, None)
                    if not isinstance(blk, list):
                        continue
                    for i_, st_ in enumerate(blk):
                        if not isinstance(st_, ast.If):
                            continue
                        els = st_.orelse
                        if not els and st_.body and isinstance(st_.body[-1], ast.Return):
                            els = blk[i_ + 1:]
                        ifs.append((st_, els))
            for node, else_stmts in ifs:
                b = _Builder(prog, f, C, {}, True)
                try:
                    ttest = b.expr(node.test)
                    tthen = b.block(node.body)
                    telse = b.block(else_stmts)
                except AnalysisError:
                    continue

                def cells(t, kinds):
                    return {e.cell for e in iter_events(t) if e.kind in kinds}
                G = cells(ttest, ("read",)) - OUTPUT_ONLY_CELLS - cm.counters
                if not G:
                    continue
                for tb, to in ((tthen, telse), (telse, tthen)):
                    Yb = cells(tb, ("write", "assign"))
                    Yo = cells(to, ("write", "assign"))
                    if not (Yb - Yo) or not (G & Yb):
                        continue
                    # only derived values count (a constant store is a reset)
                    derived = {e.cell for e in iter_events(tb)
                               if e.kind == "write" and e.cell in (Yb - Yo)}
                    if not derived:
                        continue
                    src = cells(tb, ("read",)) - G - Yb - OUTPUT_ONLY_CELLS - cm.counters
                    if not src:
                        continue
                    n_sites += 1
                    guard = G | Yb
                    for D in sorted((d for d in prog.classes.values()
                                     if C in d.mro and prog.lookup(d, f.name) is f),
                                    key=lambda d: d.name):
                        acts = cm.activations(D) if prog.is_subclass(D, "Cached") else \
                            [g for nme, g in sorted(prog.all_methods(D).items())
                             if g.kind == "method" and not nme.startswith("_")]
                        for a in acts:
                            if a is f:
                                continue
                            wr, _, _, _ = tree_summary(prog.tree(a, D, {}))
                            hit = sorted(src & set(wr))
                            if not hit:
                                continue
                            # the writer must make the *test* fail next time: it
                            # has to touch a cell the test reads (rewriting some of
                            # the recomputed cells leaves the test true and the rest
                            # of them stale)
                            ok = bool(G & set(wr))
                            inst = f"{D.name}:{f.qualname}:{a.qualname}"
                            run.oblige(rule, "recompute:" + inst, ok, sample={
                                "where": f"{f.module.relpath}:{node.lineno}",
                                "guard": sorted(G), "memo": sorted(Yb - Yo)[:6],
                                "derived_from": hit, "writer": a.qualname})
                            if not ok:
                                w = wr[hit[0]]
                                run.add(
                                    rule, f"recompute/{f.qualname}/"
                                    f"{'+'.join(sorted(G))}/{w.func.qualname}",
                                    w.where,
                                    f"{f.qualname} recomputes {sorted(derived)[:4]} only "
                                    f"when its test on {sorted(G)} says so "
                                    f"({f.module.relpath}:{node.lineno}), but they are "
                                    f"derived from {hit}, which {w.func.qualname} "
                                    f"rewrites (entry {a.qualname}) without touching the "
                                    f"guard: the stale value is reused",
                                    classes=[D.name])
    run.count(rule, n_sites)
    return n_sites


def _k4_groups(run, prog, cm):
    """Co-written groups of the two Network property setters."""
    net = prog.classes.get("Network")
    if net is None:
        raise AnalysisError("class Network vanished")
    groups = {}
    for pname in ("adjacency", "node_weights"):
        pr = net.props.get(pname)
        if not pr or "set" not in pr:
            raise AnalysisError(f"Network.{pname} setter vanished")
        setter = pr["set"]
        t = prog.tree(setter, net, {})
        cells = {e.cell for e in iter_events(t, into_calls=False)
                 if e.kind in ("write", "assign")}
        # (a bump delegated to a helper method still counts)
        bumps = {e.cell for e in iter_events(t, into_calls=True) if e.kind == "bump"}
        groups[pname] = (setter, frozenset(cells), frozenset(bumps))
    run.extra["setter_groups"] = {k: {"cells": sorted(v[1]), "bumps": sorted(v[2])}
                                  for k, v in groups.items()}
    if not groups["adjacency"][2] or not groups["node_weights"][2]:
        f = groups["adjacency"][0] if not groups["adjacency"][2] else groups["node_weights"][0]
        run.add("K4", f"group/{f.qualname}/no-bump", f.where,
                f"{f.qualname} no longer bumps its mutation counter")
    # primary members only: the data itself, not the size bookkeeping that
    # other mix-ins (recurrence plots) legitimately redefine
    primary = {"adjacency": {"sp_A", "graph"},
               "node_weights": {"_node_weights", "mean_node_weight",
                                "total_node_weight"}}
    n = 0
    for C in cm.classes:
        if net not in C.mro:
            continue
        for a in cm.activations(C):
            t = prog.tree(a, C, {})
            for pname, (setter, cells, bumps) in groups.items():
                if a is setter:
                    continue
                bad = _writes_outside(t, setter, primary[pname] & cells)
                for e in bad:
                    # constructor default-initialisation followed by the setter
                    # on every normal path of the same activation is accepted
                    if e.func.name == "__init__" and e.kind == "assign":
                        continue
                    n += 1
                    key = f"group/{e.func.qualname}/{e.cell}"
                    run.oblige("K4", f"group:{C.name}:{a.qualname}:{e.cell}", False,
                               sample={"where": e.where})
                    run.add("K4", key, e.where,
                            f"{e.func.qualname} writes `{e.cell}` directly, bypassing "
                            f"{setter.qualname} (co-written group {sorted(cells)}, "
                            f"counter {sorted(bumps)}) - reached from {a.qualname}",
                            classes=[C.name])
                run.oblige("K4", f"group:{C.name}:{a.qualname}:{pname}", not bad,
                           nontrivial=False)


def _writes_outside(t, setter, cells):
    """write events on `cells` that are not inside a call of `setter`."""
    out = []

    def go(n, inside):
        k = n[0]
        if k == "ev":
            e = n[1]
            if not inside and e.kind in ("write", "assign") and e.cell in cells:
                # in-place graph mutations inside setter-owned flows are fine
                if e.cell == "graph" and e.info.get("how", "").startswith("."):
                    return
                out.append(e)
        elif k in ("seq", "alt"):
            for c in n[1]:
                go(c, inside)
        elif k == "loop":
            go(n[1], inside)
        elif k == "call":
            go(n[2], inside or n[1].func is setter)
    go(t, False)
    return out
