"""Static verification of pyunicorn - see /verif/DESIGN.md."""
