"""Shared helpers on the small loop IR (cymodel.X): a Python-ast -> X converter
for the loop/if/assign subset, and the *counting-kernel extractor* used by the
motif-completeness and sibling-agreement rules (C03/M1, C11/X1, C14)."""
from __future__ import annotations

import ast
from dataclasses import dataclass, field
from typing import Optional

from .cymodel import X, pp, walk, names_in

_PY_BIN = {ast.Add: "+", ast.Sub: "-", ast.Mult: "*", ast.Div: "/", ast.FloorDiv: "//",
           ast.Mod: "%", ast.Pow: "**", ast.BitAnd: "&", ast.BitOr: "|",
           ast.MatMult: "@", ast.BitXor: "^", ast.LShift: "<<", ast.RShift: ">>"}
_PY_CMP = {ast.Eq: "==", ast.NotEq: "!=", ast.Lt: "<", ast.LtE: "<=", ast.Gt: ">",
           ast.GtE: ">=", ast.Is: "is", ast.IsNot: "is_not", ast.In: "in",
           ast.NotIn: "not_in"}


def py_expr(e) -> Optional[X]:
    if e is None:
        return None
    ln = getattr(e, "lineno", 0)
    if isinstance(e, ast.Name):
        return X("name", e.id, line=ln)
    if isinstance(e, ast.Constant):
        v = e.value
        if v is None:
            return X("none", line=ln)
        if isinstance(v, bool):
            return X("bool", v, line=ln)
        if isinstance(v, (int, float)):
            return X("num", v, line=ln)
        return X("str", str(v), line=ln)
    if isinstance(e, ast.BinOp):
        return X("bin", _PY_BIN.get(type(e.op), "?"), py_expr(e.left), py_expr(e.right),
                 line=ln)
    if isinstance(e, ast.UnaryOp):
        if isinstance(e.op, ast.Not):
            return X("not", py_expr(e.operand), line=ln)
        if isinstance(e.op, ast.USub):
            return X("un", "-", py_expr(e.operand), line=ln)
        return py_expr(e.operand)
    if isinstance(e, ast.Compare):
        parts = []
        left = e.left
        for op, r in zip(e.ops, e.comparators):
            parts.append(X("cmp", _PY_CMP.get(type(op), "?"), py_expr(left), py_expr(r),
                           line=ln))
            left = r
        return parts[0] if len(parts) == 1 else X("boolop", "and", parts, line=ln)
    if isinstance(e, ast.BoolOp):
        op = "and" if isinstance(e.op, ast.And) else "or"
        parts = []
        for v in e.values:
            x = py_expr(v)
            if x.k == "boolop" and x.a[0] == op:
                parts.extend(x.a[1])
            else:
                parts.append(x)
        return X("boolop", op, parts, line=ln)
    if isinstance(e, ast.Subscript):
        s = e.slice
        idx = [py_expr(d) for d in s.elts] if isinstance(s, ast.Tuple) else [py_expr(s)]
        return X("index", py_expr(e.value), idx, line=ln)
    if isinstance(e, ast.Slice):
        return X("slice", py_expr(e.lower), py_expr(e.upper), py_expr(e.step), line=ln)
    if isinstance(e, ast.Attribute):
        return X("attr", py_expr(e.value), e.attr, line=ln)
    if isinstance(e, ast.Call):
        return X("call", py_expr(e.func), [py_expr(a) for a in e.args],
                 {k.arg: py_expr(k.value) for k in e.keywords if k.arg}, line=ln)
    if isinstance(e, ast.Tuple):
        return X("tuple", [py_expr(a) for a in e.elts], line=ln)
    if isinstance(e, ast.List):
        return X("list", [py_expr(a) for a in e.elts], line=ln)
    if isinstance(e, ast.IfExp):
        return X("cond", py_expr(e.test), py_expr(e.body), py_expr(e.orelse), line=ln)
    return X("other", type(e).__name__, line=ln)


def py_stmts(stmts) -> list:
    out = []
    for st in stmts:
        ln = getattr(st, "lineno", 0)
        if isinstance(st, ast.Assign):
            out.append(X("assign", [py_expr(t) for t in st.targets], py_expr(st.value),
                         line=ln))
        elif isinstance(st, ast.AnnAssign) and st.value is not None:
            out.append(X("assign", [py_expr(st.target)], py_expr(st.value), line=ln))
        elif isinstance(st, ast.AugAssign):
            out.append(X("aug", _PY_BIN.get(type(st.op), "?"), py_expr(st.target),
                         py_expr(st.value), line=ln))
        elif isinstance(st, ast.For):
            out.append(X("for", py_expr(st.target), py_expr(st.iter), py_stmts(st.body),
                         py_stmts(st.orelse), line=ln))
        elif isinstance(st, ast.While):
            out.append(X("while", py_expr(st.test), py_stmts(st.body), line=ln))
        elif isinstance(st, ast.If):
            clauses = [(py_expr(st.test), py_stmts(st.body))]
            orelse = st.orelse
            while len(orelse) == 1 and isinstance(orelse[0], ast.If):
                clauses.append((py_expr(orelse[0].test), py_stmts(orelse[0].body)))
                orelse = orelse[0].orelse
            out.append(X("if", clauses, py_stmts(orelse), line=ln))
        elif isinstance(st, ast.Return):
            out.append(X("return", py_expr(st.value), line=ln))
        elif isinstance(st, ast.Expr):
            if isinstance(st.value, ast.Constant):
                continue
            out.append(X("expr", py_expr(st.value), line=ln))
        elif isinstance(st, ast.Break):
            out.append(X("break", line=ln))
        elif isinstance(st, ast.Continue):
            out.append(X("continue", line=ln))
        elif isinstance(st, ast.Pass):
            out.append(X("pass", line=ln))
        else:
            out.append(X("other", type(st).__name__, line=ln))
    return out


# ---------------------------------------------------------------------------
# counting-kernel extraction

@dataclass
class CountSite:
    counter: str
    amount: str
    line: int
    tests: list = field(default_factory=list)      # [(array, (a, b), positive)]
    other_conds: list = field(default_factory=list)  # conditions not of that form
    loops: list = field(default_factory=list)      # [(var, iter X)] outer -> inner
    bindings: dict = field(default_factory=dict)   # name -> X (reaching simple defs)

    def pairs(self, array=None):
        return {frozenset(t[1]) for t in self.tests
                if t[2] and (array is None or t[0] == array)}


def _conj(cond: X) -> list:
    if cond.k == "boolop" and cond.a[0] == "and":
        out = []
        for c in cond.a[1]:
            out.extend(_conj(c))
        return out
    return [cond]


def _adj_test(c: X):
    """A[x, y] == 1 / A[x, y] / A[x][y] -> (array, (x, y), positive)"""
    pos = True
    e = c
    if e.k == "not":
        pos, e = False, e.a[0]
    if e.k == "cmp" and e.a[0] in ("==", "!="):
        l, r = e.a[1], e.a[2]
        if r.k in ("num", "bool") and l.k == "index":
            val = r.a[0]
            if e.a[0] == "!=":
                val = 0 if val else 1
            pos = pos if val else not pos
            e = l
        else:
            return None
    if e.k == "index":
        base, idx = e.a[0], e.a[1]
        if len(idx) == 2 and base.k == "name":
            return (base.a[0], (pp(idx[0]), pp(idx[1])), pos)
        if len(idx) == 1 and base.k == "index" and len(base.a[1]) == 1 and \
                base.a[0].k == "name":
            return (base.a[0].a[0], (pp(base.a[1][0]), pp(idx[0])), pos)
    return None


def count_sites(body: list, counters=None) -> list[CountSite]:
    """All `counter += amount` statements with the conjunction of conditions
    and the loop nest on the path to them."""
    out = []

    def go(stmts, conds, loops, binds):
        binds = dict(binds)
        for st in stmts:
            if st.k == "assign" and len(st.a[0]) == 1 and st.a[0][0].k == "name":
                binds[st.a[0][0].a[0]] = st.a[1]
            elif st.k == "assign":
                for t in st.a[0]:
                    if t.k == "name":
                        binds[t.a[0]] = st.a[1]
                    elif t.k == "tuple" and st.a[1].k == "tuple" and \
                            len(t.a[0]) == len(st.a[1].a[0]):
                        for a, b in zip(t.a[0], st.a[1].a[0]):
                            if a.k == "name":
                                binds[a.a[0]] = b
            inc = None                      # (counter name, amount X)
            if st.k == "aug" and st.a[0] == "+" and st.a[1].k == "name":
                inc = (st.a[1].a[0], st.a[2])
            elif st.k == "assign" and len(st.a[0]) == 1 and st.a[0][0].k == "name" and \
                    st.a[1].k == "bin" and st.a[1].a[0] == "+":
                # the spelled-out increment  c = c + amount  /  c = amount + c
                c_ = st.a[0][0].a[0]
                l_, r_ = st.a[1].a[1], st.a[1].a[2]
                if l_.k == "name" and l_.a[0] == c_:
                    inc = (c_, r_)
                elif r_.k == "name" and r_.a[0] == c_:
                    inc = (c_, l_)
            if inc is not None and (counters is None or inc[0] in counters):
                cs = CountSite(inc[0], pp(inc[1]), st.line, loops=list(loops),
                               bindings=dict(binds))
                for c in conds:
                    t = _adj_test(c)
                    if t is not None:
                        cs.tests.append(t)
                    else:
                        cs.other_conds.append(c)
                out.append(cs)
            elif st.k == "for":
                go(st.a[2], conds, loops + [(pp(st.a[0]), st.a[1])], binds)
            elif st.k == "while":
                go(st.a[1], conds + _conj(st.a[0]), loops + [("while", st.a[0])], binds)
            elif st.k == "if":
                neg = []
                for cond, b in st.a[0]:
                    go(b, conds + neg + _conj(cond), loops, binds)
                    neg = neg + [X("not", cond)]
                go(st.a[1], conds + neg, loops, binds)
                # guard clause: `if C: continue` puts the rest of the block under
                # `not C` (each alternative that ends in continue/break/return)
                if not st.a[1] and all(b and b[-1].k in ("continue", "break", "return")
                                       for _, b in st.a[0]):
                    for cond, _ in st.a[0]:
                        conds = conds + _neg_conj(cond)
    go(body, [], [], {})
    return out


def _neg_conj(cond: X) -> list:
    """Conjuncts of `not cond` (De Morgan for `or`, double negation)."""
    if cond.k == "not":
        return _conj(cond.a[0])
    if cond.k == "boolop" and cond.a[0] == "or":
        out = []
        for c in cond.a[1]:
            out.extend(_neg_conj(c))
        return out
    if cond.k == "cmp" and cond.a[0] in ("==", "!="):
        return [X("cmp", "!=" if cond.a[0] == "==" else "==", cond.a[1], cond.a[2],
                  line=cond.line)]
    if cond.k == "cmp" and cond.a[0] in (">=", "<=") and \
            all(x.k in ("name", "num") for x in (cond.a[1], cond.a[2])):
        # integer loop bookkeeping (k >= j): the complement is exact
        return [X("cmp", "<" if cond.a[0] == ">=" else ">", cond.a[1], cond.a[2],
                  line=cond.line)]
    return [X("not", cond)]


def resolve_role(name: str, site: CountSite):
    """(source array or 'range', loop var, loop iter X) of a role variable."""
    b = site.bindings.get(name)
    lv = name
    src = "range"
    if b is not None and b.k == "index" and b.a[0].k == "name" and len(b.a[1]) == 1 \
            and b.a[1][0].k == "name":
        src = b.a[0].a[0]
        lv = b.a[1][0].a[0]
    elif b is not None and b.k == "name":
        lv = b.a[0]
    for v, it in site.loops:
        if v == lv:
            return src, lv, it
    return src, lv, None


# ---------------------------------------------------------------------------
# loop-carried work arrays

def _const_like(x: X, written: set) -> bool:
    """Value does not read any of the work arrays."""
    return not (names_in(x) & written)


def full_init_arrays(st: X, written: set):
    """Arrays that statement `st` fully (re-)initialises, with the range
    expressions used: {array: [range args]} or {}.

    Recognised forms:
      A.fill(c)
      for l in range(n): A[l] = B[l] = v           (v does not read work arrays)
      for j in range(n): for k in range(j+1): A[j,k] = A[k,j] = v   (+ 1-d stores)
      for j in range(n): for k in range(m): A[j,k] = v
    """
    out = {}
    if st.k == "expr" and st.a[0].k == "call" and st.a[0].a[0].k == "attr" and \
            st.a[0].a[0].a[1] == "fill" and st.a[0].a[0].a[0].k == "name":
        if all(_const_like(a, written) for a in st.a[0].a[1]):
            out[st.a[0].a[0].a[0].a[0]] = ["fill"]
        return out
    if not (st.k == "for" and st.a[0].k == "name" and st.a[1].k == "call"
            and pp(st.a[1].a[0]) == "range" and len(st.a[1].a[1]) == 1):
        return out
    j = st.a[0].a[0]
    n = pp(st.a[1].a[1][0])
    merged = _merged_triangular_init(st, written, j, n)
    if merged:
        return merged

    def _reads_only_done(v, done):
        """v reads work arrays only as A[j] with A initialised earlier in this
        very loop body (so B[j] = A[j] initialises B as well)."""
        used = names_in(v) & written
        if not used <= done:
            return False
        for x in walk(v):
            if isinstance(x, X) and x.k == "index" and x.a[0].k == "name" and \
                    x.a[0].a[0] in used:
                if not (len(x.a[1]) == 1 and pp(x.a[1][0]) == j):
                    return False
        # no bare (un-indexed) use of a work array
        for x in walk(v):
            if isinstance(x, X) and x.k == "name" and x.a[0] in used:
                pass
        return True
    done_here = set()
    for s in st.a[2]:
        if s.k == "assign" and (_const_like(s.a[1], written) or
                                _reads_only_done(s.a[1], done_here)):
            for t in s.a[0]:
                if t.k == "index" and t.a[0].k == "name" and len(t.a[1]) == 1 and \
                        pp(t.a[1][0]) == j:
                    out.setdefault(t.a[0].a[0], []).append(n)
                    done_here.add(t.a[0].a[0])
        elif s.k == "for" and s.a[0].k == "name" and s.a[1].k == "call" and \
                pp(s.a[1].a[0]) == "range" and len(s.a[1].a[1]) == 1:
            k = s.a[0].a[0]
            inner = pp(s.a[1].a[1][0]).replace(" ", "")
            tri = inner in (f"({j}+1)", f"{j}+1")
            for s2 in s.a[2]:
                if s2.k != "assign" or not _const_like(s2.a[1], written):
                    return {}
                idx = [tuple(pp(i) for i in t.a[1]) for t in s2.a[0]
                       if t.k == "index" and t.a[0].k == "name"]
                arrs = {t.a[0].a[0] for t in s2.a[0] if t.k == "index"
                        and t.a[0].k == "name"}
                if len(arrs) != 1:
                    return {}
                a = arrs.pop()
                if tri and set(idx) == {(j, k), (k, j)}:
                    out.setdefault(a, []).append(n)
                elif not tri and (j, k) in idx:
                    out.setdefault(a, []).append(f"{n}x{inner}")
                else:
                    return {}
        else:
            return {}
    return out


def _merged_triangular_init(st: X, written: set, j: str, n: str) -> dict:
    """The initialisation merged into the pair loop that uses the arrays:

        for j in range(n):
            B[j] = c ; A[j, j] = c            # leading constant stores
            for k in range(j):
                A[j, k] = A[k, j] = c         # leading constant stores
                <code that touches only A[j,k], A[k,j], A[j,j], B[j], B[k]>

    Every element is written with a constant before its first use in the
    iteration (B[k], k < j, in an earlier pass of the j loop), and after the
    loop the diagonal and both triangles of A and all of B are initialised."""
    body = st.a[2]
    one_d, diag = set(), set()
    i = 0
    while i < len(body) and body[i].k == "assign" and _const_like(body[i].a[1], written):
        for t in body[i].a[0]:
            if not (t.k == "index" and t.a[0].k == "name"):
                return {}
            idx = tuple(pp(x) for x in t.a[1])
            if idx == (j,):
                one_d.add(t.a[0].a[0])
            elif idx == (j, j):
                diag.add(t.a[0].a[0])
            else:
                return {}
        i += 1
    rest = body[i:]
    if len(rest) != 1 or not (rest[0].k == "for" and rest[0].a[0].k == "name" and
                              rest[0].a[1].k == "call" and
                              pp(rest[0].a[1].a[0]) == "range" and
                              len(rest[0].a[1].a[1]) == 1 and
                              pp(rest[0].a[1].a[1][0]) == j):
        return {}
    k = rest[0].a[0].a[0]
    kbody = rest[0].a[2]
    seen = {}
    m = 0
    while m < len(kbody) and kbody[m].k == "assign" and \
            _const_like(kbody[m].a[1], written) and all(
                t.k == "index" and t.a[0].k == "name" and
                tuple(pp(x) for x in t.a[1]) in ((j, k), (k, j)) for t in kbody[m].a[0]):
        for t in kbody[m].a[0]:
            seen.setdefault(t.a[0].a[0], set()).add(tuple(pp(x) for x in t.a[1]))
        m += 1
    tri = {a for a, v in seen.items() if v == {(j, k), (k, j)}}
    if not tri or m == 0:
        return {}
    two_d = tri & diag
    ok2 = {(j, k), (k, j), (j, j), (k, k)}
    ok1 = {(j,), (k,)}
    for x in walk(kbody[m:]):
        if not isinstance(x, X):
            continue
        if x.k == "index" and x.a[0].k == "name" and x.a[0].a[0] in written:
            idx = tuple(pp(y) for y in x.a[1])
            a = x.a[0].a[0]
            if a in two_d and idx in ok2:
                continue
            if a in one_d and idx in ok1:
                continue
            return {}
    # no bare use of a work array in the loop
    for x in walk(kbody[m:]):
        if isinstance(x, X) and x.k in ("call",):
            for arg in x.a[1]:
                if arg.k == "name" and arg.a[0] in written:
                    return {}
    out = {a: [n] for a in two_d}
    out.update({a: [n] for a in one_d})
    return out


def stale_work_arrays(body: list, arrays: set, accumulator=None):
    """[(array, stmt)] for work arrays (written somewhere in `body`) that are
    used in an iteration before being fully re-initialised in it."""
    written = set()
    for n in walk(body):
        if isinstance(n, X) and n.k in ("assign", "aug"):
            tg = n.a[0] if n.k == "assign" else [n.a[1]]
            for t in tg:
                if t.k == "index" and t.a[0].k == "name":
                    written.add(t.a[0].a[0])
                elif t.k == "name" and t.a[0] in arrays:
                    written.add(t.a[0])
        if isinstance(n, X) and n.k == "call" and n.a[0].k == "attr" and \
                n.a[0].a[1] == "fill" and n.a[0].a[0].k == "name":
            written.add(n.a[0].a[0].a[0])
    written &= arrays
    inited = set()
    problems = []
    for st in body:
        fi = full_init_arrays(st, written)
        if fi:
            # the initialiser itself may read already initialised arrays only
            used = (names_in(st) & written) - set(fi)
            for a in sorted(used - inited):
                problems.append((a, st))
            inited |= set(fi)
            continue
        used = names_in(st) & written
        for a in sorted(used - inited):
            if a == accumulator and st.k == "aug" and st.a[0] == "+" and \
                    pp(st.a[1]) == a and a not in names_in(st.a[2]):
                continue
            problems.append((a, st))
            inited.add(a)
    return written, problems


def symmetric_store_report(body, arrays=None):
    """Stores `arr[a, b] = v` to 2-index arrays, block by block.

    -> [(arr, (a, b), value text, stmt, mirrored)] where `mirrored` says that the
    same block (the same statement list: one chained store or neighbouring
    statements) also stores the same value text to arr[b, a].  Chained and
    separate spellings are equivalent."""
    from .cymodel import pp
    out = []

    def block(stmts):
        here = []
        for st in stmts:
            if st.k == "assign":
                for t in st.a[0]:
                    if t.k == "index" and len(t.a[1]) == 2 and t.a[0].k == "name" and \
                            (arrays is None or t.a[0].a[0] in arrays):
                        here.append((t.a[0].a[0], (pp(t.a[1][0]), pp(t.a[1][1])),
                                     pp(st.a[1]), st))
            elif st.k == "for":
                block(st.a[2])
            elif st.k == "while":
                block(st.a[1])
            elif st.k == "if":
                for c, b in st.a[0]:
                    block(b)
                block(st.a[1])
        for (arr, idx, v, st) in here:
            mirrored = idx[0] == idx[1] or any(
                a2 == arr and i2 == (idx[1], idx[0]) and v2 == v
                for (a2, i2, v2, s2) in here)
            out.append((arr, idx, v, st, mirrored))
    block(body)
    return out


# ---------------------------------------------------------------------------
# alpha-normalisation helpers (rules must not depend on local names)

def canon_loopvars(body, letters="ijklmnop", depth=0):
    """Copy of `body` with every for-loop variable renamed by nesting depth
    (outermost i, then j, k, ...) inside the loop it controls.  Two phases (first
    to unique placeholders, then to the letters), so that loops whose variables
    are a permutation of the canonical letters are renamed simultaneously."""
    from .cymodel import rename_x, canonical_mapping

    def phase1(stmts, d):
        out = []
        for st in stmts:
            if st.k == "for" and st.a[0].k == "name" and d < len(letters):
                ph = f"\x00L{d}"
                inner = rename_x(st.a[2], {st.a[0].a[0]: ph})
                inner = phase1(inner, d + 1)
                rest = st.a[3:] if len(st.a) > 3 else ()
                out.append(X("for", X("name", ph, line=st.a[0].line), st.a[1],
                             inner, *rest, line=st.line))
            elif st.k == "for":
                rest = st.a[3:] if len(st.a) > 3 else ()
                out.append(X("for", st.a[0], st.a[1], phase1(st.a[2], d + 1), *rest,
                             line=st.line))
            elif st.k == "while":
                out.append(X("while", st.a[0], phase1(st.a[1], d), *st.a[2:],
                             line=st.line))
            elif st.k == "if":
                out.append(X("if", [(c, phase1(b, d)) for c, b in st.a[0]],
                             phase1(st.a[1], d), line=st.line))
            else:
                out.append(st)
        return out
    tmp = phase1(body, depth)
    names = names_in(tmp)
    roles = {f"\x00L{d}": letters[d] for d in range(len(letters)) if f"\x00L{d}" in names}
    # the iterables of the loops were not renamed by phase 1 for their own
    # variable, but mention outer variables through the placeholders already
    return rename_x(tmp, canonical_mapping(roles, names))


def quotient_numerators(body) -> list:
    """Names n appearing as `target = n / <expr>` (casts ignored): the counters
    a counting kernel normalises."""
    out = []

    def strip(e):
        while e.k == "cast":
            e = e.a[1]
        return e
    for st in walk(body):
        if isinstance(st, X) and st.k == "assign":
            v = strip(st.a[1])
            if v.k == "bin" and v.a[0] == "/" and strip(v.a[1]).k == "name":
                out.append(strip(v.a[1]).a[0])
    return out


def quotients(body) -> list:
    """[(numerator name, denominator name | None, stmt)] for every statement
    `target = n / d` or `return n / d` (casts and float()/int() wrappers
    ignored): how a counting kernel combines its counters."""
    out = []

    def strip(e):
        while True:
            if e.k == "cast":
                e = e.a[1]
            elif e.k == "call" and e.a[0].k == "name" and \
                    e.a[0].a[0] in ("float", "int", "double") and len(e.a[1]) == 1:
                e = e.a[1][0]
            else:
                return e
    for st in walk(body):
        if not isinstance(st, X):
            continue
        v = None
        if st.k == "assign":
            v = strip(st.a[1])
        elif st.k == "return" and st.a and st.a[0] is not None:
            v = strip(st.a[0])
        if v is not None and v.k == "bin" and v.a[0] == "/" and strip(v.a[1]).k == "name":
            d = strip(v.a[2])
            out.append((strip(v.a[1]).a[0], d.a[0] if d.k == "name" else None, st))
    return out


def guarded_store_blocks(body, arr):
    """[(conditions, statement list)] for every statement list that stores into
    the 2-index array `arr`, with the conjunction of conditions under which it is
    reached: enclosing `if` tests, negated earlier alternatives, and guard
    clauses (`if C: continue/break/return` puts the rest of the block under
    not C)."""
    out = []

    def go(stmts, conds):
        conds = list(conds)
        has_store = any(st.k == "assign" and any(
            t.k == "index" and t.a[0].k == "name" and t.a[0].a[0] == arr and
            len(t.a[1]) == 2 for t in st.a[0]) for st in stmts)
        snapshot = None
        for st in stmts:
            if st.k == "if":
                neg = []
                for cond, b in st.a[0]:
                    go(b, conds + neg + _conj(cond))
                    neg = neg + _neg_conj(cond)
                go(st.a[1], conds + neg)
                if not st.a[1] and all(b and b[-1].k in ("continue", "break", "return")
                                       for _, b in st.a[0]):
                    for cond, _ in st.a[0]:
                        conds = conds + _neg_conj(cond)
            elif st.k == "for":
                go(st.a[2], conds)
            elif st.k == "while":
                go(st.a[1], conds)
            elif st.k == "assign" and has_store and snapshot is None and any(
                    t.k == "index" and t.a[0].k == "name" and t.a[0].a[0] == arr
                    for t in st.a[0]):
                snapshot = list(conds)
        if has_store:
            out.append((snapshot if snapshot is not None else conds, stmts))
    go(body, [])
    return out


# ---------------------------------------------------------------------------
# spelling-independent kernel bodies

def _subst_names_x(x, mapping: dict):
    """Copy of an IR tree with `name` nodes replaced by expressions."""
    if isinstance(x, X):
        if x.k == "name" and x.a[0] in mapping:
            return mapping[x.a[0]]
        return X(x.k, *[_subst_names_x(v, mapping) for v in x.a], line=x.line)
    if isinstance(x, list):
        return [_subst_names_x(v, mapping) for v in x]
    if isinstance(x, tuple):
        return tuple(_subst_names_x(v, mapping) for v in x)
    if isinstance(x, dict):
        return {k: _subst_names_x(v, mapping) for k, v in x.items()}
    return x


def inline_element_locals(body: list) -> list:
    """Scalars that only hoist an element read (`x_i = x[i]`, also as part of a
    tuple assignment), assigned in exactly one statement and never updated,
    are replaced by the element they stand for."""
    defs, bad = {}, set()
    for st in walk(body):
        if not isinstance(st, X):
            continue
        if st.k == "assign":
            for t in st.a[0]:
                pairs = []
                if t.k == "name":
                    pairs = [(t, st.a[1])]
                elif t.k == "tuple" and st.a[1].k == "tuple" and \
                        len(t.a[0]) == len(st.a[1].a[0]):
                    pairs = list(zip(t.a[0], st.a[1].a[0]))
                elif t.k == "tuple":
                    bad |= {e.a[0] for e in t.a[0] if e.k == "name"}
                for n_, v_ in pairs:
                    if n_.k == "name":
                        defs.setdefault(n_.a[0], []).append(v_)
        elif st.k == "aug" and st.a[1].k == "name":
            bad.add(st.a[1].a[0])
        elif st.k == "for":
            bad |= names_in(st.a[0])
    mp = {}
    for n_, vs in defs.items():
        if n_ in bad or len(vs) != 1:
            continue
        v = vs[0]
        if v.k == "index" and v.a[0].k == "name" and all(
                i.k in ("name", "num") or (i.k == "bin" and i.a[0] in "+-")
                for i in v.a[1]) and n_ not in names_in(v):
            # the indices must not be reassigned scalars themselves (loop
            # variables and parameters are fine)
            if not (names_in(v.a[1]) & set(defs)):
                mp[n_] = v
    if not mp:
        return body

    def strip(stmts):
        out = []
        for st in stmts:
            if st.k == "assign" and len(st.a[0]) == 1:
                t = st.a[0][0]
                if t.k == "name" and t.a[0] in mp:
                    continue
                if t.k == "tuple" and st.a[1].k == "tuple" and \
                        len(t.a[0]) == len(st.a[1].a[0]):
                    keep = [(a_, b_) for a_, b_ in zip(t.a[0], st.a[1].a[0])
                            if not (a_.k == "name" and a_.a[0] in mp)]
                    if not keep:
                        continue
                    if len(keep) < len(t.a[0]):
                        for a_, b_ in keep:
                            out.append(X("assign", [a_], b_, line=st.line))
                        continue
            if st.k == "for":
                st = X("for", st.a[0], st.a[1], strip(st.a[2]), *st.a[3:], line=st.line)
            elif st.k == "while":
                st = X("while", st.a[0], strip(st.a[1]), *st.a[2:], line=st.line)
            elif st.k == "if":
                st = X("if", [(c, strip(b)) for c, b in st.a[0]], strip(st.a[1]),
                       line=st.line)
            out.append(st)
        return out
    return _subst_names_x(strip(body), mp)


def _and(conds, line=0):
    conds = list(conds)
    return conds[0] if len(conds) == 1 else X("boolop", "and", conds, line=line)


def normalise_scans(body: list) -> list:
    """Two equivalent spellings are brought to one form, recursively:

      if C: continue            ->   if <not C>: <rest of the block>
      <rest of the block>

      ok = True                 ->   k = a
      for k in range(a, b):          while <C> and k < b:
          if not <C>:                    k += 1
              ok = False; break      if k == b: BODY
      if ok: BODY
    """
    def truthy(v):
        return (v.k == "bool" and v.a[0] is True) or pp(v) in ("True", "1")

    def falsy(v):
        return (v.k == "bool" and v.a[0] is False) or pp(v) in ("False", "0")

    def for_break(stmts):
        """for k in range(a, B): if C: break   (k read afterwards)  ->
        k = a; while <not C> and k < B-1: k += 1"""
        out = []
        for st in stmts:
            if st.k == "for" and st.a[0].k == "name" and st.a[1].k == "call" and \
                    pp(st.a[1].a[0]) == "range" and len(st.a[1].a[1]) == 2 and \
                    st.a[2] and all(
                        b_.k == "if" and len(b_.a[0]) == 1 and not b_.a[1] and
                        len(b_.a[0][0][1]) == 1 and b_.a[0][0][1][0].k == "break"
                        for b_ in st.a[2]) and \
                    not (len(st.a) > 3 and st.a[3]):
                k_ = st.a[0]
                lo, hi = st.a[1].a[1]
                if hi.k == "bin" and hi.a[0] == "+" and pp(hi.a[2]) == "1":
                    last = hi.a[1]
                elif hi.k == "bin" and hi.a[0] == "+" and pp(hi.a[1]) == "1":
                    last = hi.a[2]
                else:
                    last = X("bin", "-", hi, X("num", 1), line=hi.line)
                # several `if Ci: break` in a row: leave at the first Ci that
                # holds, i.e. stay while none of them does (same evaluation order)
                keep = []
                for b_ in st.a[2]:
                    keep.extend(_neg_conj(b_.a[0][0][0]))
                bound = X("cmp", "<", k_, last, line=st.line)
                keep = [c for c in keep if pp(c) != pp(bound)] + [bound]
                out.append(X("assign", [k_], lo, line=st.line))
                out.append(X("while", _and(keep, st.line),
                             [X("aug", "+", k_, X("num", 1), line=st.line)], line=st.line))
            else:
                out.append(st)
        return out

    def block(stmts):
        stmts = for_break([one(st) for st in stmts])
        # flag scans
        out = []
        i = 0
        while i < len(stmts):
            st = stmts[i]
            done = False
            if st.k == "assign" and len(st.a[0]) == 1 and st.a[0][0].k == "name" \
                    and truthy(st.a[1]) and i + 1 < len(stmts):
                flag = st.a[0][0].a[0]
                lp = stmts[i + 1]
                if lp.k == "for" and lp.a[0].k == "name" and lp.a[1].k == "call" and \
                        pp(lp.a[1].a[0]) == "range" and len(lp.a[1].a[1]) == 2 and \
                        len(lp.a[2]) == 1 and lp.a[2][0].k == "if" and \
                        len(lp.a[2][0].a[0]) == 1 and not lp.a[2][0].a[1]:
                    cond, b = lp.a[2][0].a[0][0]
                    if len(b) == 2 and b[1].k == "break" and b[0].k == "assign" and \
                            pp(b[0].a[0][0]) == flag and falsy(b[0].a[1]):
                        k_ = lp.a[0]
                        lo, hi = lp.a[1].a[1]
                        keep = _neg_conj(cond)
                        rest = stmts[i + 2:]
                        use = [j for j, r in enumerate(rest) if flag in names_in(r)]
                        if len(use) == 1 and rest[use[0]].k == "if" and \
                                len(rest[use[0]].a[0]) == 1 and \
                                pp(rest[use[0]].a[0][0][0]) == flag and \
                                not rest[use[0]].a[1]:
                            u = rest[use[0]]
                            new_if = X("if", [(X("cmp", "==", k_, hi, line=u.line),
                                               u.a[0][0][1])], [], line=u.line)
                            out.append(X("assign", [k_], lo, line=st.line))
                            out.append(X("while", _and(keep + [X("cmp", "<", k_, hi,
                                                                 line=lp.line)], lp.line),
                                         [X("aug", "+", k_, X("num", 1), line=lp.line)],
                                         line=lp.line))
                            out.extend(rest[:use[0]])
                            out.append(new_if)
                            out.extend(rest[use[0] + 1:])
                            return guard(out)
            out.append(st)
            i += 1
        return guard(out)

    def guard(stmts):
        for i, st in enumerate(stmts):
            if st.k == "if" and len(st.a[0]) == 1 and not st.a[1] and \
                    len(st.a[0][0][1]) == 1 and st.a[0][0][1][0].k == "continue" and \
                    i + 1 < len(stmts):
                rest = guard(stmts[i + 1:])
                return stmts[:i] + [X("if", [(_and(_neg_conj(st.a[0][0][0]), st.line),
                                              rest)], [], line=st.line)]
        return stmts

    def one(st):
        if st.k == "for":
            return X("for", st.a[0], st.a[1], block(st.a[2]), *st.a[3:], line=st.line)
        if st.k == "while":
            return X("while", st.a[0], block(st.a[1]), *st.a[2:], line=st.line)
        if st.k == "if":
            return X("if", [(c, block(b)) for c, b in st.a[0]], block(st.a[1]),
                     line=st.line)
        return st
    return block(body)


def inline_value_helpers(f, depth=2):
    """Body of the kernel `f` in which calls `H(args)` of helpers defined in the
    same module are replaced by the helper's statements: H must end in its only
    `return e`; its parameters are replaced by the argument expressions
    (names, numbers and +/- of them - evaluated once in both spellings), its
    locals get fresh names and declared initial values become assignments.
    The rules then see the loops the un-factored kernel consisted of."""
    mod = f.module
    counter = [0]

    def simple(a):
        return a.k in ("name", "num") or (a.k == "bin" and a.a[0] in "+-" and
                                          simple(a.a[1]) and simple(a.a[2]))

    def expand_call(c):
        """-> (pre statements, value expression) or None"""
        if not (c.k == "call" and c.a[0].k == "name" and not c.a[2]):
            return None
        h = mod.funcs.get(c.a[0].a[0])
        if h is None or h is f or len(h.args) != len(c.a[1]) or not h.body:
            return None
        rets = [r for r in walk(h.body) if isinstance(r, X) and r.k == "return"]
        if len(rets) != 1 or h.body[-1] is not rets[0] or rets[0].a[0] is None:
            return None
        if not all(simple(a) for a in c.a[1]):
            return None
        counter[0] += 1
        k = counter[0]
        mp = {pn: a for (pn, _), a in zip(h.args, c.a[1])}
        assigned = set()
        for st in walk(h.body):
            if isinstance(st, X) and st.k == "assign":
                for t in st.a[0]:
                    for e in ([t] if t.k == "name" else t.a[0] if t.k == "tuple" else []):
                        if e.k == "name":
                            assigned.add(e.a[0])
            elif isinstance(st, X) and st.k == "aug" and st.a[1].k == "name":
                assigned.add(st.a[1].a[0])
            elif isinstance(st, X) and st.k == "for":
                assigned |= names_in(st.a[0])
        if assigned & set(mp):
            return None             # a parameter is rebound in the helper
        for n_ in set(h.locals) | assigned:
            mp[n_] = X("name", f"_h{k}_{n_}")
        pre = [X("assign", [X("name", f"_h{k}_{n_}")], init, line=ln)
               for n_, (t, init, ln) in h.locals.items() if init is not None]
        pre += _subst_names_x(h.body[:-1], mp)
        return pre, _subst_names_x(rets[0].a[0], mp)

    def expand_void(c):
        """statements of a helper called for its effects (no value returned)"""
        if not (c.k == "call" and c.a[0].k == "name" and not c.a[2]):
            return None
        h = mod.funcs.get(c.a[0].a[0])
        if h is None or h is f or len(h.args) != len(c.a[1]) or not h.body:
            return None
        rets = [r for r in walk(h.body) if isinstance(r, X) and r.k == "return"]
        if any(r.a and r.a[0] is not None for r in rets):
            return None
        body = h.body
        if rets:
            if len(rets) != 1 or body[-1] is not rets[0]:
                return None
            body = body[:-1]
        if not all(simple(a) for a in c.a[1]):
            return None
        counter[0] += 1
        k = counter[0]
        mp = {pn: a for (pn, _), a in zip(h.args, c.a[1])}
        assigned = set()
        for st in walk(body):
            if isinstance(st, X) and st.k == "assign":
                for t in st.a[0]:
                    for e in ([t] if t.k == "name" else t.a[0] if t.k == "tuple" else []):
                        if e.k == "name":
                            assigned.add(e.a[0])
            elif isinstance(st, X) and st.k == "aug" and st.a[1].k == "name":
                assigned.add(st.a[1].a[0])
            elif isinstance(st, X) and st.k == "for":
                assigned |= names_in(st.a[0])
        if assigned & set(mp):
            return None
        for n_ in set(h.locals) | assigned:
            mp[n_] = X("name", f"_h{k}_{n_}")
        pre = [X("assign", [X("name", f"_h{k}_{n_}")], init, line=ln)
               for n_, (t, init, ln) in h.locals.items() if init is not None]
        return pre + _subst_names_x(body, mp)

    def rewrite_expr(e, pre):
        if isinstance(e, X):
            if e.k == "call":
                r = expand_call(e)
                if r is not None:
                    pre.extend(r[0])
                    return r[1]
            return X(e.k, *[rewrite_expr(v, pre) for v in e.a], line=e.line)
        if isinstance(e, list):
            return [rewrite_expr(v, pre) for v in e]
        if isinstance(e, tuple):
            return tuple(rewrite_expr(v, pre) for v in e)
        if isinstance(e, dict):
            return {k_: rewrite_expr(v, pre) for k_, v in e.items()}
        return e

    def block(stmts):
        out = []
        for st in stmts:
            if st.k == "for":
                st = X("for", st.a[0], st.a[1], block(st.a[2]), *st.a[3:], line=st.line)
            elif st.k == "while":
                st = X("while", st.a[0], block(st.a[1]), *st.a[2:], line=st.line)
            elif st.k == "if":
                st = X("if", [(c, block(b)) for c, b in st.a[0]], block(st.a[1]),
                       line=st.line)
            elif st.k == "expr" and st.a and isinstance(st.a[0], X) and \
                    st.a[0].k == "call":
                v = expand_void(st.a[0])
                if v is not None:
                    out.extend(v)
                    continue
                pre = []
                st = rewrite_expr(st, pre)
                out.extend(pre)
            elif st.k in ("assign", "aug", "expr", "return"):
                pre = []
                st = rewrite_expr(st, pre)
                out.extend(pre)
            out.append(st)
        return out
    body = f.body
    for _ in range(depth):
        n0 = counter[0]
        body = block(body)
        if counter[0] == n0:
            break
    return body


def fold_subcounters(body: list) -> list:
    """`B = 0; ... B += c ...; A += B` with B used nowhere else is `... A += c
    ...`: a partial count kept in a (helper's) local and added to the real
    counter afterwards counts for that counter."""
    uses = {}
    for x in walk(body):
        if isinstance(x, X) and x.k == "name":
            uses[x.a[0]] = uses.get(x.a[0], 0) + 1
    folds = {}
    for st in walk(body):
        if isinstance(st, X) and st.k == "aug" and st.a[0] == "+" and \
                st.a[1].k == "name" and st.a[2].k == "name":
            A, B = st.a[1].a[0], st.a[2].a[0]
            if A == B:
                continue
            inits = [s for s in walk(body) if isinstance(s, X) and s.k == "assign"
                     and len(s.a[0]) == 1 and s.a[0][0].k == "name"
                     and s.a[0][0].a[0] == B]
            incs = [s for s in walk(body) if isinstance(s, X) and s.k == "aug"
                    and s.a[1].k == "name" and s.a[1].a[0] == B]
            if len(inits) == 1 and pp(inits[0].a[1]) in ("0", "0.0") and incs and \
                    all(s.a[0] == "+" and B not in names_in(s.a[2]) for s in incs) and \
                    uses.get(B, 0) == 1 + len(incs) + 1:
                folds[B] = (A, id(inits[0]), id(st))
    if not folds:
        return body
    drop = {i for _, i, j in folds.values()} | {j for _, i, j in folds.values()}
    ren = {B: X("name", A) for B, (A, _, _) in folds.items()}

    def block(stmts):
        out = []
        for st in stmts:
            if id(st) in drop:
                continue
            if st.k == "for":
                st = X("for", st.a[0], st.a[1], block(st.a[2]), *st.a[3:], line=st.line)
            elif st.k == "while":
                st = X("while", st.a[0], block(st.a[1]), *st.a[2:], line=st.line)
            elif st.k == "if":
                st = X("if", [(c, block(b)) for c, b in st.a[0]], block(st.a[1]),
                       line=st.line)
            elif st.k == "aug" and st.a[1].k == "name" and st.a[1].a[0] in ren:
                st = X("aug", st.a[0], ren[st.a[1].a[0]], st.a[2], line=st.line)
            out.append(st)
        return out
    return block(body)


def name_inline_elements(body: list) -> list:
    """`A[n1, L[k]]` -> `_e_L_k = L[k]` at the top of the loop over k and
    `A[n1, _e_L_k]`: a list element used directly as a matrix index gets the
    name the un-inlined spelling (`n3 = L[k]`) would have given it, so that the
    role-based rules see the same bindings."""
    def block(stmts, loopvars):
        out = []
        for st in stmts:
            if st.k == "for" and st.a[0].k == "name":
                v = st.a[0].a[0]
                inner = block(st.a[2], loopvars | {v})
                found = {}

                def repl(e):
                    if isinstance(e, X):
                        if e.k == "index" and len(e.a[1]) >= 2:
                            idx = []
                            for i in e.a[1]:
                                if i.k == "index" and i.a[0].k == "name" and \
                                        len(i.a[1]) == 1 and i.a[1][0].k == "name" and \
                                        i.a[1][0].a[0] == v:
                                    nm = f"_e_{i.a[0].a[0]}_{v}"
                                    found[nm] = i
                                    idx.append(X("name", nm, line=i.line))
                                else:
                                    idx.append(repl(i))
                            return X("index", repl(e.a[0]), idx, *e.a[2:], line=e.line)
                        return X(e.k, *[repl(x) for x in e.a], line=e.line)
                    if isinstance(e, list):
                        return [repl(x) for x in e]
                    if isinstance(e, tuple):
                        return tuple(repl(x) for x in e)
                    if isinstance(e, dict):
                        return {k: repl(x) for k, x in e.items()}
                    return e
                inner = repl(inner)
                binds = [X("assign", [X("name", nm)], src, line=st.line)
                         for nm, src in sorted(found.items())]
                st = X("for", st.a[0], st.a[1], binds + inner, *st.a[3:], line=st.line)
            elif st.k == "while":
                st = X("while", st.a[0], block(st.a[1], loopvars), *st.a[2:], line=st.line)
            elif st.k == "if":
                st = X("if", [(c, block(b, loopvars)) for c, b in st.a[0]],
                       block(st.a[1], loopvars), line=st.line)
            out.append(st)
        return out
    return block(body, frozenset())
