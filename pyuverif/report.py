"""Findings, known findings, evidence files, floors and exit codes.

Exit codes of a check:  0 property holds on everything analysed (or only
listed known findings), 1 at least one VIOLATION, 2 ANALYSIS-ERROR (the
analysis itself is incomplete or broken; never a silent pass).
"""
from __future__ import annotations

import json
import os
import sys
import time
import hashlib
from dataclasses import dataclass, field
from typing import Any

VERIF = os.path.dirname(os.path.dirname(os.path.abspath(__file__)))
REPO = os.environ.get("PYUVERIF_REPO", "/repo")


class AnalysisError(Exception):
    """The analysis could not be completed soundly (exit 2)."""


@dataclass
class Finding:
    prop: str
    rule: str
    key: str            # rule id + qualified construct names, never lines/text
    where: str          # file:line of the offending construct (diagnostic only)
    message: str        # diagnosable one-liner
    detail: dict = field(default_factory=dict)

    @property
    def full_key(self) -> str:
        return f"{self.prop}/{self.rule}/{self.key}"


def load_known(path: str | None = None) -> dict:
    path = path or os.path.join(VERIF, "known_findings.json")
    if not os.path.exists(path):
        return {"known": [], "fixed": []}
    with open(path, encoding="utf-8") as f:
        return json.load(f)


class Run:
    """One run of one property's checker."""

    def __init__(self, prop: str, tier: str = "quick", repo: str | None = None,
                 quiet: bool = False, write: bool = True):
        self.prop = prop
        self.tier = tier
        self.repo = repo or REPO
        self.quiet = quiet
        self.write = write
        self.t0 = time.time()
        self.findings: list[Finding] = []
        self.obligations = 0
        self.discharged = 0
        self.nontrivial: set[str] = set()
        self.samples: list[Any] = []
        self.units: dict[str, Any] = {}
        self.rules: dict[str, dict] = {}
        self.unknowns: list[str] = []
        self.assumptions: list[str] = []
        self.explanation = ""
        self.trusted: list[str] = []
        self.extra: dict[str, Any] = {}
        self.errors: list[str] = []
        self.seed = int(os.environ.get("VERIF_SEED", "0") or 0)

    # ---- bookkeeping -------------------------------------------------
    def rule(self, rid: str, text: str):
        self.rules.setdefault(rid, {"text": text, "obligations": 0,
                                    "discharged": 0, "instances": 0})

    def oblige(self, rid: str, instance: str, ok: bool, nontrivial: bool = True,
               sample: Any = None):
        """Record one obligation of rule `rid` about `instance`."""
        r = self.rules.setdefault(rid, {"text": "", "obligations": 0,
                                        "discharged": 0, "instances": 0})
        r["obligations"] += 1
        self.obligations += 1
        if ok:
            r["discharged"] += 1
            self.discharged += 1
        if nontrivial:
            self.nontrivial.add(f"{rid}:{instance}")
        if sample is not None and len([s for s in self.samples
                                       if s.get("rule") == rid]) < 4:
            self.samples.append({"rule": rid, "instance": instance,
                                 "ok": ok, **sample})

    def count(self, rid: str, n: int = 1):
        self.rules.setdefault(rid, {"text": "", "obligations": 0,
                                    "discharged": 0, "instances": 0})
        self.rules[rid]["instances"] += n

    def floor(self, what: str, got: int, least: int, hard: bool = False):
        """Instance counts confirmed by hand on the pinned tree.

        hard floors guard the front ends (classes, functions, kernels, C
        functions parsed; call sites resolved): falling below them means the
        analysis itself broke -> ANALYSIS-ERROR.  All other floors count code
        *patterns* a refactoring may legitimately remove or move; falling below
        them only means that a rule had less to decide, which is recorded under
        `unknowns` in the evidence and never fails a run."""
        if hard:
            # a front-end floor guards against a parser / resolver that silently
            # sees (almost) nothing; it is set well below the hand-confirmed count
            # (half of it), because merging classes, removing a memoised method
            # or moving a kernel from C to numpy is a legitimate change.  The
            # confirmed count itself is kept as a soft floor.
            if got < least:
                self.unknowns.append(
                    f"{what}: {got} analysed where {least} were confirmed on the "
                    f"pinned tree")
            least = max(1, least // 2)
        self.extra.setdefault("floors", {})[what] = {"got": got, "floor": least,
                                                     "hard": hard}
        if got < least:
            if hard:
                self.errors.append(
                    f"floor not reached: {what}: analysed {got} < {least} "
                    f"(anchor vanished or front end broke)")
            else:
                self.unknowns.append(
                    f"{what}: {got} instances found where {least} were confirmed on "
                    f"the pinned tree - the rule decided less than it used to")

    def error(self, msg: str):
        self.errors.append(msg)

    def add(self, rule: str, key: str, where: str, message: str, **detail):
        f = Finding(self.prop, rule, key, where, message, detail)
        if any(g.full_key == f.full_key for g in self.findings):
            return
        self.findings.append(f)

    # ---- finishing ---------------------------------------------------
    def finish(self) -> int:
        known = load_known()
        known_keys = {k["key"]: k for k in known.get("known", [])
                      if k.get("property") == self.prop}
        out = []
        violations = []
        knowns = []
        for f in sorted(self.findings, key=lambda f: f.full_key):
            if f.full_key in known_keys:
                knowns.append(f)
            else:
                violations.append(f)
        for f in knowns:
            out.append(f"KNOWN-FINDING: property={self.prop} {f.full_key} "
                       f"{f.where} {f.message}")
        fdir = os.path.join(VERIF, "findings", self.prop)
        for f in violations:
            h = hashlib.sha1(f.full_key.encode()).hexdigest()[:12]
            path = os.path.join(fdir, f"{h}.json")
            if self.write:
                os.makedirs(fdir, exist_ok=True)
                with open(path, "w", encoding="utf-8") as fh:
                    json.dump({"property": self.prop, "rule": f.rule,
                               "key": f.full_key, "where": f.where,
                               "message": f.message, "detail": f.detail,
                               "replay": f"./vcheck {self.prop} --tier quick"},
                              fh, indent=1, default=str)
            out.append(f"VIOLATION property={self.prop} replay={path}")
            out.append(f"  {f.where} [{f.rule}] {f.full_key}: {f.message}")
        for e in self.errors:
            out.append(f"ANALYSIS-ERROR property={self.prop} {e}")
        # a concrete, located violation outranks a missed floor (the floor often
        # fails *because* the violating edit removed the counted construct)
        status = 1 if violations else (2 if self.errors else 0)
        wall = time.time() - self.t0
        if self.write:
            self._write_evidence(status, len(violations), knowns, wall)
        if not self.quiet:
            try:
                self._print_report(out, knowns, violations, wall)
            except BrokenPipeError:      # reader closed the pipe: verdict stands
                try:
                    sys.stdout = open(os.devnull, "w")
                except OSError:
                    pass
        self.status = status
        self.violations = violations
        self.knowns = knowns
        return status

    def _print_report(self, out, knowns, violations, wall):
        if True:
            print(f"[{self.prop}] tier={self.tier} obligations={self.obligations} "
                  f"discharged={self.discharged} findings={len(self.findings)} "
                  f"(known {len(knowns)}, new {len(violations)}) "
                  f"errors={len(self.errors)} wall={wall:.2f}s")
            for rid, r in sorted(self.rules.items()):
                print(f"   rule {rid}: obligations={r['obligations']} "
                      f"discharged={r['discharged']} instances={r['instances']}")
            for line in out:
                print(line)
            sys.stdout.flush()

    def _write_evidence(self, status, nviol, knowns, wall):
        edir = os.path.join(VERIF, "evidence")
        os.makedirs(edir, exist_ok=True)
        cov = {
            "explanation": self.explanation,
            "evaluations": self.obligations,
            "distinct_nontrivial": len(self.nontrivial),
            "rule": ("obligations are enumerated from the source by the rules "
                     "below; an obligation is non-trivial when the rule had "
                     "something to prove for that instance (see per-rule text); "
                     "distinct = distinct (rule, construct) pairs"),
            "obligations": self.obligations,
            "discharged": self.discharged,
            "checker_cmd": f"./vcheck {self.prop} --tier {self.tier}",
            "trusted_base": self.trusted or [
                "CPython ast parser", "the checker's own rule code",
                "frozen idiom tables in pyuverif/tables.py"],
            "rules": self.rules,
            "units": self.units,
            "samples": self.samples[:40] or [{"note": "no instance sampled"}],
            "unknowns": self.unknowns,
            "known_findings_reported": [f.full_key for f in knowns],
            "exhaustive": True,
            "status": status,
        }
        cov.update(self.extra)
        ev = {
            "property_id": self.prop,
            "tier": self.tier if self.tier in ("quick", "thorough") else "quick",
            "seed": self.seed,
            "level": "other",
            "coverage": cov,
            "assumptions": self.assumptions,
            "wall_s": round(wall, 3),
            "violations": nviol,
        }
        with open(os.path.join(edir, f"{self.prop}.json"), "w",
                  encoding="utf-8") as fh:
            json.dump(ev, fh, indent=1, default=str)
