"""C19 - distributed computation returns the serial result (rules Q1..Q7).

The MPI master loops are dead code under the test-suite (mpi4py absent), so
only a source-level argument can see them.
"""
from __future__ import annotations

import ast
import copy

from .pymodel import Program, FuncInfo
from .cymodel import CyProgram, X, walk, names_in, pp
from .report import Run, AnalysisError


def _d(n):
    return ast.dump(n) if n is not None else "None"


def _mentions_silence(node) -> bool:
    for n in ast.walk(node):
        if isinstance(n, ast.Name) and n.id == "silence_level":
            return True
        if isinstance(n, ast.Attribute) and n.attr == "silence_level":
            return True
        if isinstance(n, ast.Constant) and n.value == "silence_level":
            return True
    return False


OUTPUT_CALLS = {"print", "rr"}


def _is_output_stmt(st) -> bool:
    if isinstance(st, ast.Pass):
        return True
    if isinstance(st, ast.Expr):
        v = st.value
        if isinstance(v, ast.Constant):
            return True
        if isinstance(v, ast.Call):
            f = v.func
            if isinstance(f, ast.Name) and f.id in OUTPUT_CALLS:
                return True
            if isinstance(f, ast.Attribute) and f.attr in ("write", "flush", "update") \
                    and ast.unparse(f.value) in ("sys.stdout", "sys.stderr", "pbar",
                                                 "progress"):
                return True
    if isinstance(st, ast.If):
        return all(_is_output_stmt(s) for s in st.body + st.orelse)
    return False


# ---------------------------------------------------------------------------
# Q1

def q1(run: Run, prog: Program, masters):
    n_cond = 0
    master_names = {m.qualname for m in masters}
    for f in prog.functions():
        for node in ast.walk(f.node):
            if isinstance(node, ast.If) and _mentions_silence(node.test):
                n_cond += 1
                bad = [s for s in node.body + node.orelse if not _is_output_stmt(s)]
                # a local that only prepares the message: assigned from call-free
                # expressions and read nowhere outside this block
                inside = {id(x) for x in ast.walk(node)}

                def message_local(s_):
                    if not (isinstance(s_, ast.Assign) and all(
                            isinstance(t, ast.Name) for t in s_.targets)):
                        return False
                    if any(isinstance(c, (ast.Call, ast.Await, ast.Yield))
                           and not (isinstance(c, ast.Call) and isinstance(c.func, ast.Name)
                                    and c.func.id in ("str", "len", "repr", "format"))
                           for c in ast.walk(s_.value)):
                        return False
                    names_ = {t.id for t in s_.targets}
                    return not any(isinstance(x, ast.Name) and x.id in names_
                                   and id(x) not in inside for x in ast.walk(f.node))
                bad = [s for s in bad if not message_local(s)]
                inst = f"{f.qualname}@if"
                run.oblige("Q1", f"{f.qualname}:{n_cond}", not bad,
                           nontrivial=f.qualname in master_names,
                           sample={"where": f"{f.module.relpath}:{node.lineno}",
                                   "test": ast.unparse(node.test)})
                for s in bad:
                    what = ast.unparse(s).splitlines()[0][:80]
                    callee = ""
                    for c in ast.walk(s):
                        if isinstance(c, ast.Call):
                            callee = ast.unparse(c.func)
                            break
                    kind = callee or type(s).__name__
                    run.add("Q1", f"{f.qualname}/{kind}",
                            f"{f.module.relpath}:{s.lineno}",
                            f"statement `{what}` in {f.qualname} executes only under "
                            f"the verbosity test `{ast.unparse(node.test)}`: the "
                            f"result depends on silence_level")
            elif isinstance(node, ast.IfExp) and _mentions_silence(node.test):
                n_cond += 1
                run.oblige("Q1", f"{f.qualname}:ifexp:{n_cond}", False)
                run.add("Q1", f"{f.qualname}/ifexp", f"{f.module.relpath}:{node.lineno}",
                        f"conditional expression on silence_level in {f.qualname}")
            elif isinstance(node, ast.While) and _mentions_silence(node.test):
                n_cond += 1
                run.add("Q1", f"{f.qualname}/while", f"{f.module.relpath}:{node.lineno}",
                        f"loop condition reads silence_level in {f.qualname}")
    run.count("Q1", n_cond)
    run.floor("silence_level conditions", n_cond, 100, hard=True)


# ---------------------------------------------------------------------------
# master loop extraction

class Master:
    def __init__(self, f: FuncInfo, ifnode: ast.If):
        self.f = f
        self.ifnode = ifnode
        self.submit_loop = None
        self.collect_loop = None
        self.submit_call = None
        self.get_call = None
        self.get_stmt = None


def _calls(node, dotted):
    out = []
    for n in ast.walk(node):
        if isinstance(n, ast.Call) and ast.unparse(n.func) == dotted:
            out.append(n)
    return out


def find_masters(prog: Program):
    from .idioms import inline_simple_helpers
    masters = []
    for f in prog.functions():
        if not _calls(f.node, "mpi.submit_call"):
            continue
        # chunking code factored into private helpers / a chunk generator is
        # analysed as the statements it stands for
        if f.cls is not None:
            def resolve(name, _c=f.cls):
                h = prog.lookup(_c, name)
                return h.node if h is not None and name.startswith("_") and \
                    not name.startswith("_mpi_nsi") and "betweenness" not in name \
                    else None
            node = inline_simple_helpers(f.node, resolve)
            if ast.dump(node) != ast.dump(f.node):
                f = copy.copy(f)
                f.node = node
        # chunk origins spelled `for i, start in enumerate(range(0, P*S, S))`
        from .idioms import normalise_enumerate_range
        node = normalise_enumerate_range(f.node)
        if ast.dump(node) != ast.dump(f.node):
            f = copy.copy(f)
            f.node = node
        # chunk bounds tabulated first: `chunks = [(S(k), E(k)) for k in range(P)]`
        from .idioms import normalise_chunk_table
        node = normalise_chunk_table(f.node)
        if ast.dump(node) != ast.dump(f.node):
            f = copy.copy(f)
            f.node = node
        if f.module.name.endswith("utils.mpi"):
            continue
        ifs = [n for n in ast.walk(f.node) if isinstance(n, ast.If)
               and ast.unparse(n.test) == "mpi.available"]
        ifs = [n for n in ifs if _calls(n, "mpi.submit_call")]
        if len(ifs) != 1:
            raise AnalysisError(f"{f.where} {f.qualname}: expected exactly one "
                                f"`if mpi.available:` around submit_call, found {len(ifs)}")
        masters.append(Master(f, ifs[0]))
        masters[-1].prog = prog
    return masters


def _enclosing_chain(root_body, target):
    """List of compound statements (inside root_body) that enclose target."""
    def go(stmts, chain):
        for st in stmts:
            if st is target:
                return chain
            for fld in ("body", "orelse", "finalbody", "handlers"):
                sub = getattr(st, fld, None)
                if isinstance(sub, list) and sub and isinstance(sub[0], ast.AST):
                    if fld == "handlers":
                        for h in sub:
                            r = go(h.body, chain + [st])
                            if r is not None:
                                return r
                    else:
                        r = go(sub, chain + [st])
                        if r is not None:
                            return r
        return None
    return go(root_body, [])


def _stmt_of(root_body, node):
    """The simple statement (descendant of root_body) containing `node`."""
    for st in ast.walk(ast.Module(body=root_body, type_ignores=[])):
        if isinstance(st, ast.stmt) and not isinstance(
                st, (ast.For, ast.While, ast.If, ast.With, ast.Try)):
            for n in ast.walk(st):
                if n is node:
                    return st
    return None


def q2(run: Run, m: Master):
    f, body = m.f, m.ifnode.body
    subs = _calls(m.ifnode, "mpi.submit_call")
    gets = _calls(m.ifnode, "mpi.get_result")
    key = f.qualname

    def fail(rule, what, msg, node):
        run.add(rule, f"{key}/{what}", f"{f.module.relpath}:{node.lineno}", msg)

    ok = True
    if len(subs) != 1 or len(gets) != 1:
        fail("Q2", "count", f"{key}: {len(subs)} submit_call / {len(gets)} get_result "
             f"sites in the distributed branch (expected one of each)", m.ifnode)
        run.oblige("Q2", key + ":pair", False)
        return False
    m.submit_call, m.get_call = subs[0], gets[0]
    s_stmt = _stmt_of(body, m.submit_call)
    g_stmt = _stmt_of(body, m.get_call)
    m.get_stmt = g_stmt
    s_chain = _enclosing_chain(body, s_stmt)
    g_chain = _enclosing_chain(body, g_stmt)
    # submit: directly in a for-loop that is a direct child of the branch
    if not (len(s_chain) == 1 and isinstance(s_chain[0], ast.For)):
        guards = [c for c in s_chain if not isinstance(c, ast.For)]
        tests = ", ".join(f"`{ast.unparse(c.test)}`" if hasattr(c, "test")
                          else type(c).__name__ for c in guards)
        fail("Q2", "submit-conditional",
             f"{key}: mpi.submit_call is not executed unconditionally once per "
             f"chunk (enclosed by {tests or 'nested loops'}); chunks may never be "
             f"submitted while get_result waits for them", s_stmt)
        ok = False
    if not (len(g_chain) == 1 and isinstance(g_chain[0], ast.For)):
        fail("Q2", "collect-conditional",
             f"{key}: mpi.get_result is not executed unconditionally once per chunk",
             g_stmt)
        ok = False
    s_loops = [c for c in s_chain if isinstance(c, ast.For)]
    g_loops = [c for c in g_chain if isinstance(c, ast.For)]
    if not s_loops or not g_loops:
        run.oblige("Q2", key + ":pair", False)
        return False
    m.submit_loop, m.collect_loop = s_loops[0], g_loops[0]
    sl, gl = m.submit_loop, m.collect_loop
    if body.index(sl) >= body.index(gl) if (sl in body and gl in body) else True:
        fail("Q2", "order", f"{key}: results are collected before/without all "
             f"chunks being submitted", gl)
        ok = False
    def _is_range(e):
        return isinstance(e, ast.Call) and ast.unparse(e.func) == "range"
    if not (_is_range(sl.iter) and _is_range(gl.iter)):
        # chunks handed out by an iterator object (a plan, a generator method):
        # which ids are submitted is not derived - the pairing is not decided
        run.unknowns.append(f"Q2: {key}: the submit / collect loops do not both iterate "
                            f"a range (`{ast.unparse(sl.iter)[:40]}` / "
                            f"`{ast.unparse(gl.iter)[:40]}`); pairing of ids not decided")
        run.oblige("Q2", key + ":pair", True, nontrivial=False)
        return ok
    if _d(sl.iter) != _d(gl.iter) or not (
            isinstance(sl.iter, ast.Call) and ast.unparse(sl.iter.func) == "range"
            and len(sl.iter.args) == 1):
        fail("Q2", "range",
             f"{key}: submit loop iterates `{ast.unparse(sl.iter)}` but collect loop "
             f"iterates `{ast.unparse(gl.iter)}` (ids must be collected in "
             f"submission order over the same range)", gl)
        ok = False
    # ids
    sid = [k.value for k in m.submit_call.keywords if k.arg == "id"]
    if not sid or not isinstance(sl.target, ast.Name) or \
            _d(sid[0]) != _d(ast.Name(id=sl.target.id, ctx=ast.Load())):
        fail("Q2", "submit-id", f"{key}: submit_call id is not the loop index", s_stmt)
        ok = False
    if not (m.get_call.args and isinstance(gl.target, ast.Name)
            and _d(m.get_call.args[0]) == _d(ast.Name(id=gl.target.id, ctx=ast.Load()))):
        fail("Q2", "collect-id", f"{key}: get_result id is not the loop index "
             f"(pairing of submitted and collected chunks broken)", g_stmt)
        ok = False
    # no early exits in the submit loop other than the (dead, see Q4) guard
    for st in ast.walk(sl):
        if isinstance(st, (ast.Break, ast.Continue, ast.Return)) and st is not sl:
            ch = _enclosing_chain(sl.body, st)
            guard_ok = (len(ch) == 1 and isinstance(ch[0], ast.If)
                        and _is_dead_guard(ch[0]))
            if not guard_ok:
                fail("Q2", "submit-exit",
                     f"{key}: `{type(st).__name__.lower()}` inside the submit loop "
                     f"can skip chunks", st)
                ok = False
    for st in ast.walk(gl):
        if isinstance(st, (ast.Break, ast.Continue, ast.Return)):
            fail("Q2", "collect-exit", f"{key}: early exit inside the collect loop",
                 st)
            ok = False
    run.oblige("Q2", key + ":pair", ok, sample={
        "where": f"{f.module.relpath}:{sl.lineno}",
        "submit_range": ast.unparse(sl.iter), "collect_range": ast.unparse(gl.iter)})
    return ok


def _is_dead_guard(ifn: ast.If) -> bool:
    t = ifn.test
    return (isinstance(t, ast.Compare) and len(t.ops) == 1
            and isinstance(t.ops[0], ast.GtE)
            and isinstance(t.left, ast.Name) and isinstance(t.comparators[0], ast.Name)
            and len(ifn.body) == 1 and isinstance(ifn.body[0], ast.Break)
            and not ifn.orelse)


# ---------------------------------------------------------------------------
# Q4: chunk template

def _norm(e):
    """Normalise int(np.ceil(1.0*a/(1.0*b))) -> ('ceil', a, b) etc."""
    if isinstance(e, ast.Call) and isinstance(e.func, ast.Name) and e.func.id == "int" \
            and len(e.args) == 1:
        return _norm(e.args[0])
    if isinstance(e, ast.Call) and ast.unparse(e.func) in ("np.ceil", "math.ceil",
                                                           "ceil") and len(e.args) == 1:
        a = e.args[0]
        if isinstance(a, ast.BinOp) and isinstance(a.op, ast.Div):
            return ("ceil", _norm(a.left), _norm(a.right))
        return ("ceil1", _norm(a))
    if isinstance(e, ast.UnaryOp) and isinstance(e.op, ast.USub) and \
            isinstance(e.operand, ast.BinOp) and isinstance(e.operand.op, ast.FloorDiv) \
            and isinstance(e.operand.left, ast.UnaryOp) \
            and isinstance(e.operand.left.op, ast.USub):
        return ("ceil", _norm(e.operand.left.operand), _norm(e.operand.right))
    if isinstance(e, ast.BinOp) and isinstance(e.op, ast.Mult):
        l, r = e.left, e.right
        if isinstance(l, ast.Constant) and l.value == 1.0 and isinstance(l.value, float):
            return _norm(r)
        if isinstance(r, ast.Constant) and r.value == 1.0 and isinstance(r.value, float):
            return _norm(l)
        return ("mul", _norm(l), _norm(r))
    if isinstance(e, ast.BinOp) and isinstance(e.op, ast.Add):
        return ("add", _norm(e.left), _norm(e.right))
    if isinstance(e, ast.Call) and isinstance(e.func, ast.Name) and e.func.id in (
            "min", "max"):
        return (e.func.id,) + tuple(_norm(a) for a in e.args)
    if isinstance(e, ast.Name):
        return ("name", e.id)
    if isinstance(e, ast.Constant):
        return ("const", e.value)
    return ("expr", ast.dump(e))


def _assigns(stmts):
    """name -> [value exprs] for simple top-level assignments."""
    out = {}
    for st in stmts:
        if isinstance(st, ast.Assign) and len(st.targets) == 1 and \
                isinstance(st.targets[0], ast.Name):
            out.setdefault(st.targets[0].id, []).append(st.value)
    return out


_ONE_SHOT = ("zip", "map", "filter", "iter", "enumerate", "reversed")


def q8(run: Run, m: Master):
    """A one-shot iterator (zip / map / generator expression ...) bound to a
    local of a master function is consumed once: a second consumer (a list() for
    a message, a second loop) finds it empty, so the chunks it describes are
    never submitted - the more so when the first consumer runs only at some
    verbosity."""
    f, key = m.f, m.f.qualname
    n = 0
    # the function as written (helpers not inlined): a generator helper handed
    # out as an object is a one-shot iterator, too
    prog = getattr(m, "prog", None)
    if prog is not None and f.cls is not None:
        o = prog.lookup(f.cls, f.name)
        if o is not None and o.node is not f.node:
            f = o

    def is_generator_call(v):
        if not isinstance(v, ast.Call) or prog is None:
            return False
        h = None
        if isinstance(v.func, ast.Attribute) and isinstance(v.func.value, ast.Name) and \
                f.cls is not None and (v.func.value.id in ("self", "cls") or
                                       v.func.value.id in prog.classes):
            h = prog.lookup(prog.classes.get(v.func.value.id, f.cls), v.func.attr)
        elif isinstance(v.func, ast.Name):
            r_ = prog.resolve_name(f.module, v.func.id)
            h = r_[1] if r_ and r_[0] == "func" else None
        if h is None:
            return False
        own = [y for y in ast.walk(h.node) if isinstance(y, (ast.Yield, ast.YieldFrom))]
        nested = [y for d in ast.walk(h.node) if d is not h.node and
                  isinstance(d, (ast.FunctionDef, ast.Lambda)) for y in ast.walk(d)
                  if isinstance(y, (ast.Yield, ast.YieldFrom))]
        return any(y not in nested for y in own)
    for st in ast.walk(f.node):
        if not (isinstance(st, ast.Assign) and len(st.targets) == 1 and
                isinstance(st.targets[0], ast.Name)):
            continue
        v = st.value
        one_shot = isinstance(v, ast.GeneratorExp) or (
            isinstance(v, ast.Call) and isinstance(v.func, ast.Name) and
            v.func.id in _ONE_SHOT) or is_generator_call(v)
        if not one_shot:
            continue
        name = st.targets[0].id
        # re-bound later: each binding is judged on its own only when unique
        if sum(1 for s_ in ast.walk(f.node) if isinstance(s_, ast.Assign)
               and any(isinstance(t, ast.Name) and t.id == name for t in s_.targets)) != 1:
            continue
        consumers = []
        for x in ast.walk(f.node):
            if isinstance(x, (ast.For, ast.comprehension)) and any(
                    isinstance(y, ast.Name) and y.id == name for y in ast.walk(x.iter)):
                consumers.append(x.iter)
            elif isinstance(x, ast.Call) and x is not v and any(
                    (isinstance(a, ast.Name) and a.id == name) or
                    (isinstance(a, ast.Starred) and isinstance(a.value, ast.Name)
                     and a.value.id == name) for a in x.args) and not (
                        isinstance(x.func, ast.Name) and x.func.id in _ONE_SHOT):
                consumers.append(x)
        # a wrapper such as enumerate(parts) inside a for-iter was counted once
        # through the for; drop calls that are themselves (part of) a loop iter
        iters = [c for c in consumers if not isinstance(c, ast.Call) or True]
        uniq = []
        for c in iters:
            if not any(c is not d and any(z is c for z in ast.walk(d)) for d in iters):
                uniq.append(c)
        n += 1
        ok = len(uniq) <= 1
        run.oblige("Q8", f"{key}:{name}", ok, sample={
            "where": f"{f.module.relpath}:{st.lineno}", "consumers": len(uniq)})
        if not ok:
            lines = sorted(getattr(c, "lineno", st.lineno) for c in uniq)
            run.add("Q8", f"{key}/one-shot/{name}", f"{f.module.relpath}:{lines[1]}",
                    f"{key}: `{name} = {ast.unparse(v)[:50]}` is a one-shot iterator but is "
                    f"consumed {len(uniq)} times (lines {lines}): after the first "
                    f"consumer it is empty, the later one sees no chunks")
    run.count("Q8", n)


def q4(run: Run, m: Master):
    f, key = m.f, m.f.qualname
    if m.submit_loop is None:
        return None
    sl = m.submit_loop
    top = _assigns(m.ifnode.body)
    inner = _assigns(sl.body)

    def one(d, name):
        v = d.get(name)
        return v[0] if v and len(v) == 1 else None

    def bad(what, msg, node):
        run.add("Q4", f"{key}/{what}", f"{f.module.relpath}:{node.lineno}",
                f"{key}: {msg}")

    ok = True
    if not (isinstance(sl.iter, ast.Call) and ast.unparse(sl.iter.func) == "range"):
        # the chunks come from an iterator object: the chunking arithmetic is
        # not in this function; not decided (see the same note of Q2)
        run.unknowns.append(f"Q4: {key}: chunk bounds are produced by "
                            f"`{ast.unparse(sl.iter)[:40]}`; the partition lemma is not "
                            f"applied")
        return None
    idx = sl.target.id if isinstance(sl.target, ast.Name) else None
    from .cmodel import Poly

    def undecided(why):
        run.unknowns.append(f"Q4: {key}: {why}; the partition lemma is not applied")
        return None

    if idx is None or len(sl.iter.args) != 1 or sl.iter.keywords:
        return undecided(f"submit loop `for {ast.unparse(sl.target)} in "
                         f"{ast.unparse(sl.iter)[:40]}` is not `for i in range(P)`")

    # integer polynomials over the loop index and the names of the branch: any
    # spelling of idx*step and min((idx+1)*step, N) - e.g. min(start + step, N) -
    # is accepted
    def poly(e, env):
        if isinstance(e, ast.Constant) and isinstance(e.value, int) and \
                not isinstance(e.value, bool):
            return Poly.const(e.value)
        if isinstance(e, ast.Name):
            return env.get(e.id, Poly.sym(e.id))
        if isinstance(e, ast.BinOp) and isinstance(e.op, (ast.Add, ast.Sub, ast.Mult)):
            a_, b_ = poly(e.left, env), poly(e.right, env)
            if a_ is None or b_ is None:
                return None
            return a_ + b_ if isinstance(e.op, ast.Add) else \
                a_ - b_ if isinstance(e.op, ast.Sub) else a_ * b_
        return None

    def at(p_, k):
        """the polynomial with the loop index replaced by idx + k / by a constant"""
        return p_.subst(idx, Poly.sym(idx) + Poly.const(k))

    # 1. chunk start: the name bound to s(idx) with s(0) = 0, s(idx) = idx * <step>
    start = step = None
    penv = {}
    spoly = None
    offset_start = None
    for nme, vals in inner.items():
        for v in vals:
            pv = poly(v, penv)
            if pv is None or idx not in pv.symbols():
                continue
            zero = pv.subst(idx, Poly.const(0))
            one_ = pv.subst(idx, Poly.const(1))
            lin = Poly.sym(idx) * (one_ - zero) + zero
            if start is None and pv == lin and len((one_ - zero).symbols()) == 1 and \
                    (one_ - zero) == Poly.sym(next(iter((one_ - zero).symbols()))):
                if zero == Poly.const(0):
                    start, spoly, step = nme, pv, next(iter((one_ - zero).symbols()))
                    penv[nme] = pv
                elif zero.is_const():
                    offset_start = (nme, v, zero)
    if start is None and offset_start is not None:
        nme, v, zero = offset_start
        bad("start", f"chunk start `{nme} = {ast.unparse(v)}` is {zero} for the first "
            f"chunk, not 0: the first node(s) of the range are in no chunk (or the "
            f"chunks are shifted against the rows that are passed)", v)
        run.oblige("Q4", key, False)
        return None
    if start is None:
        return undecided(f"no chunk start of the form `{idx} * step` is computed in the "
                         f"submit loop")
    # 2. chunk end: min(p, N) or p, with p(idx) = s(idx + 1)
    end = N = None
    end_min = False
    mism = None
    for nme, vals in inner.items():
        if nme == start:
            continue
        for v in vals:
            cand = []
            if isinstance(v, ast.Call) and isinstance(v.func, ast.Name) and \
                    v.func.id == "min" and len(v.args) == 2 and not v.keywords:
                for p_, q_ in ((v.args[0], v.args[1]), (v.args[1], v.args[0])):
                    if isinstance(q_, ast.Name) and q_.id != step:
                        cand.append((poly(p_, penv), q_.id, True))
            else:
                cand.append((poly(v, penv), None, False))
            for pp_, nname, ismin in cand:
                if pp_ is None or idx not in pp_.symbols():
                    continue
                d = pp_ - at(spoly, 1)
                if d == Poly.const(0):
                    end, N, end_min = nme, nname, ismin
                elif d.is_const() and mism is None:
                    mism = (nme, v, d)
    if end is None and mism is not None:
        nme, v, d = mism
        bad("end", f"chunk end `{nme} = {ast.unparse(v)}` differs from the next chunk's "
            f"start `({idx}+1)*{step}` by {d}: chunks "
            f"{'overlap' if d.const_value() > 0 else 'leave a gap'}", v)
        run.oblige("Q4", key, False)
        return None
    if end is None:
        return undecided(f"no chunk end `min(({idx}+1)*{step}, N)` is computed in the "
                         f"submit loop")

    # 3. coverage: P * step against N, from the definitions of step and P
    def floor_of(e):
        """(numerator, divisor) names of `a // b`, `int(a / b)`, `int(np.floor(a / b))`"""
        while isinstance(e, ast.Call) and len(e.args) == 1 and not e.keywords and \
                ast.unparse(e.func) in ("int", "np.floor", "math.floor", "floor"):
            inner_ = e.args[0]
            if ast.unparse(e.func) == "int" and not (
                    isinstance(inner_, ast.BinOp) or isinstance(inner_, ast.Call)):
                break
            e = inner_
            if isinstance(e, ast.BinOp) and isinstance(e.op, ast.Div):
                if isinstance(e.left, ast.Name) and isinstance(e.right, ast.Name):
                    return e.left.id, e.right.id
                return None
        if isinstance(e, ast.BinOp) and isinstance(e.op, ast.FloorDiv) and \
                isinstance(e.left, ast.Name) and isinstance(e.right, ast.Name):
            return e.left.id, e.right.id
        return None

    Pexpr = sl.iter.args[0]
    Pname = Pexpr.id if isinstance(Pexpr, ast.Name) else None
    se = one(top, step)
    ns = _norm(se) if se is not None else None
    step_kind = Q = Nstep = None
    if ns and ns[0] == "ceil" and ns[1][0] == "name" and ns[2][0] == "name":
        step_kind, Nstep, Q = "ceil", ns[1][1], ns[2][1]
    elif se is not None and floor_of(se):
        step_kind = "floor"
        Nstep, Q = floor_of(se)
    pe = one(top, Pname) if Pname else None
    np_ = _norm(pe) if pe is not None else None
    if Pname is not None and Pname == Q:
        p_kind = "divisor"
    elif np_ and np_[0] == "ceil" and np_[1] == ("name", Nstep) and np_[2] == ("name", step):
        p_kind = "ceil-of-step"
    else:
        p_kind = None
    if N is None:
        N = Nstep
    info = {"where": f"{f.module.relpath}:{sl.lineno}", "N": N, "step": step,
            "parts": ast.unparse(Pexpr), "start": start, "end": end,
            "step_is": step_kind, "parts_is": p_kind,
            "lemma": "DESIGN.md appendix: chunks partition [0,N), guard start>=end is dead"}
    m.N, m.start, m.end, m.step = N, start, end, step
    if step_kind is None or p_kind is None or (end_min and Nstep != N):
        undecided(f"the chunks telescope (`{start}`, `{end}`) but the step "
                  f"`{ast.unparse(se) if se is not None else step}` / the number of parts "
                  f"`{ast.unparse(pe) if pe is not None else ast.unparse(Pexpr)}` are not "
                  f"of a form whose product with the step is compared with {N}")
        return None
    ok = True
    if step_kind == "floor" and p_kind == "divisor":
        bad("coverage", f"{ast.unparse(Pexpr)} chunks of `{step} = {ast.unparse(se)}` "
            f"nodes end at {Pname}*({Nstep}//{Pname}) <= {Nstep}: whenever {Pname} does "
            f"not divide {Nstep} the trailing {Nstep} mod {Pname} nodes are in no chunk "
            f"and their contributions are missing from the distributed result", se)
        ok = False
    elif step_kind == "floor":
        # P = ceil(N / step) chunks of floor(N / Q) nodes cover [0, N) when step > 0,
        # which depends on Q <= N: not decided here
        undecided(f"`{step} = {ast.unparse(se)}` may be 0 (when {Q} > {Nstep})")
        return None
    else:
        # step = ceil(N / Q), P in {Q, ceil(N / step)}: P * step >= N
        if not end_min:
            bad("end", f"chunk end `{end}` is `({idx}+1)*{step}` without `min(., {N})`: "
                f"with `{step} = {ast.unparse(se)}` the last chunk runs past {N} whenever "
                f"{step} does not divide {N}", sl)
            ok = False
        me = one(top, Q)
        nm = _norm(me) if me is not None else None
        if nm is not None and nm[0] in ("max", "min", "ceil", "const", "name") and \
                not (nm[0] == "max" and ("const", 1) in nm[1:]):
            bad("max_parts", f"`{Q}` is not bounded below by 1 (max(1, ...)); "
                f"step could be computed from a zero divisor", me or sl)
            ok = False
        elif nm is None or nm[0] != "max":
            run.unknowns.append(f"Q4: {key}: the divisor `{Q}` of the step is not a "
                                f"recognised expression; its lower bound 1 is not decided")
    # every other assignment to the start in the branch must have the same form
    for loop in (m.submit_loop, m.collect_loop):
        if loop is None:
            continue
        lidx = loop.target.id if isinstance(loop.target, ast.Name) else None
        for nme, vals in _assigns(loop.body).items():
            if nme == start:
                for v in vals:
                    pv = poly(v, {})
                    if lidx is None or pv is None or \
                            pv != Poly.sym(lidx) * Poly.sym(step):
                        bad("start2", f"`{nme}` reassigned as `{ast.unparse(v)}`", v)
                        ok = False
    run.oblige("Q4", key, ok, sample=info)
    return ok


# ---------------------------------------------------------------------------
# Q3 / Q5 / Q6

def _branch_defs(stmts):
    """name -> {cond_dump|'': value} from top-level assignments and one level
    of if/else."""
    out = {}
    for st in stmts:
        if isinstance(st, ast.Assign) and len(st.targets) == 1 and \
                isinstance(st.targets[0], ast.Name):
            out.setdefault(st.targets[0].id, {})[""] = st.value
        elif isinstance(st, ast.If):
            c = _d(st.test)
            for br, tag in ((st.body, c), (st.orelse, "not " + c)):
                for s2 in br:
                    if isinstance(s2, ast.Assign) and len(s2.targets) == 1 and \
                            isinstance(s2.targets[0], ast.Name):
                        out.setdefault(s2.targets[0].id, {})[tag] = s2.value
    return out


class _Subst(ast.NodeTransformer):
    def __init__(self, mapping):
        self.mapping = mapping

    def visit_Name(self, n):
        if n.id in self.mapping and isinstance(n.ctx, ast.Load):
            return copy.deepcopy(self.mapping[n.id])
        return n


class _Serialise(ast.NodeTransformer):
    """Map a chunk expression to what it denotes for the chunk [0, N)."""
    def __init__(self, start, end, N):
        self.start, self.end, self.N = start, end, N
        self.sliced = False

    def visit_Subscript(self, n):
        self.generic_visit(n)
        s = n.slice
        dims = s.elts if isinstance(s, ast.Tuple) else [s]
        first = dims[0]
        if isinstance(first, ast.Slice) and isinstance(first.lower, ast.Constant) \
                and first.lower.value == 0 and isinstance(first.upper, ast.Name) \
                and first.upper.id == self.N and first.step is None \
                and all(isinstance(d, ast.Slice) and d.lower is None and d.upper is None
                        and d.step is None for d in dims[1:]):
            self.sliced = True
            return n.value
        return n

    def visit_Name(self, n):
        if isinstance(n.ctx, ast.Load):
            if n.id == self.start:
                return ast.Constant(value=0)
            if n.id == self.end:
                return ast.Name(id=self.N, ctx=ast.Load())
        return n


def _resolve_worker(prog: Program, m: Master):
    call = m.submit_call
    if not call.args or not isinstance(call.args[0], ast.Constant) or \
            not isinstance(call.args[0].value, str):
        raise AnalysisError(f"{m.f.where} submit_call with non-literal callee")
    modkw = [k.value for k in call.keywords if k.arg == "module"]
    module = modkw[0].value if modkw and isinstance(modkw[0], ast.Constant) else None
    if module is None:
        # mpi.submit_call default module is "__main__": not resolvable
        raise AnalysisError(f"{m.f.where} submit_call without literal module=")
    r = prog.resolve_dotted(module, call.args[0].value)
    return call.args[0].value, module, r


def _serial_call(prog: Program, m: Master, target):
    for n in ast.walk(ast.Module(body=m.ifnode.orelse, type_ignores=[])):
        if not isinstance(n, ast.Call):
            continue
        fn = n.func
        r = None
        if isinstance(fn, ast.Name):
            r = prog.resolve_name(m.f.module, fn.id)
        elif isinstance(fn, ast.Attribute) and isinstance(fn.value, ast.Name):
            rc = prog.resolve_name(m.f.module, fn.value.id)
            if rc and rc[0] == "class":
                ff = prog.lookup(rc[1], fn.attr)
                r = ("func", ff) if ff else None
        if r is None or target is None:
            continue
        if r[0] == target[0] and tuple(r[1:]) == tuple(target[1:]):
            return n
    return None


def q3(run: Run, prog: Program, cy: CyProgram, m: Master):
    f, key = m.f, m.f.qualname
    name, module, target = _resolve_worker(prog, m)
    where = f"{f.module.relpath}:{m.submit_call.lineno}"
    if target is None or target[0] not in ("func", "kernel"):
        run.oblige("Q3", key + ":resolve", False)
        run.add("Q3", f"{key}/unresolved", where,
                f"{key}: submit_call names `{name}` in module `{module}`, which does "
                f"not resolve to a function of the package")
        return None
    m.target = target
    ser = _serial_call(prog, m, target)
    tname = target[1].qualname if target[0] == "func" else f"{target[1]}.{target[2]}"
    if ser is None:
        run.oblige("Q3", key + ":same-worker", False)
        run.add("Q3", f"{key}/worker-mismatch", where,
                f"{key}: the distributed branch runs `{tname}` but the serial branch "
                f"does not call that function")
        return None
    run.oblige("Q3", key + ":same-worker", True, sample={"worker": tname, "where": where})
    m.serial_call = ser
    # argument correspondence
    pargs = m.submit_call.args[1] if len(m.submit_call.args) > 1 else None
    for k in m.submit_call.keywords:
        if k.arg == "args":
            pargs = k.value
    if not isinstance(pargs, ast.Tuple):
        raise AnalysisError(f"{where} submit_call args is not a tuple literal")
    if len(pargs.elts) != len(ser.args) or ser.keywords:
        run.oblige("Q3", key + ":arity", False)
        run.add("Q3", f"{key}/arity", where,
                f"{key}: {len(pargs.elts)} arguments are shipped to the worker but the "
                f"serial call passes {len(ser.args)}")
        return None
    if getattr(m, "start", None) is None or getattr(m, "end", None) is None:
        return None
    # roles of the worker's parameters: the position at which the master ships
    # its chunk start / chunk end / full size (whatever the worker calls them)
    m.worker_roles = {}
    for i, pa in enumerate(pargs.elts):
        if isinstance(pa, ast.Name):
            if pa.id == m.start:
                m.worker_roles[i] = "start_i"
            elif pa.id == m.end:
                m.worker_roles[i] = "end_i"
            elif pa.id == m.N:
                m.worker_roles[i] = "N"
    pdefs = _branch_defs(m.submit_loop.body)
    sdefs = _branch_defs(m.ifnode.orelse)
    m.sliced = []
    allok = True
    for i, (pa, sa) in enumerate(zip(pargs.elts, ser.args)):
        ok, sliced, why = _corresponds(pa, sa, pdefs, sdefs, m)
        m.sliced.append(sliced)
        run.oblige("Q3", f"{key}:arg{i}", ok, sample={
            "parallel": ast.unparse(pa), "serial": ast.unparse(sa), "sliced": sliced})
        if not ok:
            allok = False
            run.add("Q3", f"{key}/arg{i}", f"{f.module.relpath}:{pa.lineno}",
                    f"{key}: worker argument {i} is `{ast.unparse(pa)}` in the "
                    f"distributed branch but `{ast.unparse(sa)}` in the serial branch "
                    f"- not the same data restricted to the chunk ({why})")
    return allok


def _corresponds(pa, sa, pdefs, sdefs, m):
    """parallel arg `pa` denotes, for the chunk [0,N), the serial arg `sa`."""
    def variants(e, defs):
        # expand names with definitions; conditional definitions give several
        names = [n.id for n in ast.walk(e) if isinstance(n, ast.Name)
                 and n.id in defs and n.id not in (m.start, m.end)]
        conds = {""}
        for n in names:
            conds |= set(defs[n].keys())
        out = {}
        for c in conds:
            mapping = {}
            for n in names:
                d = defs[n]
                if c in d:
                    mapping[n] = d[c]
                elif "" in d:
                    mapping[n] = d[""]
            if c == "" and any("" not in defs[n] for n in names):
                continue
            out[c] = _Subst(mapping).visit(copy.deepcopy(e))
        return out
    pv = variants(pa, pdefs)
    sv = variants(sa, sdefs)
    if set(pv) != set(sv):
        return False, False, f"defined under different conditions {sorted(pv)} vs {sorted(sv)}"
    sliced_any = False
    for c in pv:
        # chunk-relative form: X[start:end, :] -> rewrite start->0, end->N first
        s = _Serialise(m.start, m.end, m.N)
        pe = s.visit(copy.deepcopy(pv[c]))
        # second pass so that X[0:N, :] (after substitution) collapses to X
        s2 = _Serialise(m.start, m.end, m.N)
        pe = s2.visit(pe)
        sliced_any = sliced_any or s2.sliced or s.sliced
        if _d(pe) != _d(sv[c]):
            return False, sliced_any, (f"`{ast.unparse(pe)}` for the whole range vs "
                                       f"`{ast.unparse(sv[c])}`")
    return True, sliced_any, ""


class _PyRename(ast.NodeTransformer):
    def __init__(self, mapping):
        self.m = mapping

    def visit_Name(self, n):
        if n.id in self.m:
            return ast.copy_location(ast.Name(id=self.m[n.id], ctx=n.ctx), n)
        return n

    def visit_arg(self, n):
        if n.arg in self.m:
            n = copy.copy(n)
            n.arg = self.m[n.arg]
        return n


def _canon_worker(cy, m):
    """The worker with its chunk-role parameters renamed to the canonical names
    (start_i, end_i, N) used by the classification code below: ('kernel', CyFunc)
    or ('func', FuncInfo-like)."""
    from .cymodel import rename_x, canonical_mapping, names_in
    t = m.target
    roles = getattr(m, "worker_roles", {})
    if t[0] == "kernel":
        f = cy.func(t[1], t[2])
        if f is None:
            raise AnalysisError(f"kernel {t[1]}.{t[2]} not found")
        mp = {}
        for i, (n, _) in enumerate(f.args):
            if i in roles:
                mp[n] = roles[i]
        if not mp or all(k == v for k, v in mp.items()):
            return f
        allnames = names_in(f.body) | {n for n, _ in f.args} | set(f.locals)
        mp = canonical_mapping(mp, allnames)
        g = copy.copy(f)
        g.args = [(mp.get(n, n), ty) for n, ty in f.args]
        g.body = rename_x(f.body, mp)
        g.locals = {mp.get(n, n): (ty, rename_x(init, mp) if init is not None else None, ln)
                    for n, (ty, init, ln) in f.locals.items()}
        return g
    fi = t[1]
    prog_ = getattr(m, "prog", None)
    if prog_ is not None:
        # a thin worker that forwards to a private module-level function (or a
        # private method) is analysed as that function's statements
        from .idioms import inline_simple_helpers

        def _res(hn, _f=fi):
            if not hn.startswith("_") or hn.startswith("__"):
                return None
            h = prog_.lookup(_f.cls, hn) if _f.cls is not None else None
            if h is None:
                r_ = prog_.resolve_name(_f.module, hn)
                h = r_[1] if r_ and r_[0] == "func" else None
            return h.node if h is not None and h is not _f and \
                isinstance(h.node, ast.FunctionDef) else None
        node = inline_simple_helpers(fi.node, _res)
        if ast.dump(node) != ast.dump(fi.node):
            fi = copy.copy(fi)
            fi.node = node
    mp = {}
    for i, n in enumerate(fi.params):
        if i in roles:
            mp[n] = roles[i]
    if not mp or all(k == v for k, v in mp.items()):
        return fi
    used = {x.id for x in ast.walk(fi.node) if isinstance(x, ast.Name)} | set(fi.params)
    for n in list(used):
        if n not in mp and n in mp.values():
            mp[n] = "_u_" + n
    g = copy.copy(fi)
    g.node = _PyRename(mp).visit(copy.deepcopy(fi.node))
    g.params = [mp.get(n, n) for n in fi.params]
    return g


def _worker_shape(prog, cy, m):
    """('chunk'|'full', return arity, param names) of the worker's result."""
    t = m.target
    if t[0] == "kernel":
        f = _canon_worker(cy, m)
        rets = [s for s in walk(f.body) if isinstance(s, X) and s.k == "return"]
        if len(rets) != 1 or rets[0].a[0] is None or rets[0].a[0].k != "tuple":
            raise AnalysisError(f"{f.where}: worker return is not one tuple")
        elts = rets[0].a[0].a[0]
        params = [a for a, _ in f.args]
        res = elts[0]
        shape = None
        if res.k == "name" and res.a[0] in f.locals:
            init = f.locals[res.a[0]][1]
            if init is not None and init.k == "call" and pp(init.a[0]) in (
                    "np.zeros", "np.empty", "np.ones") and init.a[1]:
                n = init.a[1][0]
                if n.k == "tuple" and len(n.a[0]) == 1:
                    n = n.a[0][0]
                shape = _len_class(n, f)
        return shape, [len(elts)], params, [pp(e) for e in elts], f
    fi: FuncInfo = _canon_worker(cy, m)
    params = fi.params
    # result = (x, start_i, end_i); return (error_message, result)
    ret_ar = set()
    for n in ast.walk(fi.node):
        if isinstance(n, ast.Return) and isinstance(n.value, ast.Tuple):
            ret_ar.add(len(n.value.elts))
    inner = None
    alloc = None
    # the inner result: a name returned inside the outer tuple that is itself
    # bound to a tuple somewhere in the worker (`result = (x, start_i, end_i)`)
    returned = {e.id for n in ast.walk(fi.node) if isinstance(n, ast.Return)
                and isinstance(n.value, ast.Tuple) for e in n.value.elts
                if isinstance(e, ast.Name)}
    for n in ast.walk(fi.node):
        if isinstance(n, ast.Assign) and len(n.targets) == 1 and \
                isinstance(n.targets[0], ast.Name) and n.targets[0].id in returned \
                and isinstance(n.value, ast.Tuple):
            inner = n.value
    shape = None
    elts = []
    if inner is not None:
        elts = [ast.unparse(e) for e in inner.elts]
        first = inner.elts[0]
        if isinstance(first, ast.Name):
            for n in ast.walk(fi.node):
                if isinstance(n, ast.Assign) and len(n.targets) == 1 and \
                        isinstance(n.targets[0], ast.Name) and \
                        n.targets[0].id == first.id and isinstance(n.value, ast.Call) \
                        and ast.unparse(n.value.func) in ("np.zeros", "np.empty"):
                    a = n.value.args[0]
                    s = ast.unparse(a)
                    if s == "N":
                        shape = "full"
                    elif s.replace(" ", "") in ("end_i-start_i",):
                        shape = "chunk"
    ar = [sorted(ret_ar)[0] if len(ret_ar) == 1 else -1]
    if inner is not None:
        ar.append(len(inner.elts))
    return shape, ar, params, elts, fi


def _len_class(n: X, f):
    """Is the allocation length the chunk length or the full N?"""
    if n.k == "name":
        nm = n.a[0]
        if nm in f.locals and f.locals[nm][1] is not None:
            return _len_class(f.locals[nm][1], f)
        if nm == "N":
            return "full"
    if n.k == "bin" and n.a[0] == "-" and pp(n.a[1]) == "end_i" and pp(n.a[2]) == "start_i":
        return "chunk"
    return None


def _unpack_arities(stmts, call):
    """Arity chain of tuple unpackings rooted at `call`'s result."""
    ar = []
    names = []
    for st in ast.walk(ast.Module(body=stmts, type_ignores=[])):
        if isinstance(st, ast.Assign) and st.value is call and \
                isinstance(st.targets[0], ast.Tuple):
            ar.append(len(st.targets[0].elts))
            names = [ast.unparse(e) for e in st.targets[0].elts]
    if not ar:
        return ar, names, None
    second = None
    for st in ast.walk(ast.Module(body=stmts, type_ignores=[])):
        if isinstance(st, ast.Assign) and isinstance(st.value, ast.Name) and \
                st.value.id in names and isinstance(st.targets[0], ast.Tuple):
            ar.append(len(st.targets[0].elts))
            second = st
    return ar, names, second


def q5(run: Run, prog, cy, m: Master):
    f, key = m.f, m.f.qualname
    if not hasattr(m, "target") or not hasattr(m, "serial_call"):
        return
    shape, arities, params, elts, wf = _worker_shape(prog, cy, m)
    par_ar, pnames, psecond = _unpack_arities(m.collect_loop.body, m.get_call)
    ser_ar, snames, ssecond = _unpack_arities(m.ifnode.orelse, m.serial_call)
    where = f"{f.module.relpath}:{m.get_call.lineno}"
    ok = (par_ar == arities == ser_ar)
    run.oblige("Q5", key + ":arity", ok, sample={
        "worker_returns": arities, "parallel_unpacks": par_ar, "serial_unpacks": ser_ar})
    if not ok:
        run.add("Q5", f"{key}/unpack", where,
                f"{key}: worker returns tuples of arity {arities}, distributed branch "
                f"unpacks {par_ar}, serial branch unpacks {ser_ar}")
    # reassembly statement in the collect loop
    res_stmt = psecond if psecond is not None else None
    unp = res_stmt.targets[0] if res_stmt is not None else None
    if unp is None:
        for st in m.collect_loop.body:
            if isinstance(st, ast.Assign) and st.value is m.get_call:
                unp = st.targets[0]
    res_names = [ast.unparse(e) for e in unp.elts] if isinstance(unp, ast.Tuple) else []
    mode = None
    stmt = None
    for st in m.collect_loop.body:
        if isinstance(st, ast.AugAssign) and isinstance(st.op, ast.Add) and \
                res_names and ast.unparse(st.value) == res_names[0] \
                and isinstance(st.target, ast.Name):
            mode, stmt = "accumulate", st
        if isinstance(st, ast.Assign) and res_names and \
                ast.unparse(st.value) == res_names[0] and \
                isinstance(st.targets[0], ast.Subscript):
            sl = st.targets[0].slice
            if isinstance(sl, ast.Slice) and len(res_names) >= 3 and \
                    ast.unparse(sl.lower) == res_names[1] and \
                    ast.unparse(sl.upper) == res_names[2]:
                mode, stmt = "slice", st
            else:
                mode, stmt = "slice-wrong", st
    want = {"chunk": "slice", "full": "accumulate"}.get(shape)
    good = shape is not None and mode == want
    # the worker must hand back its own (start_i, end_i) in positions 1, 2
    if shape == "chunk":
        good = good and len(elts) >= 3 and elts[1] == "start_i" and elts[2] == "end_i"
    run.oblige("Q5", key + ":reassembly", good, sample={
        "worker_result": shape, "master": mode, "worker_tuple": elts})
    if not good:
        run.add("Q5", f"{key}/reassembly", f"{f.module.relpath}:"
                f"{(stmt or m.collect_loop).lineno}",
                f"{key}: worker result is {shape or 'of unknown'} length "
                f"(returns {elts}) but the master re-assembles it by "
                f"{mode or 'an unrecognised statement'}; expected {want}")


def q6(run: Run, prog, cy, m: Master):
    """Chunk-relative vs absolute indexing of worker parameters."""
    f, key = m.f, m.f.qualname
    if not hasattr(m, "target") or not hasattr(m, "sliced"):
        return
    t = m.target
    use = {}      # param -> set of classes {'rel','abs','full','whole'}
    if t[0] == "kernel":
        wf = _canon_worker(cy, m)
        params = [a for a, _ in wf.args]
        cls = _cy_index_classes(wf)
        for n in walk(wf.body):
            if isinstance(n, X) and n.k == "index" and n.a[0].k == "name" \
                    and n.a[0].a[0] in params:
                first = n.a[1][0]
                use.setdefault(n.a[0].a[0], set()).add(_classify_cy(first, cls))
        where = wf.where
        # comparisons between node indices: a chunk-relative counter must not be
        # compared with an absolute node index (a loop over all N nodes / i_abs)
        ncmp = 0
        for n in walk(wf.body):
            if isinstance(n, X) and n.k == "cmp" and n.a[0] in ("==", "!=") and \
                    n.a[1].k == "name" and n.a[2].k == "name" and \
                    n.a[1].a[0] in cls and n.a[2].a[0] in cls:
                ncmp += 1
                ca, cb = cls[n.a[1].a[0]], cls[n.a[2].a[0]]
                okc = not ({ca, cb} in ({"rel", "full"}, {"rel", "abs"}))
                run.oblige("Q6", f"{key}:compare:{pp(n)}", okc, sample={
                    "where": f"{wf.module.relpath}:{n.line}", "roles": [ca, cb]})
                if not okc:
                    run.add("Q6", f"{key}/compare-roles", f"{wf.module.relpath}:{n.line}",
                            f"worker {wf.name} compares `{pp(n.a[1])}` ({ca}) with "
                            f"`{pp(n.a[2])}` ({cb}): a chunk-relative counter is "
                            f"compared with an absolute node index - identical only "
                            f"for the chunk that starts at node 0, so every other chunk "
                            f"of the distributed branch computes something else than "
                            f"the serial branch")
    else:
        wf = _canon_worker(cy, m)
        params = wf.params
        cls = _py_index_classes(wf)
        for n in ast.walk(wf.node):
            if isinstance(n, ast.Subscript) and isinstance(n.value, ast.Name) \
                    and n.value.id in params:
                s = n.slice
                first = s.elts[0] if isinstance(s, ast.Tuple) else s
                use.setdefault(n.value.id, set()).add(_classify_py(first, cls))
        where = wf.where
    for i, p in enumerate(params):
        if i >= len(m.sliced):
            break
        kinds = use.get(p, set()) - {"const"}
        sliced = m.sliced[i]
        if not kinds:
            ok = not sliced or True
            run.oblige("Q6", f"{key}:{p}", True, nontrivial=False)
            continue
        if kinds <= {"rel"}:
            ok = sliced
            why = "is indexed with the chunk-relative counter, so it must be passed " \
                  "sliced to the chunk in the distributed branch"
        elif "rel" not in kinds:
            ok = not sliced
            why = "is indexed with absolute node indices, so it must be passed whole"
        else:
            ok = False
            why = f"is indexed both chunk-relatively and absolutely ({sorted(kinds)})"
        run.oblige("Q6", f"{key}:{p}", ok, sample={
            "param": p, "index_kinds": sorted(kinds), "sliced_at_call": sliced,
            "worker": where})
        if not ok:
            run.add("Q6", f"{key}/{p}", where,
                    f"worker parameter `{p}` {why}; the distributed call site passes "
                    f"it {'sliced' if sliced else 'whole'} -> rows of the wrong nodes "
                    f"are used in every chunk but the first")


def _cy_index_classes(wf):
    """name -> 'rel'|'abs'|'full' for loop variables / derived scalars."""
    cls = {}
    chunk_len = set()
    for nm, (t, init, _) in wf.locals.items():
        if init is not None and init.k == "bin" and init.a[0] == "-" and \
                pp(init.a[1]) == "end_i" and pp(init.a[2]) == "start_i":
            chunk_len.add(nm)
    for n in walk(wf.body):
        if not isinstance(n, X):
            continue
        if n.k == "for" and n.a[0].k == "name" and n.a[1].k == "call" \
                and pp(n.a[1].a[0]) == "range":
            args = n.a[1].a[1]
            v = n.a[0].a[0]
            if len(args) == 1 and (pp(args[0]) in chunk_len or
                                   pp(args[0]) == "(end_i - start_i)"):
                cls[v] = "rel"
            elif len(args) == 2 and pp(args[0]) == "start_i" and pp(args[1]) == "end_i":
                cls[v] = "abs"
            else:
                cls[v] = "full"
    changed = True
    while changed:
        changed = False
        for n in walk(wf.body):
            if isinstance(n, X) and n.k == "assign" and len(n.a[0]) == 1 \
                    and n.a[0][0].k == "name":
                v = n.a[0][0].a[0]
                c = _classify_cy(n.a[1], cls)
                if c in ("rel", "abs") and cls.get(v) != c:
                    cls[v] = c
                    changed = True
    return cls


def _classify_cy(e: X, cls):
    if e.k == "num":
        return "const"
    if e.k == "name":
        return cls.get(e.a[0], "full")
    if e.k == "bin" and e.a[0] == "+":
        l, r = e.a[1], e.a[2]
        for a, b in ((l, r), (r, l)):
            if pp(b) == "start_i" and _classify_cy(a, cls) == "rel":
                return "abs"
    if e.k == "bin" and e.a[0] == "-":
        if pp(e.a[2]) == "start_i" and _classify_cy(e.a[1], cls) == "abs":
            return "rel"
    if e.k == "slice":
        return "full"
    return "full"


def _py_index_classes(wf: FuncInfo):
    cls = {}
    for n in ast.walk(wf.node):
        if isinstance(n, ast.For) and isinstance(n.target, ast.Name) and \
                isinstance(n.iter, ast.Call) and ast.unparse(n.iter.func) == "range":
            a = [ast.unparse(x) for x in n.iter.args]
            if a == ["start_i", "end_i"]:
                cls[n.target.id] = "abs"
            elif len(a) == 1 and a[0].replace(" ", "") == "end_i-start_i":
                cls[n.target.id] = "rel"
            else:
                cls[n.target.id] = "full"
    # scalars derived from a loop counter once (`i_rel = i - start_i`)
    from .idioms import single_defs
    defs = single_defs(wf.node)
    for _ in range(3):
        for nm, v in defs.items():
            if nm not in cls:
                k = _classify_py(v, cls)
                if k in ("rel", "abs"):
                    cls[nm] = k
    return cls


def _classify_py(e, cls):
    if isinstance(e, ast.Constant):
        return "const"
    if isinstance(e, ast.Name):
        return cls.get(e.id, "full")
    if isinstance(e, ast.BinOp) and isinstance(e.op, ast.Sub) and \
            ast.unparse(e.right) == "start_i" and _classify_py(e.left, cls) == "abs":
        return "rel"
    if isinstance(e, ast.BinOp) and isinstance(e.op, ast.Add):
        for a, b in ((e.left, e.right), (e.right, e.left)):
            if ast.unparse(b) == "start_i" and _classify_py(a, cls) == "rel":
                return "abs"
    return "full"


# ---------------------------------------------------------------------------
# Q7: multiprocessing split of _nsi_betweenness

def q7(run: Run, prog: Program, cy: CyProgram):
    net = prog.classes.get("Network")
    m = net.methods.get("_nsi_betweenness") if net else None
    if m is None:
        raise AnalysisError("Network._nsi_betweenness vanished")
    key = m.qualname
    src = m.node
    # python side: same worker object in both branches; parallel = sum over a
    # partition of `targets`
    ifs = [n for n in ast.walk(src) if isinstance(n, ast.If)
           and ast.unparse(n.test) == "parallelize"]
    if len(ifs) != 1:
        raise AnalysisError(f"{m.where}: `if parallelize:` not found in {key}")
    ifn = ifs[0]
    par_src = "\n".join(ast.unparse(s) for s in ifn.body)
    ser_src = "\n".join(ast.unparse(s) for s in ifn.orelse)
    pm = [c for c in ast.walk(ifn) if isinstance(c, ast.Call)
          and isinstance(c.func, ast.Attribute) and c.func.attr in ("map", "imap",
                                                                    "starmap")]
    # the worker is whatever pool.map applies; the split source is whatever
    # np.array_split partitions
    wname = ast.unparse(pm[0].args[0]) if len(pm) == 1 and len(pm[0].args) == 2 \
        else "worker"
    worker_defs = [n for n in ast.walk(src) if isinstance(n, ast.Assign)
                   and ast.unparse(n.targets[0]) == wname]
    ok = True
    why = []
    split_src = None
    if len(worker_defs) != 1 or ifn in [a for w in worker_defs
                                        for a in ast.walk(ifn) if a is w]:
        ok = False
        why.append("worker is not defined once before the branch")
    if not (len(pm) == 1 and len(pm[0].args) == 2):
        ok = False
        why.append("pool.map does not apply a worker to batches")
    else:
        batches = ast.unparse(pm[0].args[1])
        bdef = [n for n in ast.walk(ifn) if isinstance(n, ast.Assign)
                and ast.unparse(n.targets[0]) == batches]
        if not (len(bdef) == 1 and isinstance(bdef[0].value, ast.Call)
                and ast.unparse(bdef[0].value.func) == "np.array_split"
                and bdef[0].value.args):
            ok = False
            why.append(f"`{batches}` is not np.array_split(<targets>, ...) - not a "
                       f"partition of the targets")
        else:
            split_src = ast.unparse(bdef[0].value.args[0])
        # the map result must be summed over axis 0
        sums = [c for c in ast.walk(ifn) if isinstance(c, ast.Call)
                and ast.unparse(c.func) in ("np.sum", "sum")
                and c.args and pm[0] in list(ast.walk(c.args[0]))]
        if not sums or (ast.unparse(sums[0].func) == "np.sum" and not any(
                k.arg == "axis" and ast.unparse(k.value) == "0"
                for k in sums[0].keywords)):
            ok = False
            why.append("batch results are not summed over axis 0")
    sc = [c for c in ast.walk(ast.Module(body=ifn.orelse, type_ignores=[]))
          if isinstance(c, ast.Call) and ast.unparse(c.func) == wname]
    if not (len(sc) == 1 and split_src is not None and
            [ast.unparse(a) for a in sc[0].args] == [split_src]):
        ok = False
        why.append(f"serial branch does not call the worker on the whole "
                   f"`{split_src}`")
    if split_src is not None and split_src not in m.params:
        ok = False
        why.append(f"`{split_src}` is not the method's target parameter")
    run.oblige("Q7", key + ":split", ok, sample={"where": m.where})
    if not ok:
        run.add("Q7", f"{key}/split", f"{m.module.relpath}:{ifn.lineno}",
                f"{key}: multiprocessing split is not sum(worker(batch)) over a "
                f"partition of targets vs worker(targets): {'; '.join(why)}")
    # kernel side
    wd = worker_defs[0].value if worker_defs else None
    kname = None
    if isinstance(wd, ast.Call) and ast.unparse(wd.func) == "partial" and wd.args:
        r = prog.resolve_name(m.module, ast.unparse(wd.args[0]))
        if r and r[0] == "kernel":
            kname = r
    if kname is None:
        raise AnalysisError(f"{m.where}: worker is not partial(<kernel>, ...)")
    kf = cy.func(kname[1], kname[2])
    if kf is None:
        raise AnalysisError(f"kernel {kname} not found")
    # the batch parameter is the one partial() leaves open: the last one
    npre = len(wd.args) - 1
    open_params = [n for n, _ in kf.args][npre:]
    tparam = open_params[0] if len(open_params) == 1 else "targets"
    loops = [s for s in kf.body if s.k == "for" and pp(s.a[1]) == tparam]
    if len(loops) != 1:
        raise AnalysisError(f"{kf.where}: `for j in {tparam}` (loop over the batch "
                            f"parameter) not found at top level")
    loop = loops[0]
    body = loop.a[2]
    arrays = {n for n, (t, _, _) in kf.locals.items() if t.kind == "buffer"}
    scalars = {n for n, (t, _, _) in kf.locals.items() if t.kind == "simple"}
    rets = [s for s in kf.body if s.k == "return"]
    acc = pp(rets[0].a[0]) if rets and rets[0].a[0] is not None else None
    from .loopir import stale_work_arrays
    written_arrays, problems = stale_work_arrays(body, arrays, accumulator=acc)
    for a, st in problems:
        _q7_fail(run, kf, a, st)
    for a in sorted(written_arrays):
        if a not in {p[0] for p in problems}:
            run.oblige("Q7", f"{kf.name}:{a}", True, sample={
                "array": a, "role": "accumulator" if a == acc else "re-initialised"})
    # scalars: first use inside the iteration must be a write
    assigned_first = _scalar_first_use(body, scalars, names_in(loop.a[0]))
    for v, (ok2, line) in sorted(assigned_first.items()):
        run.oblige("Q7", f"{kf.name}:scalar:{v}", ok2)
        if not ok2:
            run.add("Q7", f"{kf.name}/scalar/{v}", f"{kf.module.relpath}:{line}",
                    f"{kf.name}: scalar `{v}` is read in an iteration of `for j in "
                    f"targets` before it is assigned there - it carries state from "
                    f"one target to the next, so batching changes the result")
    run.floor("Q7 arrays", len(written_arrays), 5)


def _q7_fail(run, kf, a, st):
    run.add("Q7", f"{kf.name}/array/{a}", f"{kf.module.relpath}:{st.line}",
            f"{kf.name}: work array `{a}` is used in an iteration of `for j in "
            f"targets` without being fully re-initialised first - it carries state "
            f"from one target to the next, so sum(worker(batch)) differs from "
            f"worker(all targets)")
    run.oblige("Q7", f"{kf.name}:{a}:init", False)


def _scalar_first_use(body, scalars, pre=()):
    """scalar -> (first use in iteration is a write, line)."""
    res = {}

    def reads(x):
        return names_in(x)

    def visit(stmts, assigned):
        for st in stmts:
            if st.k == "assign":
                for v in reads(st.a[1]) & scalars:
                    res.setdefault(v, (v in assigned, st.line))
                for t in st.a[0]:
                    if t.k == "name":
                        if t.a[0] in scalars:
                            res.setdefault(t.a[0], (True, st.line))
                            assigned.add(t.a[0])
                    elif t.k == "tuple":
                        for e in t.a[0]:
                            if e.k == "name" and e.a[0] in scalars:
                                res.setdefault(e.a[0], (True, st.line))
                                assigned.add(e.a[0])
                    else:
                        for v in reads(t) & scalars:
                            res.setdefault(v, (v in assigned, st.line))
            elif st.k == "aug":
                for v in (reads(st.a[2]) | reads(st.a[1])) & scalars:
                    res.setdefault(v, (v in assigned, st.line))
            elif st.k == "for":
                for v in reads(st.a[1]) & scalars:
                    res.setdefault(v, (v in assigned, st.line))
                inner = set(assigned)
                for v in reads(st.a[0]) & scalars:
                    res.setdefault(v, (True, st.line))
                    inner.add(v)
                    assigned.add(v)
                visit(st.a[2], inner)
            elif st.k == "while":
                for v in reads(st.a[0]) & scalars:
                    res.setdefault(v, (v in assigned, st.line))
                visit(st.a[1], set(assigned))
            elif st.k == "if":
                common = None
                for cond, b in st.a[0]:
                    for v in reads(cond) & scalars:
                        res.setdefault(v, (v in assigned, st.line))
                    a2 = set(assigned)
                    visit(b, a2)
                    common = a2 if common is None else (common & a2)
                a3 = set(assigned)
                visit(st.a[1], a3)
                common = a3 if common is None else (common & a3)
                assigned |= common
            elif st.k in ("expr", "return"):
                for v in reads(st.a[0]) & scalars if st.a[0] is not None else ():
                    res.setdefault(v, (v in assigned, st.line))
    visit(body, set(pre))
    return res


# ---------------------------------------------------------------------------

def check(run: Run, prog: Program, cy: CyProgram):
    run.rule("Q1", "no statement other than console output is control-dependent on "
             "silence_level (repo-wide; non-trivial = in the four distributed measures)")
    run.rule("Q2", "submit loop and collect loop iterate the same range in the same "
             "order; every chunk is submitted unconditionally and collected by its id")
    run.rule("Q3", "the worker named in submit_call is the function the serial branch "
             "calls, and every argument is the serial argument restricted to the chunk")
    run.rule("Q4", "chunk arithmetic instantiates the partition template of the "
             "chunking lemma (DESIGN.md appendix)")
    run.rule("Q5", "result tuples are unpacked with the worker's arity and "
             "re-assembled according to the worker's result shape")
    run.rule("Q6", "worker parameters indexed chunk-relatively are passed sliced, "
             "parameters indexed absolutely are passed whole")
    run.rule("Q7", "the multiprocessing split is a sum over a partition and the "
             "kernel's per-target iteration carries no state but the accumulator")
    run.explanation = (
        "Source-level equivalence of the distributed and the serial branch of "
        "the four distributable betweenness measures (the distributed branches "
        "are dead code under the tests): structural pairing of submit/collect "
        "loops, static resolution of the worker named by a string, position-wise "
        "argument correspondence under chunk restriction, chunk-template "
        "membership (partition lemma proved on paper), result re-assembly vs. "
        "worker result shape, index discipline inside the workers, loop-carried "
        "state of the batched kernel, and repo-wide verbosity independence.")
    run.assumptions += [
        "utils/mpi.py itself (scheduling, FIFO per worker, pickling) is trusted",
        "floating-point summation order is not considered",
        "np.array_split partitions its input (numpy contract)"]
    masters = find_masters(prog)
    run.floor("MPI master loops", len(masters), 3, hard=True)
    q1(run, prog, [m.f for m in masters] +
       [prog.classes["Network"].methods["_nsi_betweenness"]])
    run.rule("Q8", "a one-shot iterator (zip, map, generator ...) bound to a local of a "
             "master function has a single consumer")
    for m in masters:
        q8(run, m)
        pair_ok = q2(run, m)
        q4(run, m)
        if m.submit_loop is not None and m.collect_loop is not None:
            q3(run, prog, cy, m)
            q5(run, prog, cy, m)
            q6(run, prog, cy, m)
    q7(run, prog, cy)
    run.units = {"masters": [m.f.qualname for m in masters],
                 "workers": [str(getattr(m, "target", None) and
                                 (m.target[1].qualname if m.target[0] == "func"
                                  else m.target[2])) for m in masters]}
