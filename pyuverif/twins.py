"""Automatic behaviour-preserving twins: rename every local variable of every
function in a source file (Python via ast+tokenize, Cython via tokenize with the
locals taken from the Cython parse, C via the clang AST).  A checker verdict must
not depend on what a maintainer calls a local."""
from __future__ import annotations

import ast
import io
import keyword
import re
import tokenize
import glob
import os

SUFFIX = "_rn7"


def _py_locals(fn: ast.AST) -> set:
    params = {a.arg for a in fn.args.posonlyargs + fn.args.args + fn.args.kwonlyargs}
    if fn.args.vararg:
        params.add(fn.args.vararg.arg)
    if fn.args.kwarg:
        params.add(fn.args.kwarg.arg)
    names, banned = set(), set()
    used_before = set()

    def visit(n, top):
        for c in ast.iter_child_nodes(n):
            if isinstance(c, (ast.FunctionDef, ast.AsyncFunctionDef, ast.Lambda,
                              ast.ClassDef)):
                # nested scopes: free variables referring to our locals are
                # renamed with them (token pass is purely lexical), but their own
                # parameters must keep their names
                if not isinstance(c, ast.Lambda):
                    banned.add(c.name)
                if not isinstance(c, ast.ClassDef):
                    a = c.args
                    for x in a.posonlyargs + a.args + a.kwonlyargs:
                        banned.add(x.arg)
                    if a.vararg:
                        banned.add(a.vararg.arg)
                    if a.kwarg:
                        banned.add(a.kwarg.arg)
                visit(c, False)
                continue
            if isinstance(c, (ast.Global, ast.Nonlocal)):
                banned.update(c.names)
            if isinstance(c, ast.Name) and isinstance(c.ctx, (ast.Store, ast.Del)):
                names.add(c.id)
            if isinstance(c, (ast.Import, ast.ImportFrom)):
                for al in c.names:
                    banned.add((al.asname or al.name).split(".")[0])
            if isinstance(c, ast.ExceptHandler) and c.name:
                banned.add(c.name)
            if isinstance(c, ast.keyword) and c.arg:
                pass
            visit(c, top)
    visit(fn, True)
    return {n for n in names - params - banned if not n.startswith("__")}


def rename_locals_py(src: str, only: str | None = None) -> tuple[str, int]:
    """-> (new source, number of renamed identifiers)."""
    tree = ast.parse(src)
    spans = []         # (first line, last line, names)

    def walk(node, qual):
        for c in ast.iter_child_nodes(node):
            if isinstance(c, ast.ClassDef):
                walk(c, qual + [c.name])
            elif isinstance(c, (ast.FunctionDef, ast.AsyncFunctionDef)):
                q = ".".join(qual + [c.name])
                if only is None or only == q or only == c.name:
                    # doctest text inside the docstring is left alone (strings)
                    spans.append((c.lineno, c.end_lineno, _py_locals(c)))
    walk(tree, [])
    if not spans:
        return src, 0
    by_line = {}
    for a, b, names in spans:
        for ln in range(a, b + 1):
            by_line.setdefault(ln, set()).update(names)
    toks = list(tokenize.generate_tokens(io.StringIO(src).readline))
    edits = []
    depth = 0
    for i, t in enumerate(toks):
        if t.type == tokenize.OP:
            if t.string in "([{":
                depth += 1
            elif t.string in ")]}":
                depth -= 1
        if t.type != tokenize.NAME or keyword.iskeyword(t.string):
            continue
        names = by_line.get(t.start[0])
        if not names or t.string not in names:
            continue
        j = i - 1
        while j >= 0 and toks[j].type in (tokenize.NL, tokenize.NEWLINE,
                                          tokenize.COMMENT, tokenize.INDENT,
                                          tokenize.DEDENT):
            j -= 1
        prev = toks[j] if j >= 0 else None
        nxt = toks[i + 1] if i + 1 < len(toks) else None
        if prev is not None and prev.type == tokenize.OP and prev.string == ".":
            continue
        if prev is not None and prev.type == tokenize.NAME and \
                prev.string in ("def", "class", "import", "from"):
            continue
        if depth > 0 and nxt is not None and nxt.type == tokenize.OP and \
                nxt.string == "=" and prev is not None and prev.type == tokenize.OP \
                and prev.string in "(,":
            continue              # keyword argument name
        edits.append((t.start, t.end, t.string + SUFFIX))
    lines = src.splitlines(keepends=True)
    for (sl, sc), (el, ec), new in sorted(edits, reverse=True):
        ln = lines[sl - 1]
        lines[sl - 1] = ln[:sc] + new + ln[ec:]
    return "".join(lines), len(edits)


def rename_locals_pyx(src: str, cyfuncs, only: str | None = None) -> tuple[str, int]:
    """cyfuncs: iterable of (name, first line, locals set, params set)."""
    funcs = sorted(cyfuncs, key=lambda f: f[1])
    srclines = src.splitlines(keepends=True)
    by_line = {}
    for k, (name, line, locs, params) in enumerate(funcs):
        if only is not None and name != only:
            continue
        end = funcs[k + 1][1] - 1 if k + 1 < len(funcs) else len(srclines)
        # stop at the next top-level statement
        for ln in range(line + 1, end + 1):
            t = srclines[ln - 1]
            if t.strip() and not t[0].isspace() and not t.lstrip().startswith("#") \
                    and not t.startswith(")"):
                end = ln - 1
                break
        names = {n for n in locs - params if not n.startswith("__") and n != "_"}
        for ln in range(line, end + 1):
            by_line.setdefault(ln, set()).update(names)
    try:
        toks = list(tokenize.generate_tokens(io.StringIO(src).readline))
    except (tokenize.TokenError, IndentationError, SyntaxError):
        return src, 0
    edits = []
    depth = 0
    for i, t in enumerate(toks):
        if t.type == tokenize.OP:
            if t.string in "([{":
                depth += 1
            elif t.string in ")]}":
                depth -= 1
        if t.type != tokenize.NAME or keyword.iskeyword(t.string):
            continue
        names = by_line.get(t.start[0])
        if not names or t.string not in names:
            continue
        j = i - 1
        while j >= 0 and toks[j].type in (tokenize.NL, tokenize.NEWLINE,
                                          tokenize.COMMENT, tokenize.INDENT,
                                          tokenize.DEDENT):
            j -= 1
        prev = toks[j] if j >= 0 else None
        nxt = toks[i + 1] if i + 1 < len(toks) else None
        if prev is not None and prev.type == tokenize.OP and prev.string == ".":
            continue
        if prev is not None and prev.type == tokenize.NAME and \
                prev.string in ("def", "class", "import", "from"):
            continue
        if depth > 0 and nxt is not None and nxt.type == tokenize.OP and \
                nxt.string == "=" and prev is not None and prev.type == tokenize.OP \
                and prev.string in "(,":
            continue
        edits.append((t.start, t.end, t.string + SUFFIX))
    lines = srclines
    for (sl, sc), (el, ec), new in sorted(edits, reverse=True):
        ln = lines[sl - 1]
        lines[sl - 1] = ln[:sc] + new + ln[ec:]
    return "".join(lines), len(edits)


def rename_locals_c(src: str, cfuncs) -> tuple[str, int]:
    """cfuncs: iterable of (name, first line, last line, locals set)."""
    lines = src.splitlines(keepends=True)
    n = 0
    for name, a, b, locs in cfuncs:
        for ln in range(a, min(b, len(lines)) + 1):
            t = lines[ln - 1]
            code, sep, comment = t.partition("//")
            for v in locs:
                code, k = re.subn(r"(?<![\w.>])%s\b" % re.escape(v), v + SUFFIX, code)
                n += k
            lines[ln - 1] = code + sep + comment
    return "".join(lines), n


def pyx_funcs(repo, rel):
    from .cymodel import load_module, walk, X
    mod = rel[len("src/"):-len(".pyx")].replace("/", ".")
    m = load_module(repo, mod)
    out = []
    for f in m.funcs.values():
        locs = set(f.locals)
        for s in walk(f.body):
            if isinstance(s, X) and s.k == "for":
                for n in walk(s.a[0]):
                    if isinstance(n, X) and n.k == "name":
                        locs.add(n.a[0])
            if isinstance(s, X) and s.k == "assign":
                for t in s.a[0]:
                    for n in ([t] if t.k == "name" else (t.a[0] if t.k == "tuple" else [])):
                        if isinstance(n, X) and n.k == "name":
                            locs.add(n.a[0])
        params = {n for n, t in f.args}
        # module-level names must keep their names
        locs -= set(m.funcs) | set(m.externs) | set(m.globals) | set(m.ctypedefs)
        out.append((f.name, f.line, locs, params))
    return out


def c_funcs(repo, rel):
    from .cmodel import load_c
    from .cymodel import walk, X
    d = load_c(repo, rel)
    fs = sorted(d["funcs"].values(), key=lambda f: f.line)
    nlines = len(open(os.path.join(repo, rel)).read().splitlines())
    out = []
    for i, f in enumerate(fs):
        end = fs[i + 1].line - 1 if i + 1 < len(fs) else nlines
        locs = set()
        for s in walk(f.body):
            if isinstance(s, X) and s.k == "cdecl":
                for (n, t, init) in s.a[0]:
                    locs.add(n)
        out.append((f.name, f.line, end, locs))
    return out


def make_twin(repo, dst, files=None, only_file=None):
    from . import mutants
    mutants._scratch(dst, repo)
    stats = {}
    for p in sorted(glob.glob(os.path.join(dst, "src/pyunicorn/**/*"), recursive=True)):
        rel = os.path.relpath(p, dst)
        if only_file and rel != only_file:
            continue
        if files and not any(f in rel for f in files):
            continue
        if rel.endswith(".py"):
            src = open(p, encoding="utf-8").read()
            new, n = rename_locals_py(src)
            if n:
                ast.parse(new)
                open(p, "w", encoding="utf-8").write(new)
            stats[rel] = n
        elif rel.endswith(".pyx"):
            src = open(p, encoding="utf-8").read()
            new, n = rename_locals_pyx(src, pyx_funcs(repo, rel))
            if n:
                open(p, "w", encoding="utf-8").write(new)
            stats[rel] = n
        elif rel.endswith(".c") and "src_" in rel:
            src = open(p, encoding="utf-8").read()
            new, n = rename_locals_c(src, c_funcs(repo, rel))
            if n:
                open(p, "w", encoding="utf-8").write(new)
            stats[rel] = n
    return stats




def make_reformat_twin(repo, dst):
    """Every Python source re-emitted by ast.unparse (new line numbers, layout,
    quoting, parenthesisation; comments dropped): same program, other text."""
    from . import mutants
    mutants._scratch(dst, repo)
    stats = {}
    for p in sorted(glob.glob(os.path.join(dst, "src/pyunicorn/**/*.py"), recursive=True)):
        src = open(p, encoding="utf-8").read()
        new = ast.unparse(ast.parse(src)) + "\n"
        open(p, "w", encoding="utf-8").write(new)
        stats[os.path.relpath(p, dst)] = 1
    return stats


def make_param_twin(repo, dst):
    """Every parameter of every Cython function renamed (all call sites in the
    repository are positional; validated once by rebuilding and running the
    test-suite on this twin)."""
    from . import mutants
    mutants._scratch(dst, repo)
    stats = {}
    for p in sorted(glob.glob(os.path.join(dst, "src/pyunicorn/**/*.pyx"), recursive=True)):
        rel = os.path.relpath(p, dst)
        fs = [(n, l, set(pr), set()) for (n, l, lo, pr) in pyx_funcs(repo, rel)]
        src = open(p, encoding="utf-8").read()
        new, n = rename_locals_pyx(src, fs)
        if n:
            open(p, "w", encoding="utf-8").write(new)
        stats[rel] = n
    return stats
