"""Kernel boundary table (DESIGN.md §3.5).

For every Python call whose callee resolves to a function of a compiled
`_ext.numerics` module: arity, and for every typed-buffer parameter the
declared (dtype, ndim) against the *inferred* (dtype, ndim) of the argument.
Inference is conservative and three-valued (known / unknown); only a known
and different fact is a mismatch: such a call raises `ValueError: Buffer dtype
mismatch` / `Buffer has wrong number of dimensions` on every execution.
"""
from __future__ import annotations

import ast
from dataclasses import dataclass, field
from typing import Optional

from .pymodel import Program, FuncInfo, ClassInfo, mangle
from .cymodel import CyProgram, CyFunc, CType, X, pp, walk
from .report import AnalysisError

try:                      # numpy itself is only used for its promotion table
    import numpy as _np
except Exception:         # pragma: no cover
    _np = None

DT_NAMES = {"int8", "int16", "int32", "int64", "uint8", "float32", "float64",
            "bool", "complex128", "complex64", "float128"}
PY_TYPES = {"int": "int64", "float": "float64", "bool": "bool",
            "complex": "complex128"}


def promote(a: Optional[str], b: Optional[str]) -> Optional[str]:
    if a is None or b is None or _np is None:
        return None
    try:
        return str(_np.result_type(_np.dtype(a), _np.dtype(b)))
    except Exception:
        return None


def sum_dtype(a: Optional[str]) -> Optional[str]:
    if a is None:
        return None
    if a in ("bool", "int8", "int16", "int32", "int64"):
        return "int64"
    if a == "uint8":
        return "uint64"
    return a


@dataclass
class Ty:
    dtype: Optional[str] = None
    ndim: Optional[int] = None
    why: str = ""

    def __bool__(self):
        return self.dtype is not None or self.ndim is not None


UNK = Ty()


class Inferer:
    def __init__(self, prog: Program, cy: CyProgram):
        self.p = prog
        self.cy = cy
        self.types = cy.types
        self._cell_cache = {}
        self._ret_cache = {}

    # ---- dtype expressions
    def dtype_of(self, e, module) -> Optional[str]:
        if e is None:
            return None
        if isinstance(e, ast.Constant) and isinstance(e.value, str):
            v = e.value
            return v if v in DT_NAMES else PY_TYPES.get(v)
        if isinstance(e, ast.Name):
            if e.id in PY_TYPES:
                return PY_TYPES[e.id]
            r = self.p.resolve_name(module, e.id)
            if r and r[0] == "value":
                return self.dtype_of(r[1], module)
            if e.id in self.types["py"]:
                # alias imported from core._ext.types
                return self.types["py"][e.id]
            return None
        if isinstance(e, ast.Attribute) and isinstance(e.value, ast.Name) and \
                e.value.id in ("np", "numpy"):
            if e.attr in DT_NAMES:
                return e.attr
            if e.attr == "bool_":
                return "bool"
            if e.attr == "float_":
                return "float64"
            if e.attr == "int_":
                return "int64"
        return None

    # ---- expressions
    def infer(self, e, env, f: FuncInfo, cls: Optional[ClassInfo], depth=0) -> Ty:
        if e is None or depth > 6:
            return UNK
        mod = f.module
        if isinstance(e, ast.Name):
            return env.get(e.id, UNK)
        if isinstance(e, ast.Attribute):
            if isinstance(e.value, ast.Name) and f.params and e.value.id == f.params[0] \
                    and cls is not None and f.kind in ("method", "getter", "setter"):
                return self.cell_type(cls, e.attr, depth + 1)
            if e.attr == "T":
                t = self.infer(e.value, env, f, cls, depth + 1)
                return Ty(t.dtype, t.ndim)
            if e.attr in ("real", "imag"):
                return UNK
            return UNK
        if isinstance(e, ast.Subscript):
            t = self.infer(e.value, env, f, cls, depth + 1)
            nd = None
            if t.ndim is not None:
                dims = e.slice.elts if isinstance(e.slice, ast.Tuple) else [e.slice]
                if all(isinstance(d, ast.Slice) for d in dims):
                    nd = t.ndim
                elif all(isinstance(d, (ast.Slice, ast.Constant)) or
                         (isinstance(d, ast.Name) and env.get(d.id, UNK).ndim in (None,))
                         for d in dims) and all(
                        isinstance(d, ast.Slice) or
                        (isinstance(d, ast.Constant) and isinstance(d.value, int))
                        for d in dims):
                    nd = t.ndim - sum(1 for d in dims if isinstance(d, ast.Constant))
            return Ty(t.dtype, nd)
        if isinstance(e, ast.Compare):
            t = self.infer(e.left, env, f, cls, depth + 1)
            return Ty("bool", t.ndim)
        if isinstance(e, ast.UnaryOp):
            t = self.infer(e.operand, env, f, cls, depth + 1)
            if isinstance(e.op, ast.Not):
                return UNK
            return t
        if isinstance(e, ast.IfExp):
            a = self.infer(e.body, env, f, cls, depth + 1)
            b = self.infer(e.orelse, env, f, cls, depth + 1)
            return Ty(a.dtype if a.dtype == b.dtype else None,
                      a.ndim if a.ndim == b.ndim else None)
        if isinstance(e, ast.BinOp):
            l = self.infer(e.left, env, f, cls, depth + 1)
            r = self.infer(e.right, env, f, cls, depth + 1)
            # array (op) weak python scalar constant
            for arr, other in ((l, e.right), (r, e.left)):
                if arr.dtype and isinstance(other, ast.Constant) and \
                        isinstance(other.value, (int, float)) and \
                        not isinstance(other.value, bool) and \
                        isinstance(e.op, (ast.Add, ast.Sub, ast.Mult, ast.Div)):
                    dt = arr.dtype
                    isf = dt.startswith(("float", "complex"))
                    if isinstance(e.op, ast.Div) and not isf:
                        dt = "float64"
                    elif isinstance(other.value, float) and not isf:
                        dt = "float64"
                    return Ty(dt, arr.ndim)
            if isinstance(e.op, (ast.BitAnd, ast.BitOr, ast.BitXor)):
                return Ty(promote(l.dtype, r.dtype), l.ndim if l.ndim == r.ndim else None)
            # python scalars are weak; only array (x) array is decided here
            if l.dtype and r.dtype:
                dt = promote(l.dtype, r.dtype)
                if isinstance(e.op, ast.Div) and dt and not dt.startswith(("float", "complex")):
                    dt = "float64"
                nd = None
                if l.ndim and r.ndim and not isinstance(e.op, ast.MatMult):
                    nd = max(l.ndim, r.ndim)
                return Ty(dt, nd)
            return UNK
        if isinstance(e, ast.Call):
            return self.infer_call(e, env, f, cls, depth)
        return UNK

    def shape_ndim(self, e) -> Optional[int]:
        if isinstance(e, (ast.Tuple, ast.List)):
            if any(isinstance(x, ast.Starred) for x in e.elts):
                return None
            return len(e.elts)
        if isinstance(e, ast.Constant) and isinstance(e.value, int):
            return 1
        if isinstance(e, ast.Name):
            return None          # could be an int or a shape tuple
        if isinstance(e, ast.Attribute) and e.attr == "shape":
            return None
        if isinstance(e, ast.BinOp):
            return 1             # arithmetic gives a scalar length
        if isinstance(e, ast.Call) and isinstance(e.func, ast.Name) and \
                e.func.id in ("len", "int"):
            return 1
        return None

    def infer_call(self, e: ast.Call, env, f, cls, depth) -> Ty:
        fn = e.func
        mod = f.module
        kw = {k.arg: k.value for k in e.keywords if k.arg}
        fname = ast.unparse(fn)
        if isinstance(fn, ast.Name) and fn.id == "to_cy" and len(e.args) == 2:
            t = self.infer(e.args[0], env, f, cls, depth + 1)
            return Ty(self.dtype_of(e.args[1], mod), t.ndim, "to_cy")
        if fname in ("np.zeros", "np.ones", "np.empty", "np.full"):
            shape = e.args[0] if e.args else kw.get("shape")
            dt = kw.get("dtype")
            if dt is None and fname != "np.full" and len(e.args) > 1:
                dt = e.args[1]
            d = self.dtype_of(dt, mod) if dt is not None else (
                "float64" if fname != "np.full" else None)
            nd = self.shape_ndim(shape)
            if nd is None and isinstance(shape, ast.Name):
                # a name bound to len(..)/int in env is a scalar
                t = env.get(shape.id, UNK)
                if t.why == "scalar":
                    nd = 1
                elif t.why.startswith("shape:"):
                    nd = int(t.why[6:])
            return Ty(d, nd, fname)
        if fname in ("np.zeros_like", "np.ones_like", "np.empty_like"):
            t = self.infer(e.args[0], env, f, cls, depth + 1) if e.args else UNK
            dt = kw.get("dtype")
            return Ty(self.dtype_of(dt, mod) if dt is not None else t.dtype, t.ndim)
        if fname in ("np.array", "np.asarray", "np.ascontiguousarray"):
            dt = kw.get("dtype") or (e.args[1] if len(e.args) > 1 else None)
            t = self.infer(e.args[0], env, f, cls, depth + 1) if e.args else UNK
            d = self.dtype_of(dt, mod) if dt is not None else t.dtype
            return Ty(d, t.ndim)
        if fname == "np.arange":
            dt = kw.get("dtype")
            if dt is not None:
                return Ty(self.dtype_of(dt, mod), 1)
            return Ty(None, 1)
        if fname in ("np.eye", "np.identity"):
            dt = kw.get("dtype")
            return Ty(self.dtype_of(dt, mod) if dt is not None else "float64", 2)
        if fname in ("np.isnan", "np.isinf", "np.isfinite", "np.logical_not"):
            t = self.infer(e.args[0], env, f, cls, depth + 1) if e.args else UNK
            return Ty("bool", t.ndim)
        if fname in ("np.abs", "np.absolute", "abs", "np.square", "np.copy"):
            t = self.infer(e.args[0], env, f, cls, depth + 1) if e.args else UNK
            return Ty(t.dtype if t.dtype and not t.dtype.startswith("complex") else None,
                      t.ndim)
        if fname in ("np.cos", "np.sin", "np.sqrt", "np.exp", "np.log", "np.arccos"):
            t = self.infer(e.args[0], env, f, cls, depth + 1) if e.args else UNK
            d = t.dtype
            if d and not d.startswith(("float", "complex")):
                d = "float64" if d not in ("int8", "int16", "bool", "uint8") else None
            return Ty(d, t.ndim)
        if isinstance(fn, ast.Attribute):
            base = self.infer(fn.value, env, f, cls, depth + 1)
            a = fn.attr
            if a == "astype":
                dt = e.args[0] if e.args else kw.get("dtype")
                return Ty(self.dtype_of(dt, mod), base.ndim, "astype")
            if a in ("copy", "squeeze"):
                return Ty(base.dtype, base.ndim if a == "copy" else None)
            if a in ("transpose",):
                return Ty(base.dtype, base.ndim)
            if a in ("flatten", "ravel"):
                return Ty(base.dtype, 1)
            if a in ("sum", "cumsum", "prod"):
                d = sum_dtype(base.dtype) if "dtype" not in kw else \
                    self.dtype_of(kw["dtype"], mod)
                ax = kw.get("axis") or (e.args[0] if e.args else None)
                if a == "cumsum":
                    nd = base.ndim if ax is not None else 1
                elif ax is None:
                    nd = 0
                else:
                    nd = base.ndim - 1 if base.ndim is not None and \
                        isinstance(ax, ast.Constant) else None
                return Ty(d, nd, a)
            if a in ("argsort", "argmax", "argmin", "nonzero"):
                return Ty("int64", base.ndim if a == "argsort" else None)
            if a in ("mean", "std", "var"):
                d = base.dtype
                if d and not d.startswith(("float", "complex")):
                    d = "float64"
                ax = kw.get("axis") or (e.args[0] if e.args else None)
                nd = None
                if ax is None:
                    nd = 0
                elif base.ndim is not None and isinstance(ax, ast.Constant):
                    nd = base.ndim - 1
                return Ty(d, nd)
            if a in ("toarray", "todense"):
                return Ty(base.dtype, 2)
            if a == "reshape":
                nd = None
                if len(e.args) == 1:
                    nd = self.shape_ndim(e.args[0])
                elif len(e.args) > 1:
                    nd = len(e.args)
                return Ty(base.dtype, nd)
            # self.method()
            if isinstance(fn.value, ast.Name) and f.params and \
                    fn.value.id == f.params[0] and cls is not None:
                m = self.p.lookup(cls, a)
                if m is not None:
                    return self.return_type(m, cls, depth + 1)
            # Class.method(...)
            if isinstance(fn.value, ast.Name):
                r = self.p.resolve_name(mod, fn.value.id)
                if r and r[0] == "class":
                    m = self.p.lookup(r[1], a)
                    if m is not None:
                        return self.return_type(m, cls if cls and r[1] in cls.mro
                                                else r[1], depth + 1)
        return UNK

    # ---- function-level environment
    def env_at(self, f: FuncInfo, cls, upto: ast.AST) -> dict:
        """Local types before the statement containing `upto` (statement-order
        forward pass; a name assigned on several paths keeps a type only if
        all assignments agree)."""
        env: dict[str, Ty] = {}
        assigned_multi: dict[str, list] = {}
        target_line = getattr(upto, "lineno", 10 ** 9)

        def visit(stmts):
            for st in stmts:
                if getattr(st, "lineno", 0) > target_line:
                    return
                if isinstance(st, ast.Assign) and len(st.targets) == 1:
                    self._bind(st.targets[0], st.value, env, assigned_multi, f, cls)
                elif isinstance(st, ast.AnnAssign) and st.value is not None:
                    self._bind(st.target, st.value, env, assigned_multi, f, cls)
                elif isinstance(st, ast.AugAssign) and isinstance(st.target, ast.Name):
                    # in-place ops keep the dtype of arrays (x /= y stays x's
                    # dtype or raises); scalars become unknown
                    t = env.get(st.target.id, UNK)
                    if t.dtype is None:
                        env[st.target.id] = UNK
                elif isinstance(st, ast.Assign) and len(st.targets) > 1:
                    for tg in st.targets:
                        self._bind(tg, st.value, env, assigned_multi, f, cls)
                elif isinstance(st, (ast.If,)):
                    visit(st.body)
                    visit(st.orelse)
                elif isinstance(st, (ast.For, ast.While, ast.With)):
                    if isinstance(st, ast.For) and isinstance(st.target, ast.Name):
                        env[st.target.id] = UNK
                    visit(st.body)
                    visit(getattr(st, "orelse", []) or [])
                elif isinstance(st, ast.Try):
                    visit(st.body)
                    for h in st.handlers:
                        visit(h.body)
                    visit(st.orelse)
                    visit(st.finalbody)
        visit(f.node.body)
        for name, tys in assigned_multi.items():
            if len(tys) > 1:
                d = {t.dtype for t in tys}
                n = {t.ndim for t in tys}
                env[name] = Ty(d.pop() if len(d) == 1 else None,
                               n.pop() if len(n) == 1 else None,
                               tys[-1].why if len({t.why for t in tys}) == 1 else "")
        return env

    def _bind(self, target, value, env, multi, f, cls):
        if isinstance(target, ast.Name):
            t = self.infer(value, env, f, cls)
            why = t.why
            # scalars / shapes, used to decide np.zeros(n) vs np.zeros(shape)
            if isinstance(value, ast.Call) and isinstance(value.func, ast.Name) and \
                    value.func.id in ("len", "int"):
                t = Ty(None, None, "scalar")
            elif isinstance(value, ast.Attribute) and value.attr == "shape":
                bt = self.infer(value.value, env, f, cls)
                t = Ty(None, None, f"shape:{bt.ndim}" if bt.ndim else "")
            elif isinstance(value, ast.Subscript) and \
                    isinstance(value.value, ast.Attribute) and value.value.attr == "shape":
                t = Ty(None, None, "scalar")
            elif isinstance(value, ast.BinOp) and not t:
                t = Ty(None, None, "")
            env[target.id] = t
            multi.setdefault(target.id, []).append(t)
        elif isinstance(target, (ast.Tuple, ast.List)):
            for el in target.elts:
                if isinstance(el, ast.Name):
                    # N, M = x.shape  -> scalars
                    if isinstance(value, ast.Attribute) and value.attr == "shape":
                        env[el.id] = Ty(None, None, "scalar")
                    else:
                        env[el.id] = UNK
                    multi.setdefault(el.id, []).append(env[el.id])

    # ---- cells and method returns
    def cell_type(self, cls: ClassInfo, attr: str, depth=0) -> Ty:
        key = (cls, attr)
        if key in self._cell_cache:
            return self._cell_cache[key]
        self._cell_cache[key] = UNK
        res = UNK
        pr = self.p.lookup_prop(cls, attr)
        if pr is not None and "get" in pr:
            res = self.return_type(pr["get"], cls, depth + 1)
        if not (res.dtype and res.ndim):
            prev = res
            tys = []
            for c in cls.mro:
                for m in list(c.methods.values()) + [x for p in c.props.values()
                                                     for x in p.values()]:
                    if m.kind not in ("method", "getter", "setter") or not m.params:
                        continue
                    sn = m.params[0]
                    for node in ast.walk(m.node):
                        tg = None
                        val = None
                        if isinstance(node, ast.Assign):
                            for t in node.targets:
                                if isinstance(t, ast.Attribute) and \
                                        isinstance(t.value, ast.Name) and \
                                        t.value.id == sn and \
                                        mangle(c.name, t.attr) == mangle(cls.name, attr):
                                    tg, val = t, node.value
                        elif isinstance(node, ast.AnnAssign) and node.value is not None:
                            t = node.target
                            if isinstance(t, ast.Attribute) and \
                                    isinstance(t.value, ast.Name) and t.value.id == sn \
                                    and t.attr == attr:
                                tg, val = t, node.value
                        if tg is None:
                            continue
                        if isinstance(val, ast.Constant) and val.value is None:
                            continue      # placeholder initialisation
                        env = self.env_at(m, cls, node)
                        tys.append(self.infer(val, env, m, cls, depth + 1))
            if tys:
                d = {t.dtype for t in tys}
                n = {t.ndim for t in tys}
                res = Ty(d.pop() if len(d) == 1 else None,
                         n.pop() if len(n) == 1 else None, f"cell:{attr}")
                res = Ty(prev.dtype or res.dtype, prev.ndim or res.ndim, res.why)
            else:
                res = prev
        self._cell_cache[key] = res
        return res

    def return_type(self, m: FuncInfo, cls, depth=0) -> Ty:
        key = (m, cls)
        if key in self._ret_cache:
            return self._ret_cache[key]
        self._ret_cache[key] = UNK
        tys = []
        for node in ast.walk(m.node):
            if isinstance(node, ast.Return) and node.value is not None:
                if isinstance(node.value, ast.Constant) and node.value.value is None:
                    continue
                env = self.env_at(m, cls, node)
                tys.append(self.infer(node.value, env, m, cls, depth + 1))
        res = UNK
        if tys:
            d = {t.dtype for t in tys}
            n = {t.ndim for t in tys}
            res = Ty(d.pop() if len(d) == 1 else None, n.pop() if len(n) == 1 else None,
                     f"ret:{m.qualname}")
        self._ret_cache[key] = res
        return res


# ---------------------------------------------------------------------------

@dataclass
class ArgRec:
    param: str
    declared: str
    want_dtype: Optional[str]
    want_ndim: Optional[int]
    cast: bool
    arg_src: str
    got: Ty
    verdict: str        # match | mismatch-dtype | mismatch-ndim | unknown | scalar


@dataclass
class Site:
    func: FuncInfo
    cls: Optional[ClassInfo]
    call: ast.Call
    kernel: CyFunc
    kmodule: str
    args: list = field(default_factory=list)
    arity_ok: bool = True
    via: str = "call"     # call | partial | mpi

    @property
    def where(self):
        return f"{self.func.module.relpath}:{self.call.lineno}"


def itemsize(dt: str) -> int:
    return {"int8": 1, "uint8": 1, "bool": 1, "int16": 2, "int32": 4, "float32": 4,
            "int64": 8, "float64": 8, "complex64": 8, "complex128": 16}.get(dt, 0)


def boundary_table(prog: Program, cy: CyProgram) -> list[Site]:
    inf = Inferer(prog, cy)
    sites = []
    import copy as _copy
    for f in prog.functions():
        cls_list = [f.cls] if f.cls is not None else [None]
        if any(isinstance(c_, ast.Call) and any(isinstance(a_, ast.Starred)
                                                for a_ in c_.args)
               for c_ in ast.walk(f.node)):
            # argument tuples prepared by a private helper: analyse the caller
            # with the helper's statements in place
            from .idioms import inline_simple_helpers

            def _res0(hname, _f=f):
                if not hname.startswith("_") or hname.startswith("__"):
                    return None
                h = prog.lookup(_f.cls, hname) if _f.cls is not None else None
                if h is None:
                    r_ = prog.resolve_name(_f.module, hname)
                    h = r_[1] if r_ and r_[0] == "func" else None
                return h.node if h is not None and \
                    isinstance(h.node, ast.FunctionDef) else None
            node0 = inline_simple_helpers(f.node, _res0)
            if ast.dump(node0) != ast.dump(f.node):
                f = _copy.copy(f)
                f.node = node0
        for node in ast.walk(f.node):
            if not isinstance(node, ast.Call):
                continue
            callee = None
            args = node.args
            via = "call"
            if isinstance(node.func, ast.Name):
                r = prog.resolve_name(f.module, node.func.id)
                if r and r[0] == "kernel":
                    callee = r
                elif node.func.id == "partial" and node.args and \
                        isinstance(node.args[0], ast.Name):
                    r2 = prog.resolve_name(f.module, node.args[0].id)
                    if r2 and r2[0] == "kernel":
                        callee, args, via = r2, node.args[1:], "partial"
            if callee is None:
                continue
            if any(isinstance(a, ast.Starred) for a in args) and via == "call":
                # f(*self._inputs(...), x): the tuple a private helper returns,
                # element by element, in the caller's terms
                from .idioms import expand_starred_args

                def _resolve(hname, _f=f):
                    h = prog.lookup(_f.cls, hname) if _f.cls is not None else None
                    if h is None:
                        r_ = prog.resolve_name(_f.module, hname)
                        h = r_[1] if r_ and r_[0] == "func" else None
                    return h.node if h is not None and \
                        isinstance(h.node, ast.FunctionDef) else None

                def _not_none(nm, _f=f):
                    r_ = prog.resolve_name(_f.module, nm)
                    return nm.isupper() and r_ is not None and r_[0] == "value"
                def _tuple_type(nm, _f=f):
                    r_ = prog.resolve_name(_f.module, nm)
                    if r_ and r_[0] == "class":
                        return any("NamedTuple" in ast.unparse(b_)
                                   for b_ in r_[1].node.bases)
                    if r_ and r_[0] == "value":
                        return "namedtuple(" in ast.unparse(r_[1])
                    return False
                exp = expand_starred_args(node, _resolve, _not_none, _tuple_type,
                                          fnode=f.node)
                if exp is None:
                    continue            # not decidable statically: no verdict
                node = ast.copy_location(
                    ast.Call(func=node.func, args=exp, keywords=node.keywords), node)
                ast.fix_missing_locations(node)
                args = node.args
            k = cy.func(callee[1], callee[2])
            if k is None:
                raise AnalysisError(
                    f"{f.module.relpath}:{node.lineno} call of {callee[2]}, which is "
                    f"not defined in {callee[1]}")
            cls = f.cls
            s = Site(f, cls, node, k, callee[1], via=via)
            if via == "call" and (len(args) != len(k.args) or node.keywords):
                s.arity_ok = False
            if via == "partial" and len(args) > len(k.args):
                s.arity_ok = False
            env = inf.env_at(f, cls, node)
            for (pn, pt), a in zip(k.args, args):
                if pt.kind not in ("buffer", "memview"):
                    s.args.append(ArgRec(pn, str(pt), None, None, False,
                                         ast.unparse(a), UNK, "scalar"))
                    continue
                want = cy.types["c"].get(pt.name)
                got = inf.infer(a, env, f, cls)
                verdict = "match"
                if got.dtype is None and got.ndim is None:
                    verdict = "unknown"
                if got.dtype is not None and want is not None and got.dtype != want:
                    if pt.cast and itemsize(got.dtype) == itemsize(want) and \
                            {got.dtype, want} <= {"bool", "int8", "uint8"}:
                        pass
                    else:
                        verdict = "mismatch-dtype"
                if got.ndim is not None and got.ndim != pt.ndim:
                    verdict = "mismatch-ndim" if verdict == "match" else verdict
                elif got.dtype is None or got.ndim is None:
                    if verdict == "match":
                        verdict = "partial"
                s.args.append(ArgRec(pn, str(pt), want, pt.ndim, pt.cast,
                                     ast.unparse(a), got, verdict))
            sites.append(s)
    return sites


def local_buffer_decls(cy: CyProgram):
    """(kernel, name, declared CType, init X, verdict, detail) for every
    `cdef ndarray[T, ndim=k] x = np.zeros/empty/ones(shape, dtype=D)`."""
    out = []
    for f in cy.all_funcs():
        for name, (t, init, line) in f.locals.items():
            if t.kind != "buffer" or init is None:
                continue
            if init.k != "call" or pp(init.a[0]) not in (
                    "np.zeros", "np.empty", "np.ones", "np.full"):
                continue
            shape = init.a[1][0] if init.a[1] else init.a[2].get("shape")
            dt = init.a[2].get("dtype")
            if dt is None and len(init.a[1]) > 1 and pp(init.a[0]) != "np.full":
                dt = init.a[1][1]
            want = cy.types["c"].get(t.name)
            got_dt = None
            if dt is None:
                got_dt = "float64"
            elif dt.k == "name":
                got_dt = cy.types["py"].get(dt.a[0]) or PY_TYPES.get(dt.a[0])
            elif dt.k == "str":
                got_dt = dt.a[0] if dt.a[0] in DT_NAMES else PY_TYPES.get(dt.a[0])
            elif dt.k == "attr" and pp(dt.a[0]) == "np":
                got_dt = dt.a[1] if dt.a[1] in DT_NAMES else None
            got_nd = None
            if shape is not None:
                if shape.k in ("tuple", "list"):
                    got_nd = len(shape.a[0])
                elif shape.k in ("name", "num", "bin", "call"):
                    # a scalar length (names are C ints in these kernels)
                    if shape.k != "name" or (f.vartype(shape.a[0]) is not None and
                                             f.vartype(shape.a[0]).kind == "simple"):
                        got_nd = 1
            verdict = "match"
            if got_dt is not None and want is not None and got_dt != want:
                verdict = "mismatch-dtype"
            if got_nd is not None and got_nd != t.ndim:
                verdict = "mismatch-ndim"
            if got_dt is None or got_nd is None:
                verdict = verdict if verdict != "match" else "partial"
            out.append((f, name, t, init, verdict,
                        {"declared": str(t), "init": pp(init), "line": line,
                         "got_dtype": got_dt, "got_ndim": got_nd}))
    return out


def report_sites(run, rule: str, sites: list[Site], pred, hosted="") -> int:
    """Add obligations/findings for the sites selected by pred(site)."""
    n = 0
    for s in sites:
        if not pred(s):
            continue
        n += 1
        inst = f"{s.func.qualname}->{s.kernel.name}"
        run.oblige(rule, inst + ":arity", s.arity_ok, nontrivial=False)
        if not s.arity_ok:
            run.add(rule, f"{s.func.qualname}/{s.kernel.name}/arity", s.where,
                    f"{s.func.qualname} calls compiled {s.kernel.name} with "
                    f"{len(s.call.args)} positional arguments, its signature has "
                    f"{len(s.kernel.args)}: raises TypeError on every call")
        for a in s.args:
            if a.verdict == "scalar":
                continue
            ok = not a.verdict.startswith("mismatch")
            run.oblige(rule, f"{inst}:{a.param}", ok,
                       nontrivial=a.verdict in ("match", "partial") or not ok,
                       sample={"where": s.where, "param": a.param,
                               "declared": a.declared, "argument": a.arg_src,
                               "inferred": f"{a.got.dtype}/{a.got.ndim}",
                               "verdict": a.verdict})
            if a.verdict == "unknown":
                run.unknowns.append(f"{s.where} {inst}:{a.param} <= {a.arg_src}")
            if not ok:
                what = "dtype" if a.verdict == "mismatch-dtype" else "rank"
                run.add(rule, f"{s.func.qualname}/{s.kernel.name}/{a.param}/{what}",
                        s.where,
                        f"{s.func.qualname} passes `{a.arg_src}` "
                        f"(inferred {a.got.dtype}, ndim {a.got.ndim}) for parameter "
                        f"`{a.param}: {a.declared}` of {s.kernel.name}: buffer {what} "
                        f"mismatch, the call raises ValueError on every input, so "
                        f"the method is not applicable at all")
    return n
