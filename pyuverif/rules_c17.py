"""C17 - random models and rewirings: swap clause W1..W7."""
from __future__ import annotations

import ast
import copy
import re
from collections import Counter

from .pymodel import Program
from .cymodel import CyProgram, X, pp, walk, rename_x, canonical_mapping, names_in
from .kernels import report_sites
from .idioms import (diagonal_clear_target, symmetrises, inline_locals, strip_int,
                     inline_simple_helpers)
from .loopir import canon_loopvars
from .report import Run, AnalysisError

CORE = "pyunicorn.core._ext.numerics"


def _conj(c: X):
    if c.k == "boolop" and c.a[0] == "and":
        out = []
        for x in c.a[1]:
            out += _conj(x)
        return out
    return [c]


def _matrix_stores(stmts, arr):
    """[(value, [(i, j) targets])] for chained stores into arr within stmts."""
    out = []
    for st in stmts:
        if st.k == "assign":
            tg = [tuple(pp(i) for i in t.a[1]) for t in st.a[0]
                  if t.k == "index" and pp(t.a[0]) == arr and len(t.a[1]) == 2]
            if tg:
                out.append((pp(st.a[1]), tg, st))
    return out


def _adj_name(f, default="A"):
    """The adjacency buffer of a rewiring kernel: its 2-D ADJ_t parameter."""
    for n, t in f.args:
        if t.kind in ("buffer", "memview") and t.ndim == 2 and t.name == "ADJ_t":
            return n
    return default


def _role(name, roles):
    return roles.get(name, name)


def w1_geomodel(run: Run, cy: CyProgram):
    f = cy.func(CORE, "_randomly_rewire_geomodel")
    if f is None:
        raise AnalysisError("_randomly_rewire_geomodel vanished")
    from .loopir import guarded_store_blocks
    blocks = guarded_store_blocks(f.body, _adj_name(f))
    if len(blocks) != 1:
        raise AnalysisError(f"{f.where}: expected one guarded swap block, found "
                            f"{len(blocks)}")
    conds, body = blocks[0]
    if not conds:
        raise AnalysisError(f"{f.where}: the swap block is not guarded")
    cond = X("boolop", "and", conds) if len(conds) > 1 else conds[0]
    where = f"{f.module.relpath}:{conds[0].line or f.line}"
    from .loopir import symmetric_store_report
    removed, added = [], []
    sym_ok = True
    for (arr, idx, val, st, mirrored) in symmetric_store_report(body, {_adj_name(f)}):
        if not mirrored:
            sym_ok = False
        lst = removed if val == "0" else added
        if tuple(idx) not in lst and tuple(reversed(idx)) not in lst:
            lst.append(tuple(idx))
    run.oblige("W1", "geomodel:symmetric-stores", sym_ok, sample={"where": where})
    if not sym_ok:
        run.add("W1", "_randomly_rewire_geomodel/asymmetric-store", where,
                "geographical rewiring must clear/set both orientations of each link "
                "in one chained store, otherwise the result is not undirected")
    # end-point roles, in the order the two edges are unpacked from the edge list
    unpacks = []
    for st in walk(f.body):
        if isinstance(st, X) and st.k == "assign" and len(st.a[0]) == 1 and \
                st.a[0][0].k == "tuple" and len(st.a[0][0].a[0]) == 2 and \
                all(v.k == "name" for v in st.a[0][0].a[0]) and st.a[1].k == "index":
            unpacks.append([v.a[0] for v in st.a[0][0].a[0]])
    order = (unpacks[0] + unpacks[1]) if len(unpacks) >= 2 else None
    roles = dict(zip(order, ("s", "t", "k", "l"))) if order else {}
    cr = Counter(n for e in removed for n in e)
    ca = Counter(n for e in added for n in e)
    ok = cr == ca and len(removed) == len(added) == 2
    run.oblige("W1", "geomodel:degree-neutral", ok, sample={
        "removed": removed, "added": added})
    if not ok:
        run.add("W1", "_randomly_rewire_geomodel/degree", where,
                f"the swap removes links {removed} and adds {added}: the end-point "
                f"multisets differ ({dict(cr)} vs {dict(ca)}), so node degrees change")
    A = _adj_name(f)
    tests = [pp(c).replace(" ", "") for c in _conj(cond)]
    for e in added:
        a, b = e
        absent = any(t in (f"({A}[{a},{b}]==0)", f"({A}[{b},{a}]==0)",
                           f"(0=={A}[{a},{b}])", f"(0=={A}[{b},{a}])",
                           f"(not{A}[{a},{b}])", f"(not{A}[{b},{a}])") for t in tests)
        run.oblige("W1", f"geomodel:absent:{a}-{b}", absent)
        if not absent:
            run.add("W1", f"_randomly_rewire_geomodel/absent/{_role(a, roles)}-{_role(b, roles)}", where,
                    f"the swap adds the link ({a},{b}) without testing that it is absent: "
                    f"an existing link is overwritten, the link count drops and degrees "
                    f"change (guard: {tests})")
    nodes = sorted(cr)
    ends = {frozenset(e) for e in removed}
    need = [(x, y) for i, x in enumerate(nodes) for y in nodes[i + 1:]
            if frozenset((x, y)) not in ends]
    for x, y in need:
        ok = f"({x}!={y})" in tests or f"({y}!={x})" in tests
        run.oblige("W1", f"geomodel:distinct:{x}-{y}", ok)
        if not ok:
            run.add("W1", f"_randomly_rewire_geomodel/distinct/"
                    f"{'-'.join(sorted((_role(x, roles), _role(y, roles))))}", where,
                    f"the swap does not require {x} != {y}: with a shared end point it "
                    f"creates a self-loop or a double link")
    # edge list follows the matrix
    new_edges = []
    for st in body:
        if st.k == "assign" and st.a[0][0].k == "index" and \
                pp(st.a[0][0].a[0]) != A and st.a[1].k == "tuple":
            new_edges.append(frozenset(pp(v) for v in st.a[1].a[0]))
    ok = sorted(map(sorted, new_edges)) == sorted(sorted(e) for e in added)
    run.oblige("W1", "geomodel:edge-list", ok, sample={
        "edge_list_updates": [sorted(e) for e in new_edges]})
    if not ok:
        run.add("W1", "_randomly_rewire_geomodel/edge-list", where,
                f"the edge list is updated with {[sorted(e) for e in new_edges]} but the "
                f"matrix gets {added}: later swaps pick links that do not exist")
    # condition variants: cond_len called with (D, eps, s, t, k, l) in that order
    calls = [c for c in walk(cond) if isinstance(c, X) and c.k == "call"
             and pp(c.a[0]) in ("cond_len", "cond_deg")]
    for c in calls:
        args = [pp(a) for a in c.a[1]][-4:]
        if order is None:
            run.unknowns.append({"rule": "W1", "what": "edge unpack statements not "
                                 "recognised: condition argument order not decided"})
            continue
        ok = args == order
        run.oblige("W1", f"geomodel:{pp(c.a[0])}-args", ok)
        if not ok:
            run.add("W1", f"_randomly_rewire_geomodel/{pp(c.a[0])}-args", where,
                    f"{pp(c.a[0])} is called with end points {args}, expected "
                    f"{order} (first edge, second edge: the order its conditions are "
                    f"written for)")


def w1_cross(run: Run, cy: CyProgram):
    f = cy.func(CORE, "_randomlyRewireCrossLinks")
    if f is None:
        raise AnalysisError("_randomlyRewireCrossLinks vanished")
    loops = [s for s in f.body if s.k == "for"]
    if len(loops) != 1:
        raise AnalysisError(f"{f.where}: swap loop not found")
    body = loops[0].a[2]
    where = f"{f.module.relpath}:{loops[0].line}"
    # alpha-normalise: parameters by position (the call sites are positional),
    # the two drawn link indices by their unpack statement
    roles = {}
    for (n, t), c in zip(f.args[:3], ("A", "cross_A", "cross_links")):
        roles[n] = c
    for st in walk(body):
        if isinstance(st, X) and st.k == "assign" and len(st.a[0]) == 1 and \
                st.a[0][0].k == "tuple" and len(st.a[0][0].a[0]) == 2 and \
                st.a[1].k == "tuple" and all(v.k == "call" for v in st.a[1].a[0]) and \
                all(v.k == "name" for v in st.a[0][0].a[0]):
            for v, c in zip(st.a[0][0].a[0], ("e1", "e2")):
                roles.setdefault(v.a[0], c)
            break
    body = rename_x(body, canonical_mapping(roles, names_in(body)))
    stores = _matrix_stores(body, "cross_A")
    removed = [t for v, tg, st in stores if v == "0" for t in tg]
    added = [t for v, tg, st in stores if v == "1" for t in tg]
    rows_ok = Counter(e[0] for e in removed) == Counter(e[0] for e in added)
    cols_ok = Counter(e[1] for e in removed) == Counter(e[1] for e in added)
    ok = rows_ok and cols_ok and len(removed) == len(added) == 2
    run.oblige("W1", "cross:degree-neutral", ok, sample={
        "removed": removed, "added": added})
    if not ok:
        run.add("W1", "_randomlyRewireCrossLinks/degree", where,
                f"cross-link swap removes {removed} and adds {added}: cross degrees of "
                f"the {'rows' if not rows_ok else 'columns'} change")
    # rejection loop dominating the stores tests that both added cells are empty
    wl = [s for s in body if s.k == "while"]
    guard = None
    for w in wl:
        for s in walk(w.a[1]):
            if isinstance(s, X) and s.k == "if" and any(
                    st.k == "break" for c, b in s.a[0] for st in b):
                guard = s.a[0][0][0]
    tested = set()
    if guard is not None:
        g = guard
        if g.k == "not":
            g = g.a[0]
            parts = g.a[1] if g.k == "boolop" and g.a[0] == "or" else [g]
            for p_ in parts:
                if p_.k == "index" and pp(p_.a[0]) == "cross_A":
                    tested.add(tuple(pp(i) for i in p_.a[1]))
        else:
            for c in _conj(g):
                cc = c
                if cc.k == "not":
                    cc = cc.a[0]
                if cc.k == "cmp" and cc.a[0] == "==" and pp(cc.a[2]) == "0":
                    cc = cc.a[1]
                if cc.k == "index" and pp(cc.a[0]) == "cross_A":
                    tested.add(tuple(pp(i) for i in cc.a[1]))
    for e in added:
        ok = tuple(e) in tested
        run.oblige("W1", f"cross:absent:{e[0]}-{e[1]}", ok)
        if not ok:
            run.add("W1", f"_randomlyRewireCrossLinks/absent/{e[0]}-{e[1]}", where,
                    f"cross-link swap sets cross_A[{e[0]},{e[1]}] without the rejection "
                    f"loop testing that this cell is empty (tested: {sorted(tested)}): an "
                    f"existing cross link is overwritten and the link count drops")
    # the link list swaps the second end points of the two links: the stores into
    # the link list are replayed in order over a symbolic memory (cell -> the
    # cell whose *initial* value it now holds); locals hold what they read
    # when they were assigned (row unpacks `a, b = links[e]` element-wise)
    def cell(e):
        if e.k == "index" and pp(e.a[0]) == "cross_links" and len(e.a[1]) == 2:
            return f"cross_links[{pp(e.a[1][0])}, {pp(e.a[1][1])}]"
        if e.k == "index" and e.a[0].k == "index" and len(e.a[1]) == 1 and \
                pp(e.a[0].a[0]) == "cross_links" and len(e.a[0].a[1]) == 1:
            return f"cross_links[{pp(e.a[0].a[1][0])}, {pp(e.a[1][0])}]"
        return None
    mem = {}
    temp = {}

    def value(e):
        c = cell(e)
        if c is not None:
            return mem.get(c, c)
        if e.k == "name":
            return temp.get(e.a[0], e.a[0])
        return pp(e)
    for st in walk(body):
        if not isinstance(st, X) or st.k != "assign":
            continue
        if len(st.a[0]) == 1 and st.a[0][0].k == "tuple":
            tgs = st.a[0][0].a[0]
            if st.a[1].k == "tuple" and len(tgs) == len(st.a[1].a[0]):
                vals = [value(v) for v in st.a[1].a[0]]
            elif st.a[1].k == "index" and pp(st.a[1].a[0]) == "cross_links" and \
                    len(st.a[1].a[1]) == 1:
                row = pp(st.a[1].a[1][0])
                vals = [mem.get(f"cross_links[{row}, {k}]", f"cross_links[{row}, {k}]")
                        for k in range(len(tgs))]
            else:
                vals = [None] * len(tgs)
            pairs_ = list(zip(tgs, vals))
        else:
            v = value(st.a[1])
            pairs_ = [(t_, v) for t_ in st.a[0]]
        for t_, v_ in pairs_:
            c = cell(t_)
            if c is not None:
                mem[c] = v_ if v_ is not None else "?"
            elif t_.k == "name":
                if v_ is None:
                    temp.pop(t_.a[0], None)
                else:
                    temp[t_.a[0]] = v_
    srcs = sorted((c, v) for c, v in mem.items() if c != v)
    ok = len(srcs) == 2 and srcs[0][0] == srcs[1][1] and srcs[0][1] == srcs[1][0] \
        and all(re.fullmatch(r"cross_links\[(\w+), 1\]", c) for c, _ in srcs)
    run.oblige("W1", "cross:link-list", ok, sample={"updates": srcs})
    if not ok:
        run.add("W1", "_randomlyRewireCrossLinks/link-list", where,
                f"the cross-link list is not updated by swapping the second end points "
                f"of the two links (updates: {srcs})")


def _exact_count(body, params):
    """`for _ in range(<requested count>): while True: draw; if <cell unset>:
    break; <cell> = 1` over the statements `body`: the loop that sets the links
    is recognised by its shape (rejection loop + one store of 1 into a 2-index
    array), the requested count must be a parameter of the function."""
    def stores_of_one(stmts):
        out = []
        for st in stmts:
            if st.k == "assign" and pp(st.a[1]) == "1":
                for t in st.a[0]:
                    if t.k == "index" and len(t.a[1]) == 2 and t.a[0].k == "name":
                        out.append((t.a[0].a[0], (pp(t.a[1][0]), pp(t.a[1][1]))))
        return out
    loops = [s for s in body if s.k == "for" and any(x.k == "while" for x in s.a[2])
             and stores_of_one(s.a[2])]
    if len(loops) != 1:
        return False
    rng = loops[0].a[1]
    if not (rng.k == "call" and pp(rng.a[0]) == "range" and len(rng.a[1]) == 1
            and rng.a[1][0].k == "name" and rng.a[1][0].a[0] in params):
        return False
    lb = loops[0].a[2]
    wl = [s for s in lb if s.k == "while"]
    st = stores_of_one(lb)
    if len(wl) != 1 or len(st) != 1:
        return False
    arr, cell = st[0]
    brk = [c for s in walk(wl[0].a[1]) if isinstance(s, X) and s.k == "if"
           for c, b in s.a[0] if any(x.k == "break" for x in b)]
    if len(brk) != 1:
        return False
    g = pp(brk[0]).replace(" ", "")
    c = f"{arr}[{cell[0]},{cell[1]}]"
    return g in (f"(not{c})", f"({c}==0)", f"(not({c}==1))", f"({c}!=1)", f"(0=={c})")


def w2(run: Run, prog: Program, cy: CyProgram):
    from .loopir import py_stmts
    f = cy.func(CORE, "_randomlySetCrossLinks")
    if f is None:
        raise AnalysisError("_randomlySetCrossLinks vanished")
    ok = _exact_count(f.body, {n for n, t in f.args})
    run.oblige("W2", "_randomlySetCrossLinks:exact-count", ok, sample={"where": f.where})
    if not ok:
        run.add("W2", "_randomlySetCrossLinks/exact-count", f.where,
                "_randomlySetCrossLinks must set exactly one *unset* cell per requested "
                "link (rejection loop on the very cell that is then set); otherwise the "
                "number of cross links differs from the request")
    inw = prog.classes["InteractingNetworks"]
    m = inw.methods.get("RandomlySetCrossLinks_sparse")
    if m is None:
        raise AnalysisError("RandomlySetCrossLinks_sparse vanished")
    ok = _exact_count(py_stmts(m.node.body), set(m.params))
    run.oblige("W2", "RandomlySetCrossLinks_sparse:exact-count", ok,
               sample={"where": m.where})
    if not ok:
        run.add("W2", "RandomlySetCrossLinks_sparse/exact-count", m.where,
                "RandomlySetCrossLinks_sparse must set exactly one unset cell per "
                "requested link")


def w3(run: Run, cy: CyProgram):
    f = cy.func(CORE, "overwriteAdjacency")
    if f is None:
        raise AnalysisError("overwriteAdjacency vanished")
    binds = {}
    stores = []
    # parameters by position: (A, cross_A, nodes1, nodes2, m, n)
    if len(f.args) < 4:
        raise AnalysisError(f"{f.where}: overwriteAdjacency signature changed")
    P = [n for n, t in f.args]
    full, cross, l1, l2 = P[0], P[1], P[2], P[3]
    body = canon_loopvars(f.body)
    for s in walk(body):
        if isinstance(s, X) and s.k == "assign":
            if len(s.a[0]) == 1 and s.a[0][0].k == "tuple" and s.a[1].k == "tuple":
                for a, b in zip(s.a[0][0].a[0], s.a[1].a[0]):
                    binds[pp(a)] = pp(b)
            elif len(s.a[0]) == 1 and s.a[0][0].k == "name":
                binds[pp(s.a[0][0])] = pp(s.a[1])
    from .loopir import symmetric_store_report
    rep = symmetric_store_report(body, {full})
    ok = len(rep) == 2 and all(r[4] for r in rep)
    if ok:
        idx = [tuple(binds.get(i, i) for i in r[1]) for r in rep]
        ok = sorted(idx) == sorted([(f"{l1}[i]", f"{l2}[j]"), (f"{l2}[j]", f"{l1}[i]")]) \
            and all(binds.get(r[2], r[2]) == f"{cross}[i, j]" for r in rep)
    run.oblige("W3", "overwriteAdjacency", ok, sample={"where": f.where})
    if not ok:
        run.add("W3", "overwriteAdjacency/indices", f.where,
                "overwriteAdjacency must write A[nodes1[i], nodes2[j]] and its mirror "
                "from cross_A[i, j] only: any other index touches parts of the network "
                "outside the cross block")


def w4(run: Run, prog: Program):
    sn = prog.classes["SpatialNetwork"]
    m = sn.methods.get("set_random_links_by_distance")
    if m is None:
        raise AnalysisError("set_random_links_by_distance vanished")
    body = m.node.body
    idx = {}
    sn_ = m.params[0]
    # the local handed to the adjacency setter, and the random matrix it is
    # thresholded against
    A = P = None
    for i, st in enumerate(body):
        if isinstance(st, ast.Assign) and isinstance(st.targets[0], ast.Attribute) and \
                st.targets[0].attr == "adjacency" and isinstance(st.value, ast.Name):
            A = st.value.id
            idx["set"] = i
    for i, st in enumerate(body):
        if A and isinstance(st, ast.Assign) and isinstance(st.targets[0], ast.Name) and \
                st.targets[0].id == A:
            cmps = [n for n in ast.walk(st.value) if isinstance(n, ast.Compare)]
            if cmps:
                idx["A"] = i
                rnd = [x.id for x in ast.walk(cmps[0]) if isinstance(x, ast.Name)]
                for cand in rnd:
                    if any(symmetrises(b, cand) for b in body):
                        P = cand
    for i, st in enumerate(body):
        if P and symmetrises(st, P):
            idx["sym"] = i
        if A and diagonal_clear_target(st) == A:
            idx["diag"] = i
    ok = all(k in idx for k in ("sym", "A", "diag", "set")) and \
        idx["sym"] < idx["A"] < idx["diag"] < idx["set"]
    run.oblige("W4", "set_random_links_by_distance", ok, sample={"order": idx})
    if not ok:
        run.add("W4", "SpatialNetwork.set_random_links_by_distance/order", m.where,
                f"the random threshold matrix must be symmetrised before thresholding "
                f"and the diagonal cleared before the adjacency is set (found {idx}): "
                f"otherwise the model is directed or has self-loops")


def w5_siblings(run: Run, prog: Program, cy=None):
    """The three geographical rewiring wrappers build the kernel inputs alike."""
    sn = prog.classes["SpatialNetwork"]
    defs = {}
    for name in ("randomly_rewire_geomodel_I", "randomly_rewire_geomodel_II",
                 "randomly_rewire_geomodel_III"):
        m = sn.methods.get(name)
        if m is None:
            raise AnalysisError(f"SpatialNetwork.{name} vanished")
        # the value of every kernel argument, by the kernel's parameter name,
        # with intermediate locals inlined (their names are irrelevant) and
        # private input-collecting helpers replaced by their statements
        def resolve(hname, _c=sn):
            h = prog.lookup(_c, hname)
            return h.node if h is not None and hname.startswith("_") else None
        mnode = inline_simple_helpers(m.node, resolve)
        m = copy.copy(m)
        m.node = mnode
        d = {}
        kcalls = [c for c in ast.walk(m.node) if isinstance(c, ast.Call)
                  and isinstance(c.func, ast.Name)
                  and c.func.id.startswith("_randomly_rewire_geomodel")]
        if len(kcalls) != 1:
            raise AnalysisError(f"{m.where}: kernel call not found in {name}")
        # labels: the roles of the kernel parameters by position (the call is
        # positional): (iterations, eps, A, D, E, edges[, degree])
        pnames = ["iterations", "eps", "A", "D", "E", "edges", "degree"]
        for k, a_ in enumerate(kcalls[0].args):
            label = pnames[k] if k < len(pnames) else f"arg{k}"
            d[label] = ast.unparse(strip_int(inline_locals(m.node, a_)))
        defs[name] = (m, d)
    for var in ("E", "A", "D", "edges", "eps"):
        vals = {n: d.get(var) for n, (m, d) in defs.items()}
        common = Counter(vals.values()).most_common(1)[0][0]
        for n, v in vals.items():
            ok = v == common
            run.oblige("W5", f"{n}:{var}", ok, sample={"value": v})
            if not ok:
                run.add("W5", f"SpatialNetwork.{n}/{var}", defs[n][0].where,
                        f"SpatialNetwork.{n} builds the kernel input `{var}` as `{v}` "
                        f"while its sibling rewiring models use `{common}`: the kernel "
                        f"contract (E rows, one per undirected link) is the same for all "
                        f"three")
    # the contract itself: E = number of links, edges = one row per link
    m, d = defs["randomly_rewire_geomodel_I"]
    ok = d.get("E") == f"{m.params[0]}.n_links" and \
        "graph.get_edgelist()" in (d.get("edges") or "")
    run.oblige("W5", "contract", ok, sample=d)
    if not ok:
        run.add("W5", "SpatialNetwork.randomly_rewire_geomodel_I/contract", m.where,
                f"the kernel samples link indices below E: E must be n_links and "
                f"`edges` the igraph edge list with one row per link (E={d.get('E')}, "
                f"edges={d.get('edges')})")


ORDER_CHANGING = ("np.unique", "sorted", "np.sort", "set", "frozenset", "np.flip",
                  "reversed", "np.random.permutation")


def w6_order(run: Run, prog: Program):
    """Node arrays handed to the cross-link kernels keep the caller's order (the
    cross block is built from the caller's lists)."""
    inw = prog.classes["InteractingNetworks"]
    for name in ("RandomlyRewireCrossLinks", "RandomlySetCrossLinks"):
        m = inw.methods.get(name)
        if m is None:
            raise AnalysisError(f"InteractingNetworks.{name} vanished")
        lists = [p_ for p_ in m.params if "node_list" in p_ or p_.startswith("nodes")]
        k = 0
        for st in m.node.body:
            if not (isinstance(st, ast.Assign) and isinstance(st.targets[0], ast.Name)):
                continue
            used = [x.id for x in ast.walk(st.value) if isinstance(x, ast.Name)
                    and x.id in lists]
            if len(set(used)) != 1:
                continue
            # a node array derived from exactly one of the caller's lists
            k += 1
            role = f"group{lists.index(used[0]) + 1}"
            bad = [ast.unparse(c.func) for c in ast.walk(st.value)
                   if isinstance(c, ast.Call) and ast.unparse(c.func) in ORDER_CHANGING]
            ok = not bad
            run.oblige("W6", f"{name}:{role}@{k}", ok, sample={
                "where": f"{m.module.relpath}:{st.lineno}",
                "value": ast.unparse(st.value)})
            if not ok:
                run.add("W6", f"InteractingNetworks.{name}/{role}",
                        f"{m.module.relpath}:{st.lineno}",
                        f"{name}: `{st.targets[0].id} = {ast.unparse(st.value)}` "
                        f"re-orders the group ({bad}); the cross adjacency and link "
                        f"list are indexed in the caller's order, so the rewired "
                        f"block is written back to the wrong nodes")


def w7_ba(run: Run, prog: Program):
    """Barabasi-Albert duplicate-target guard: the cell that is tested is the
    cell that is updated."""
    net = prog.classes["Network"]
    m = net.methods.get("BarabasiAlbert")
    if m is None:
        raise AnalysisError("Network.BarabasiAlbert vanished")
    # the bookkeeping array is the one that is both tested (`arr[x] != v`) and
    # updated (`arr[y] = w`) - whatever it is called
    alltests = [c for c in ast.walk(m.node) if isinstance(c, ast.Compare)
                and isinstance(c.left, ast.Subscript) and len(c.ops) == 1
                and isinstance(c.left.value, ast.Name)]
    allsets = [s for s in ast.walk(m.node) if isinstance(s, ast.Assign)
               and isinstance(s.targets[0], ast.Subscript)
               and isinstance(s.targets[0].value, ast.Name)]
    arrs = {c.left.value.id for c in alltests} & {s.targets[0].value.id for s in allsets}
    if not arrs:
        # no array that is both tested and updated: the duplicates may be
        # rejected in another way (a rejection loop testing membership in the
        # slots filled so far, a set, np.unique ...): not decided.  No rejection
        # loop and no de-duplication at all is the missing guard: the pool holds
        # every node once per link end, so distinct *positions* (replace=False)
        # are not distinct nodes
        src = ast.unparse(m.node)
        rejects = any(isinstance(w_, ast.While) for w_ in ast.walk(m.node))
        dedup = any(
            (isinstance(n_, ast.Compare) and any(isinstance(o_, (ast.In, ast.NotIn))
                                                 for o_ in n_.ops)) or
            (isinstance(n_, ast.Call) and ast.unparse(n_.func) in (
                "np.unique", "set", "frozenset", "np.isin", "np.in1d", "np.setdiff1d"))
            for n_ in ast.walk(m.node))
        if rejects or dedup:
            run.unknowns.append("W7: Network.BarabasiAlbert keeps no tested-and-updated "
                                "bookkeeping array; the duplicate guard is not decided")
            run.oblige("W7", "BarabasiAlbert:guard", True, nontrivial=False)
            return
        run.oblige("W7", "BarabasiAlbert:guard", False)
        run.add("W7", "Network.BarabasiAlbert/duplicate-guard", m.where,
                "BarabasiAlbert draws the targets of a new node without any rejection "
                "loop or de-duplication: the target pool lists a node once per link "
                "end, so the same node can be drawn twice and fewer links than "
                "documented are created")
        return
    tests = [c for c in alltests if c.left.value.id in arrs]
    sets = [s for s in allsets if s.targets[0].value.id in arrs]
    ok = len(tests) == 1 and len(sets) == 1 and \
        ast.unparse(tests[0].left.slice) == ast.unparse(sets[0].targets[0].slice) and \
        ast.unparse(tests[0].comparators[0]) == ast.unparse(sets[0].value) and \
        (isinstance(tests[0].ops[0], ast.NotEq) or
         # `while arr[x] == v: redraw` rejects the same duplicates
         (isinstance(tests[0].ops[0], ast.Eq) and any(
             isinstance(w_, ast.While) and any(c_ is tests[0] for c_ in ast.walk(w_.test))
             for w_ in ast.walk(m.node))))
    run.oblige("W7", "BarabasiAlbert:guard", ok, sample={
        "test": ast.unparse(tests[0]) if tests else None,
        "update": ast.unparse(sets[0]) if sets else None})
    if not ok:
        run.add("W7", "Network.BarabasiAlbert/duplicate-guard", m.where,
                f"BarabasiAlbert tests `{ast.unparse(tests[0]) if tests else '?'}` but "
                f"records `{ast.unparse(sets[0]) if sets else '?'}`: the guard against "
                f"drawing the same target twice never fires, so fewer links than "
                f"documented are created")


def w11_ba_pool(run: Run, prog: Program):
    """Barabasi-Albert: the node under construction does not become drawable
    before all its links are drawn (else it can draw itself: a loop, and one
    link short)."""
    net = prog.classes["Network"]
    m = net.methods.get("BarabasiAlbert")
    if m is None:
        raise AnalysisError("Network.BarabasiAlbert vanished")
    key = "Network.BarabasiAlbert"

    def undecided(why):
        run.unknowns.append(f"W11: {key}: {why}; the drawing order is not decided")
        run.oblige("W11", key + ":pool-order", True, nontrivial=False)

    def is_random(e):
        return any(isinstance(c, ast.Call) and ("random" in ast.unparse(c.func) or
                                                "rng" in ast.unparse(c.func))
                   for c in ast.walk(e))
    # local closures called for their effect (`link(i, j)`) stand for their body
    import copy as _copy
    mnode = _copy.deepcopy(m.node)
    closures = {d.name: d for d in mnode.body if isinstance(d, ast.FunctionDef)
                and not d.args.vararg and not d.args.kwarg and not d.args.kwonlyargs
                and not any(isinstance(r, ast.Return) and r.value is not None
                            for r in ast.walk(d))}

    class _Inline(ast.NodeTransformer):
        def visit_Expr(self, e):
            c = e.value
            if isinstance(c, ast.Call) and isinstance(c.func, ast.Name) and \
                    c.func.id in closures and not c.keywords and \
                    len(c.args) == len(closures[c.func.id].args.args):
                d = closures[c.func.id]
                amap = {a.arg: v for a, v in zip(d.args.args, c.args)}

                class S(ast.NodeTransformer):
                    def visit_Name(self, n):
                        return ast.copy_location(_copy.deepcopy(amap[n.id]), n) \
                            if n.id in amap else n
                out = []
                for st in d.body:
                    if isinstance(st, (ast.Nonlocal, ast.Global)) or (
                            isinstance(st, ast.Expr) and
                            isinstance(st.value, ast.Constant)):
                        continue
                    st2 = S().visit(_copy.deepcopy(st))
                    for x in ast.walk(st2):
                        ast.copy_location(x, e)
                    out.append(ast.fix_missing_locations(st2))
                return out or [ast.copy_location(ast.Pass(), e)]
            return e
    if closures:
        mnode.body = [st for st in mnode.body if not (isinstance(st, ast.FunctionDef)
                                                      and st.name in closures)]
        mnode = _Inline().visit(mnode)

        class _M:
            pass
        m2 = _M()
        m2.node, m2.module = mnode, m.module
        m = m2
    # the draw: `i = pool[<random index below bound>]` inside a rejection loop
    draws = []

    def visit(stmts, loops):
        for st in stmts:
            if isinstance(st, ast.Assign) and len(st.targets) == 1 and \
                    isinstance(st.targets[0], ast.Name) and \
                    isinstance(st.value, ast.Subscript) and \
                    isinstance(st.value.value, ast.Name) and is_random(st.value.slice):
                draws.append((st, list(loops)))
            for fld in ("body", "orelse", "finalbody"):
                sub = getattr(st, fld, None)
                if isinstance(sub, list) and sub and isinstance(sub[0], ast.stmt):
                    visit(sub, loops + [st] if isinstance(st, (ast.For, ast.While))
                          else loops)
    visit(m.node.body, [])
    if len(draws) != 1:
        return undecided(f"{len(draws)} draws `x = pool[random index]` found")
    draw, loops = draws[0]
    pool = draw.value.value.id
    drawn = draw.targets[0].id
    fors = [l for l in loops if isinstance(l, ast.For) and isinstance(l.target, ast.Name)]
    if len(fors) != 2:
        return undecided(f"the draw is nested in {len(fors)} counted loops, not in "
                         f"`for new node: for link:`")
    outer, inner = fors
    j = outer.target.id
    assigned = {t.id for n in ast.walk(m.node) if isinstance(n, (ast.Assign, ast.AugAssign))
                for t in (n.targets if isinstance(n, ast.Assign) else [n.target])
                if isinstance(t, ast.Name)}
    bounds = {n.id for n in ast.walk(draw.value.slice) if isinstance(n, ast.Name)} & assigned
    # does the drawable region grow while the node still draws?
    grows = [n for n in ast.walk(inner) if isinstance(n, (ast.Assign, ast.AugAssign)) and any(
        isinstance(t, ast.Name) and t.id in bounds
        for t in (n.targets if isinstance(n, ast.Assign) else [n.target]))]
    # is the new node written into the pool while it still draws?
    enters = [n for n in ast.walk(inner) if isinstance(n, ast.Assign) and any(
        isinstance(t, ast.Subscript) and isinstance(t.value, ast.Name) and t.value.id == pool
        for t in n.targets) and any(isinstance(x, ast.Name) and x.id == j
                                    for x in ast.walk(n.value))]
    # a guard that rejects the node itself
    selfguard = any(
        isinstance(c, ast.Compare) and len(c.ops) == 1 and
        isinstance(c.ops[0], (ast.NotEq, ast.Eq)) and
        {ast.unparse(c.left), ast.unparse(c.comparators[0])} == {drawn, j}
        for c in ast.walk(inner))
    # ... or the duplicate bookkeeping primed with the node itself before it draws
    primed = any(
        isinstance(st, ast.Assign) and isinstance(st.targets[0], ast.Subscript) and
        ast.unparse(st.targets[0].slice) == j and ast.unparse(st.value) == j
        for st in outer.body if st is not inner)
    ok = not (grows and enters) or selfguard or primed
    run.oblige("W11", key + ":pool-order", ok, sample={
        "pool": pool, "bound": sorted(bounds), "new_node": j,
        "pool_gets_new_node_while_drawing": bool(enters),
        "bound_grows_while_drawing": bool(grows)})
    if not ok:
        run.add("W11", f"{key}/pool-order", f"{m.module.relpath}:{enters[0].lineno}",
                f"BarabasiAlbert: `{ast.unparse(enters[0])}` puts the node under "
                f"construction `{j}` into the target pool `{pool}` and "
                f"`{ast.unparse(grows[0])}` makes it drawable while `{j}` is still "
                f"drawing its remaining partners; nothing rejects `{drawn} == {j}`, so "
                f"the node can draw itself: a self-loop (no simple graph) and one link "
                f"less than documented")


def w12_full_adjacency(run: Run, prog: Program):
    """Cross-link models: the adjacency of the returned network starts as a copy
    of the *whole* input adjacency (only the cross block is rewritten)."""
    inw = prog.classes["InteractingNetworks"]
    COPY = ("astype", "copy", "tolil", "tocsc", "tocsr", "todok", "toarray", "todense")
    FRESH = ("np.zeros", "np.empty", "np.zeros_like", "np.empty_like", "np.ones",
             "sp.lil_matrix", "sp.csc_matrix", "sp.csr_matrix", "sp.dok_matrix",
             "sparse.lil_matrix", "sparse.csc_matrix", "sparse.csr_matrix",
             "sparse.dok_matrix", "lil_matrix", "csc_matrix", "csr_matrix", "dok_matrix")
    n = 0
    for name, m in sorted(inw.methods.items()):
        rets = [c for r in ast.walk(m.node) if isinstance(r, ast.Return) and
                isinstance(r.value, ast.Call)
                for c in [r.value] if ast.unparse(c.func) in ("InteractingNetworks", "cls")]
        if not rets or not m.params:
            continue
        src = m.params[0] if m.params[0] not in ("self", "cls") else \
            (m.params[1] if len(m.params) > 1 else None)
        if src is None or not any(
                isinstance(a, ast.Attribute) and isinstance(a.value, ast.Name) and
                a.value.id == src for a in ast.walk(m.node)):
            continue
        for c in rets:
            adj = next((k.value for k in c.keywords if k.arg == "adjacency"),
                       c.args[0] if c.args else None)
            if adj is None:
                continue
            n += 1
            key = f"InteractingNetworks.{name}"
            e = adj
            seen = set()
            verdict = None
            while True:
                if isinstance(e, ast.Call) and isinstance(e.func, ast.Attribute) and \
                        e.func.attr in COPY:
                    e = e.func.value
                elif isinstance(e, ast.Call) and ast.unparse(e.func) in (
                        "np.array", "np.asarray", "to_cy", "np.ascontiguousarray") and e.args:
                    e = e.args[0]
                elif isinstance(e, ast.Attribute) and e.attr in ("A", "T"):
                    e = e.value
                elif isinstance(e, ast.Name) and e.id not in seen:
                    seen.add(e.id)
                    defs = [st for st in ast.walk(m.node) if isinstance(st, ast.Assign)
                            and any(isinstance(t, ast.Name) and t.id == e.id
                                    for t in st.targets)]
                    if len(defs) != 1:
                        verdict = ("unknown", f"`{e.id}` has {len(defs)} definitions")
                        break
                    e = defs[0].value
                else:
                    break
            if verdict is None:
                if isinstance(e, ast.Attribute) and isinstance(e.value, ast.Name) and \
                        e.value.id == src and e.attr in ("adjacency", "sp_A"):
                    verdict = ("ok", ast.unparse(e))
                elif isinstance(e, ast.Call) and ast.unparse(e.func) in FRESH:
                    verdict = ("fresh", ast.unparse(e))
                    # ... unless the whole input is copied into it afterwards
                    for st in ast.walk(m.node):
                        whole = False
                        if isinstance(st, ast.AugAssign) and isinstance(st.target, ast.Name) \
                                and st.target.id in seen:
                            whole = True
                        if isinstance(st, ast.Assign):
                            for t in st.targets:
                                if isinstance(t, ast.Subscript) and \
                                        isinstance(t.value, ast.Name) and t.value.id in seen:
                                    idx = t.slice.elts if isinstance(t.slice, ast.Tuple) \
                                        else [t.slice]
                                    if all(isinstance(i_, ast.Slice) and i_.lower is None
                                           and i_.upper is None for i_ in idx) or \
                                            isinstance(t.slice, ast.Constant):
                                        whole = True
                        if isinstance(st, ast.Call) and isinstance(st.func, ast.Attribute) \
                                and isinstance(st.func.value, ast.Name) and \
                                st.func.value.id in seen and st.func.attr not in COPY:
                            whole = True        # filled by a method (setdiag, update, ...)
                        if whole:
                            verdict = ("unknown", f"a fresh matrix that "
                                       f"`{ast.unparse(st)[:50]}` fills")
                            break
                else:
                    verdict = ("unknown", f"origin `{ast.unparse(e)[:50]}`")
            if verdict[0] == "unknown":
                run.unknowns.append(f"W12: {key}: the returned adjacency has "
                                    f"{verdict[1]}; not decided")
                run.oblige("W12", key, True, nontrivial=False)
                continue
            run.oblige("W12", key, verdict[0] == "ok", sample={"origin": verdict[1]})
            if verdict[0] == "fresh":
                run.add("W12", f"{key}/fresh-adjacency",
                        f"{m.module.relpath}:{c.lineno}",
                        f"{key}: the adjacency of the returned network starts as the "
                        f"empty matrix `{verdict[1]}` and is filled from the two node "
                        f"lists only; links of nodes that are in neither list (a third "
                        f"subnetwork) are not carried over, so parts of the input "
                        f"network that the model does not touch are lost")
    run.floor("W12 cross-link models", n, 3)


def _dnf(e):
    """Disjunctive normal form of a boolean IR expression: [[atom, ...], ...]"""
    if e.k == "boolop" and e.a[0] == "or":
        out = []
        for x in e.a[1]:
            out += _dnf(x)
        return out
    if e.k == "boolop" and e.a[0] == "and":
        acc = [[]]
        for x in e.a[1]:
            acc = [a + b for a in acc for b in _dnf(x)]
        return acc
    return [[e]]


def _acceptance(mod, f, depth=0):
    """The boolean expression a predicate returns True for: `if c: return True`
    ... `return e` is `c or ... or e`; calls of other one-expression predicates
    of the module are replaced by what they return."""
    from .loopir import _subst_names_x
    parts = []
    body = [s_ for s_ in f.body if not (s_.k == "expr" and s_.a and
                                        getattr(s_.a[0], "k", "") == "str")]
    for i, st in enumerate(body):
        last = i == len(body) - 1
        if st.k == "return" and st.a[0] is not None and last:
            parts.append(st.a[0])
        elif st.k == "if" and len(st.a[0]) == 1 and not st.a[1] and not last and \
                len(st.a[0][0][1]) == 1 and st.a[0][0][1][0].k == "return" and \
                st.a[0][0][1][0].a[0] is not None and \
                pp(st.a[0][0][1][0].a[0]) in ("True", "1"):
            parts.append(st.a[0][0][0])
        else:
            return None
    if not parts:
        return None
    e = parts[0] if len(parts) == 1 else X("boolop", "or", parts, line=f.line)

    def inline(x):
        if isinstance(x, X):
            if x.k == "call" and x.a[0].k == "name" and x.a[0].a[0] in mod.funcs and \
                    depth < 3 and mod.funcs[x.a[0].a[0]] is not f:
                g = mod.funcs[x.a[0].a[0]]
                if len(g.args) == len(x.a[1]):
                    sub = _acceptance(mod, g, depth + 1)
                    if sub is not None:
                        return _subst_names_x(sub, {pn: inline(a) for (pn, _), a
                                                    in zip(g.args, x.a[1])})
            return X(x.k, *[inline(v) for v in x.a], line=x.line)
        if isinstance(x, list):
            return [inline(v) for v in x]
        if isinstance(x, tuple):
            return tuple(inline(v) for v in x)
        return x
    return inline(e)


def w9(run: Run, cy: CyProgram):
    """The acceptance conditions of the geographical rewiring imply what they
    promise.  A swap replaces the links (s,t), (k,l) by (s,l), (t,k).  Reading
    `x == y` and `abs(x - y) < eps` as "x and y are interchangeable", every
    disjunct of a condition must make the multiset of the new links' attributes
    equal to that of the old links: link lengths D[.,.] (D symmetric) for the
    length conditions, unordered end-point degree pairs for the degree-degree
    correlation condition.  Decided by union-find over the atoms: exact, finite."""
    mod = cy.modules[CORE]
    core = mod.funcs.get("_randomly_rewire_geomodel")
    if core is None:
        raise AnalysisError("_randomly_rewire_geomodel vanished")
    n = 0
    for f in sorted(mod.funcs.values(), key=lambda f: f.name):
        if not f.name.startswith(("cond_len", "cond_deg")):
            continue
        if len(f.args) < 5:
            raise AnalysisError(f"{f.where}: condition {f.name}: unexpected signature")
        accept = _acceptance(mod, f)
        if accept is None:
            run.unknowns.append(f"W9: {f.where}: the acceptance condition of {f.name} "
                                f"is not a boolean expression of link tests; not decided")
            continue
        if pp(accept) in ("True", "1"):
            # "no condition": promises nothing; W10 decides where it may be used
            continue
        rets = [X("return", accept, line=f.line)]
        s_, t_, k_, l_ = [a for a, _ in f.args][-4:]
        arr = f.args[0][0]
        kind = "deg" if f.name.startswith("cond_deg") else "len"
        removed = [(s_, t_), (k_, l_)]
        added = [(s_, l_), (t_, k_)]

        def term(x):
            if x.k == "index" and pp(x.a[0]) == arr:
                idx = [pp(i) for i in x.a[1]]
                return ("D", tuple(sorted(idx))) if len(idx) == 2 else ("deg", idx[0])
            return None
        for di, conj in enumerate(_dnf(rets[0].a[0])):
            n += 1
            parent = {}

            def find(a):
                parent.setdefault(a, a)
                while parent[a] != a:
                    parent[a] = parent[parent[a]]
                    a = parent[a]
                return a
            bad_atom = None
            for at in conj:
                a = b = None
                if at.k == "cmp" and at.a[0] == "==":
                    a, b = term(at.a[1]), term(at.a[2])
                elif at.k == "cmp" and at.a[0] in ("<", "<=") and at.a[1].k == "call" and \
                        pp(at.a[1].a[0]) in ("abs", "fabs") and \
                        at.a[1].a[1][0].k == "bin" and at.a[1].a[1][0].a[0] == "-":
                    d = at.a[1].a[1][0]
                    a, b = term(d.a[1]), term(d.a[2])
                if a is None or b is None:
                    bad_atom = pp(at)
                    continue
                parent[find(a)] = find(b)
            if kind == "len":
                old = sorted(repr(find(("D", tuple(sorted(e))))) for e in removed)
                new = sorted(repr(find(("D", tuple(sorted(e))))) for e in added)
            else:
                old = sorted(repr(sorted(repr(find(("deg", v))) for v in e)) for e in removed)
                new = sorted(repr(sorted(repr(find(("deg", v))) for v in e)) for e in added)
            ok = old == new
            run.oblige("W9", f"{f.name}:disjunct{di}", ok, sample={
                "where": f.where, "atoms": [pp(a) for a in conj],
                "unreadable_atom": bad_atom})
            if not ok:
                what = ("link lengths" if kind == "len" else "end-point degree pairs")
                run.add("W9", f"{f.name}/disjunct{di}", f.where,
                        f"{f.name}: the alternative {[pp(a) for a in conj]} accepts a "
                        f"swap of ({s_},{t_}),({k_},{l_}) into ({s_},{l_}),({t_},{k_}) "
                        f"although it does not make the {what} of the new links equal "
                        f"to those of the old links: the model's conserved quantity "
                        f"changes")
    run.floor("W9 condition alternatives", n, 4)


def w10(run: Run, cy: CyProgram):
    """Each geographical rewiring model hands the core kernel the conditions it
    promises: models I and II a link-length condition, model III a link-length
    *and* a degree condition - none of them the empty condition (a NULL pointer
    or a predicate returning True).  The predicates are followed through cdef
    helpers; their kind is the type of their first parameter (2-D distances /
    1-D degrees)."""
    mod = cy.modules[CORE]
    core = mod.funcs.get("_randomly_rewire_geomodel")
    if core is None:
        raise AnalysisError("_randomly_rewire_geomodel vanished")

    def trivial(name):
        g = mod.funcs.get(name)
        if g is None:
            return True                       # NULL / unknown pointer
        rets = [x for x in walk(g.body) if isinstance(x, X) and x.k == "return"
                and x.a[0] is not None]
        return bool(rets) and all(pp(r.a[0]) in ("True", "1") for r in rets)

    def kind(name):
        g = mod.funcs.get(name)
        if g is None or not g.args:
            return None
        t = g.args[0][1]
        return "len" if getattr(t, "ndim", 0) == 2 else "deg" if getattr(t, "ndim", 0) == 1 \
            else None

    def reaching(f, env, depth=0):
        """condition function names passed (directly or through helpers) to core"""
        out = []
        for c in walk(f.body):
            if not (isinstance(c, X) and c.k == "call" and c.a[0].k == "name"):
                continue
            g = mod.funcs.get(c.a[0].a[0])
            if g is None or g is f or depth > 3:
                continue

            def val(a):
                if a.k == "name":
                    if a.a[0] in env:
                        return env[a.a[0]]
                    return a.a[0]
                return None
            if g is core:
                out.append([val(a) for a in c.a[1]])
            else:
                env2 = {pn: val(a) for (pn, _), a in zip(g.args, c.a[1])}
                out.extend(reaching(g, env2, depth + 1))
        return out
    n = 0
    for suffix, need in (("I", {"len"}), ("II", {"len"}), ("III", {"len", "deg"})):
        w = mod.funcs.get(f"_randomly_rewire_geomodel_{suffix}")
        if w is None:
            raise AnalysisError(f"_randomly_rewire_geomodel_{suffix} vanished")
        calls = reaching(w, {})
        if not calls:
            run.unknowns.append(f"W10: {w.where}: no call of the core kernel reached "
                                f"from model {suffix}; conditions not decided")
            continue
        for args in calls:
            conds = [a for a in args if isinstance(a, str) and
                     (a in mod.funcs or a in mod.globals or a.startswith("cond_"))]
            got = {kind(a) for a in conds if not trivial(a)} - {None}
            if not any(a in mod.funcs for a in conds):
                run.unknowns.append(f"W10: {w.where}: the conditions of model {suffix} "
                                    f"are not passed as predicates; not decided")
                continue
            n += 1
            missing = sorted(need - got)
            run.oblige("W10", f"geomodel_{suffix}:conditions", not missing, sample={
                "where": w.where, "passed": conds})
            if missing:
                run.add("W10", f"_randomly_rewire_geomodel_{suffix}/condition/" +
                        ",".join(missing), w.where,
                        f"model {suffix} must conserve {sorted(need)} but reaches the "
                        f"core kernel with the conditions {conds}: no non-trivial "
                        f"{missing} condition is checked before a swap")
    run.floor("W10 model wrappers", n, 3)


def w8(run: Run, prog: Program):
    """A rebuild of an existing network from an edge list keeps its size: outside
    the constructor, `self.set_edge_list(edges)` must pass the node count,
    otherwise N is re-derived as (largest linked node + 1) and trailing isolated
    nodes disappear (rewiring must keep every node and its degree)."""
    net = prog.classes.get("Network")
    target = net.methods.get("set_edge_list") if net else None
    if target is None:
        raise AnalysisError("Network.set_edge_list vanished")
    # does omitting n_nodes really re-derive N from the edges?
    derives = any(isinstance(n, ast.Call) and isinstance(n.func, ast.Attribute)
                  and n.func.attr == "max" for n in ast.walk(target.node))
    k = 0
    for f in prog.functions():
        if f.cls is None or net not in f.cls.mro or f.name == "__init__" or f is target:
            continue
        sn = f.params[0] if f.params else None
        for c in ast.walk(f.node):
            if isinstance(c, ast.Call) and isinstance(c.func, ast.Attribute) and \
                    c.func.attr == "set_edge_list" and isinstance(c.func.value, ast.Name) \
                    and c.func.value.id == sn:
                k += 1
                has_n = len(c.args) >= 2 or any(kw.arg == "n_nodes" for kw in c.keywords)
                ok = has_n or not derives
                run.oblige("W8", f"{f.qualname}:set_edge_list@{c.lineno}", ok, sample={
                    "where": f"{f.module.relpath}:{c.lineno}"})
                if not ok:
                    run.add("W8", f"{f.qualname}/set_edge_list/no-size",
                            f"{f.module.relpath}:{c.lineno}",
                            f"{f.qualname} rebuilds the network with "
                            f"`{ast.unparse(c)}` without n_nodes: set_edge_list then "
                            f"takes N = largest linked node + 1, so isolated nodes at "
                            f"the end of the numbering vanish and N changes")
    run.count("W8", k)


def check(run: Run, prog: Program, cy: CyProgram, sites):
    run.rule("W10", "each geographical rewiring model passes the conditions it "
             "promises (I, II: link length; III: link length and degree pairs)")
    run.rule("W9", "every alternative of a rewiring acceptance condition implies that "
             "the new links carry the old links' lengths / degree pairs")
    run.rule("W8", "rebuilding an existing network from an edge list passes the node "
             "count (isolated nodes survive rewiring)")
    run.rule("W1", "a rewiring swap removes and adds the same end-point multiset, "
             "under a guard that rules out double links and loops, and keeps the "
             "link list consistent")
    run.rule("W2", "prescribed-count generators set exactly one unset cell per link")
    run.rule("W3", "cross-block write-back touches only [nodes1[i], nodes2[j]]")
    run.rule("W4", "randomisation kernels are applicable; distance-kernel model is "
             "symmetrised and loop-free")
    run.rule("W5", "the three geographical rewiring wrappers hand the kernel the same "
             "kind of inputs (E links, one edge row per link)")
    run.rule("W6", "node arrays of the cross-link models keep the caller's order")
    run.rule("W7", "the Barabasi-Albert duplicate guard tests the cell it updates")
    run.rule("W11", "Barabasi-Albert: the node under construction is not drawable "
             "before all its links are drawn (no self-loop)")
    run.rule("W12", "cross-link models build the result from a copy of the whole input "
             "adjacency (untouched parts survive)")
    run.explanation = (
        "Structural necessary conditions of C17 for the compiled rewiring kernels "
        "and their wrappers. igraph generators, distributions and the link-length "
        "tolerance semantics are NOT decided.")
    w1_geomodel(run, cy)
    w1_cross(run, cy)
    w2(run, prog, cy)
    w3(run, cy)
    w4(run, prog)
    w8(run, prog)
    w9(run, cy)
    w10(run, cy)
    n = report_sites(run, "W4", sites, lambda s: s.kernel.name.startswith(
        ("_randomly_rewire_geomodel", "_randomlySetCrossLinks",
         "_randomlyRewireCrossLinks")))
    run.floor("W4 call sites", n, 1)
    w5_siblings(run, prog, cy)
    w6_order(run, prog)
    w7_ba(run, prog)
    w11_ba_pool(run, prog)
    w12_full_adjacency(run, prog)
