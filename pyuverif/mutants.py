"""Thorough tier: checker self-validation on scratch copies (DESIGN.md §4).

Two kinds of variants of /repo's current sources are generated, each applied to
a private scratch copy under $TMPDIR (never to /repo or /verif) and analysed
with `vcheck --repo <copy>`:

* **break** variants must be reported (exit 1) by the property's check, with a
  finding whose key contains the expected fragment.  They are (a) the reverse
  of every `fix:` commit recorded in known_findings.json ("fixed:" entries),
  i.e. the genuine defects the tree used to have, and (b) hand-written edits
  from the catalogue below.
* **twin** variants are behaviour-preserving rewrites; the check must stay
  silent on them (no new finding, no analysis error).

A missed break or a noisy twin means the *checker* is wrong: the thorough run
then exits 2 (ANALYSIS-ERROR), never 1.  Variants whose textual anchor no
longer exists in the working tree are skipped and listed in the evidence.
"""
from __future__ import annotations

import json
import os
import re
import shutil
import subprocess
import tempfile
from concurrent.futures import ThreadPoolExecutor
from dataclasses import dataclass, field

from .report import VERIF, REPO


@dataclass
class Variant:
    vid: str
    prop: str
    kind: str                   # break | twin
    file: str = ""              # path relative to the repo root
    old: str = ""               # exact text to replace (first occurrence)
    new: str = ""
    expect: str = ""            # fragment of the finding key (break)
    patch: str = ""             # alternatively: a unified diff (applied with patch -R / -p1)
    reverse: bool = False
    count: int = 1              # number of occurrences to replace (0 = all)
    also: list = field(default_factory=list)   # further (file, old, new) edits
    transform: object = None    # callable(source) -> new source | None (anchor lost)
    patchfile: str = ""         # a unified diff file applied forwards (seeded changes)


def T(vid, prop, file, old, new, **kw):
    return Variant(vid, prop, "twin", file, old, new, **kw)


def B(vid, prop, file, old, new, expect, **kw):
    return Variant(vid, prop, "break", file, old, new, expect, **kw)


def _func_span(src, name):
    """(start, end) of the top-level or class-level function `name` (def/cdef/
    cpdef, .py/.pyx): up to the next line with indentation <= the def's."""
    m = re.search(r"^([ \t]*)(?:def|cdef|cpdef)[^\n(]*?\b%s\(" % re.escape(name), src, re.M)
    if not m:
        return None
    ind = len(m.group(1))
    pos = src.find("\n", m.end())
    # skip the (possibly multi-line) signature: find the line ending with ':'
    end = len(src)
    lines = src[pos + 1:].split("\n")
    off = pos + 1
    seen_body = False
    for ln in lines:
        st = ln.strip()
        if st and not st.startswith("#"):
            cur = len(ln) - len(ln.lstrip())
            if cur > ind:
                seen_body = True
            elif seen_body and cur <= ind and not st.startswith(")"):
                end = off
                break
        off += len(ln) + 1
    return m.start(), end


def rename_in(func, mapping):
    """Twin transform: rename local identifiers inside one function."""
    def tr(src):
        sp = _func_span(src, func)
        if sp is None:
            return None
        a, b = sp
        body = src[a:b]
        new = body
        for o, n in mapping.items():
            if not re.search(r"(?<![\w.])%s\b" % re.escape(o), new):
                return None
            if re.search(r"(?<![\w.])%s\b" % re.escape(n), new):
                return None        # would capture an existing name
        # simultaneous renaming through placeholders
        for i, o in enumerate(mapping):
            new = re.sub(r"(?<![\w.\"'])%s\b(?!\s*=[^=].*\bdtype)" % re.escape(o),
                         f"\0{i}\0", new)
        for i, o in enumerate(mapping):
            new = new.replace(f"\0{i}\0", mapping[o])
        return src[:a] + new + src[b:]
    return tr


def R(vid, prop, file, func, mapping):
    return Variant(vid, prop, "twin", file, transform=rename_in(func, mapping))


NET = "src/pyunicorn/core/network.py"
INW = "src/pyunicorn/core/interacting_networks.py"
CPYX = "src/pyunicorn/core/_ext/numerics.pyx"
TPYX = "src/pyunicorn/timeseries/_ext/numerics.pyx"
RP = "src/pyunicorn/timeseries/recurrence_plot.py"
CN = "src/pyunicorn/climate/climate_network.py"
GG = "src/pyunicorn/core/geo_grid.py"
DATA = "src/pyunicorn/core/data.py"
SPN = "src/pyunicorn/core/spatial_network.py"
SUR = "src/pyunicorn/timeseries/surrogates.py"
RES = "src/pyunicorn/core/resistive_network.py"
TSC = "src/pyunicorn/timeseries/_ext/src_numerics.c"
CLC = "src/pyunicorn/climate/_ext/src_numerics.c"
ES = "src/pyunicorn/eventseries/event_series.py"
VG = "src/pyunicorn/timeseries/visibility_graph.py"

CATALOGUE = [
    # ---------------- C01
    B("c01-drop-bump-A", "C01", NET, "        # invalidate cache\n        self._mut_A += 1",
      "        # invalidate cache\n        pass", "/sp_A/Network.adjacency.setter"),
    B("c01-drop-bump-nw", "C01", NET, "        # invalidate cache\n        self._mut_nw += 1",
      "        # invalidate cache\n        pass", "/_node_weights/Network.node_weights.setter"),
    B("c01-drop-attrs", "C01", NET,
      '    @Cached.method(name="n.s.i. transitivity", attrs=("_mut_nw",))',
      '    @Cached.method(name="n.s.i. transitivity")', "Network.nsi_transitivity/_node_weights"),
    B("c01-state-drop", "C01", NET, "        return (self.directed, self._mut_A,)",
      "        return (self.directed,)", "K1/"),
    B("c01-raw-writer", "C01", NET, "    def sp_Aplus(self):",
      "    def set_A_raw(self, A):\n        self.sp_A = A\n\n    def sp_Aplus(self):",
      "Network.set_A_raw"),
    B("c01-counter-reset", "C01", NET, 'self._mut_A: int = getattr(self, "_mut_A", 0)',
      "self._mut_A: int = 0", "K2/Network.__init__/_mut_A"),
    T("c01-bump-as-assign", "C01", NET, "        self._mut_A += 1",
      "        self._mut_A = self._mut_A + 1"),
    T("c01-bump-first", "C01", NET,
      "        N = self.N\n\n        if weights is None:",
      "        N = self.N\n        self._mut_nw += 1\n\n        if weights is None:",
      also=[(NET, "        # invalidate cache\n        self._mut_nw += 1", "        # (bumped above)")]),
    T("c01-attrs-reorder", "C01", NET, 'attrs=("_mut_nw", "_mut_la"))\n    def nsi_degree',
      'attrs=("_mut_la", "_mut_nw"))\n    def nsi_degree'),
    T("c01-setter-wrapper", "C01", NET, "    def sp_Aplus(self):",
      "    def replace_adjacency(self, A):\n        self.adjacency = A\n\n    def sp_Aplus(self):"),
    # ---------------- C03 / C11 / C14 kernels
    B("c03-drop-test-4", "C03", CPYX, "if A[node2, node3] == 1 and A[node3, node1] == 1:",
      "if A[node2, node3] == 1:", "_local_cliquishness_4thorder/missing-pairs"),
    B("c03-short-range", "C03", CPYX,
      "                        for l in range(degree_i):\n                            node3 = neighbors[l]\n                            if A[node2, node3] == 1 and",
      "                        for l in range(degree_i - 1):\n                            node3 = neighbors[l]\n                            if A[node2, node3] == 1 and",
      "_local_cliquishness_4thorder/range"),
    T("c03-reorder-conjuncts", "C03", CPYX, "if A[node2, node3] == 1 and A[node3, node1] == 1:",
      "if A[node3, node1] == 1 and A[node2, node3] == 1:"),
    T("c03-swap-indices", "C03", CPYX, "if A[node2, node3] == 1 and A[node3, node1] == 1:",
      "if A[node3, node2] == 1 and A[node1, node3] == 1:"),
    T("c11-order-by-searchsorted", "C11", INW,
      "        order = np.argsort(np.argsort(node_list))\n        A = np.array(subgraph.get_adjacency(type=2).data).astype(np.int8)",
      "        order = np.searchsorted(np.sort(node_list), node_list)\n        A = np.array(subgraph.get_adjacency(type=2).data).astype(np.int8)"),
    T("c11-no-igraph", "C11", INW,
      "        subgraph = self.graph.subgraph(node_list)\n        #  Get adjacency matrix (igraph orders the subgraph's vertices by\n        #  increasing index: map rows and columns back to the given order)\n        order = np.argsort(np.argsort(node_list))\n        A = np.array(subgraph.get_adjacency(type=2).data).astype(np.int8)\n        return A[order, :][:, order]",
      "        return self.adjacency[node_list, :][:, node_list].astype(np.int8)"),
    B("c11-drop-test", "C11", INW,
      "                        if (A[node1, node2] == 1 and A[node2, node3] == 1\n                                and A[node3, node1] == 1):",
      "                        if (A[node1, node2] == 1 and A[node2, node3] == 1):", "C11/"),
    T("c11-reorder-tests", "C11", INW,
      "                        if (A[node1, node2] == 1 and A[node2, node3] == 1\n                                and A[node3, node1] == 1):",
      "                        if (A[node3, node1] == 1 and A[node1, node2] == 1\n                                and A[node2, node3] == 1):"),
    B("c14-nonstrict", "C14", TPYX,
      "            while (x[k] - x[i]) / (t[k] - t[i]) < test and k < j:",
      "            while (x[k] - x[i]) / (t[k] - t[i]) <= test and k < j:", "strictness"),
    T("c14-degrees-by-triangles", "C14", VG,
      "        retarded_degree = np.zeros(self.N)\n        A = self.adjacency\n\n        for i in range(self.N):\n            retarded_degree[i] = A[i, :i].sum()\n\n        return retarded_degree",
      "        past = np.tril(self.adjacency, k=-1)\n        return past.sum(axis=1).astype(float)",
      also=[(VG, "        advanced_degree = np.zeros(self.N)\n        A = self.adjacency\n\n        for i in range(self.N):\n            advanced_degree[i] = A[i, i:].sum()\n\n        return advanced_degree",
             "        future = np.triu(self.adjacency, k=1)\n        return future.sum(axis=1).astype(float)")]),
    B("c14-advanced-slice", "C14", VG, "advanced_degree[i] = A[i, i:].sum()",
      "advanced_degree[i] = A[i, i+2:].sum()", "complementary-slices"),
    # ---------------- C05
    B("c05-attr-name", "C05", "src/pyunicorn/core/geo_network.py",
      'if "node_weight_nsi" in graph.vs.attribute_names():', 'if "node_weights_nsi" in graph.vs.attribute_names():',
      "attribute-name"),
    B("c05-drop-la-bump", "C05", NET, "        net.graph = graph\n        #  invalidate cache\n        net._mut_la += 1",
      "        net.graph = graph", "Network.FromIGraph/bump"),
    T("c05-hoist-constant", "C05", NET, '        if "node_weight_nsi" in graph.vs.attribute_names():',
      '        if ("node_weight_nsi") in graph.vs.attribute_names():'),
    # ---------------- C06
    B("c06-drop-restore", "C06", NET,
      "            path_lengths[unconnected_pairs] = np.inf\n\n            return average_path_length",
      "            return average_path_length", "Network.average_path_length/cached:Network.path_lengths"),
    B("c06-edit-cached", "C06", NET, "        return self.local_clustering().mean()",
      "        lc = self.local_clustering()\n        lc[0] = 0\n        return lc.mean()",
      "Network.global_clustering/cached:Network.local_clustering"),
    T("c06-copy-instead", "C06", NET,
      "        nsi_distances = self.path_lengths() + np.identity(self.N)\n        weight_products",
      "        nsi_distances = self.path_lengths().copy()\n        nsi_distances += np.identity(self.N)\n        weight_products"),
    B("c06-no-copy", "C06", NET,
      "        nsi_distances = self.path_lengths() + np.identity(self.N)\n        weight_products",
      "        nsi_distances = self.path_lengths()\n        nsi_distances += np.identity(self.N)\n        weight_products",
      "cached:Network.path_lengths"),
    # ---------------- C07 / C08
    B("c07-flip-relation", "C07", RP,
      "        recurrence[distance < threshold] = 1\n        if self.missing_values:",
      "        recurrence[distance <= threshold] = 1\n        if self.missing_values:",
      "relation"),
    B("c07-drop-mask", "C07", RP,
      "            recurrence[self.missing_value_indices, :] = 0\n            recurrence[:, self.missing_value_indices] = 0\n",
      "            recurrence[self.missing_value_indices, :] = 0\n",
      "T3/"),
    B("c07-float-intermediate", "C07", TPYX,
      "        int j, k, l\n        DFIELD_t sum\n        ndarray[DFIELD_t, ndim=2, mode='c'] distance = \\\n            np.zeros((ntime_x, ntime_y), dtype=DFIELD)",
      "        int j, k, l\n        DFIELD_t sum\n        FIELD_t diff\n        ndarray[DFIELD_t, ndim=2, mode='c'] distance = \\\n            np.zeros((ntime_x, ntime_y), dtype=DFIELD)",
      "T8/_manhattan_distance_matrix_crp"),
    B("c07-no-rebuild", "C07", "src/pyunicorn/timeseries/recurrence_network.py",
      "        A = self.R.copy()\n        np.fill_diagonal(A, 0)\n\n        #  Create a Network object interpreting the recurrence matrix as the\n        #  graph adjacency matrix. Recurrence networks are undirected by\n        #  definition.\n        Network.__init__(self, A, directed=False,\n                         silence_level=self.silence_level)\n\n    def set_fixed_local_recurrence_rate",
      "\n    def set_fixed_local_recurrence_rate", "T2/"),
    B("c07-keep-diagonal", "C07", "src/pyunicorn/timeseries/recurrence_network.py",
      "        A = self.R.copy()\n        np.fill_diagonal(A, 0)\n\n        #  Create a Network object interpreting the recurrence matrix as the\n        #  graph adjacency matrix. Recurrence networks are undirected by\n        #  definition.\n        Network.__init__(self, A, directed=False,\n                         silence_level=self.silence_level)\n\n    def set_fixed_local_recurrence_rate",
      "        A = self.R.copy()\n        Network.__init__(self, A, directed=False,\n                         silence_level=self.silence_level)\n\n    def set_fixed_local_recurrence_rate", "T2/"),
    T("c07-fill-diagonal", "C07", "src/pyunicorn/timeseries/recurrence_network.py",
      "        A = self.R.copy()\n        np.fill_diagonal(A, 0)\n\n        #  Create a Network object interpreting the recurrence matrix as the\n        #  graph adjacency matrix. Recurrence networks are undirected by\n        #  definition.\n        Network.__init__(self, A, directed=False,",
      "        A = np.array(self.R)\n        A.flat[::A.shape[0]+1] = 0\n        Network.__init__(self, A, directed=False,"),
    B("c08-mask-by-line-index", "C08", TPYX,
      "    for i in range(N):\n        for j in range(i2J(i, N)):\n            I = ij2I(i, j, N)",
      "    for i in range(N):\n        if missing_values and M[i]:\n            continue\n        for j in range(i2J(i, N)):\n            I = ij2I(i, j, N)",
      "L8/_line_dist/index-role"),
    B("c08-float-eps", "C08", TPYX,
      "ndarray[LAG_t, ndim=2] R, ndarray[DFIELD_t, ndim=2] E, double eps, int dim,",
      "ndarray[LAG_t, ndim=2] R, ndarray[DFIELD_t, ndim=2] E, float eps, int dim,",
      "L9/_line_dist/narrow"),
    B("c08-wrong-linetype", "C08", TPYX,
      "        n_time, hist, null_R, E, eps, dim, metric_supremum, True, M_null, False,\n        i2J_diagline, ij2I_diagline, True)",
      "        n_time, hist, null_R, E, eps, dim, metric_supremum, True, M_null, False,\n        i2J_vertline, ij2I_diagline, True)",
      "_diagline_dist_sequential/i2J"),
    B("c08-wrong-dispatch", "C08", RP,
      "                _diagline_dist_missingvalues(\n                    n_time, diagline, recmat, mv_indices)",
      "                _vertline_dist_missingvalues(\n                    n_time, diagline, recmat, mv_indices)",
      "RecurrencePlot.diagline_dist/_vertline_dist_missingvalues"),
    # ---------------- C09 / C13 / C18
    B("c09-no-diagonal", "C09", CN, "        A.flat[::N+1] = 0\n", "", "diagonal"),
    B("c09-bypass-funnel", "C09", CN,
      "        threshold = self.threshold_from_link_density(link_density)\n        self.set_threshold(threshold)",
      "        threshold = self.threshold_from_link_density(link_density)\n        self._threshold = threshold",
      "writes-threshold"),
    T("c09-fill-diagonal", "C09", CN, "        A.flat[::N+1] = 0\n", "        np.fill_diagonal(A, 0)\n"),
    T("c13-anomaly-row-slice", "C13", "src/pyunicorn/climate/climate_data.py",
      "            sample = observable[i::time_cycle, :]",
      "            sample = observable[i::time_cycle]"),
    B("c13-phase-mean-complete-years", "C13", "src/pyunicorn/climate/climate_data.py",
      "            phase_mean[i, :] = observable[i::time_cycle, :].mean(axis=0)",
      "            phase_mean[i, :] = observable[i:-time_cycle:time_cycle, :].mean(axis=0)",
      "D5/ClimateData.phase_mean"),
    B("c13-open-interval", "C13", DATA,
      "            time_indices = (full_time >= window[\"time_min\"]) & \\\n                           (full_time <= window[\"time_max\"])",
      "            time_indices = (full_time >= window[\"time_min\"]) & \\\n                           (full_time < window[\"time_max\"])",
      "C13/"),
    B("c13-no-bump", "C13", "src/pyunicorn/climate/climate_data.py",
      "        Data.set_window(self, window)\n        # invalidate cache\n        self._mut_window += 1",
      "        Data.set_window(self, window)", "ClimateData.set_window/invalidate"),
    B("c18-swap-order", "C18", RES,
      "        # update the admittance\n        self.update_admittance()\n\n        # and update R\n        self.update_R()",
      "        self.update_R()\n        self.update_admittance()", "C18/"),
    B("c18-drop-update-R", "C18", RES,
      "        # update the admittance\n        self.update_admittance()\n\n        # and update R\n        self.update_R()",
      "        # update the admittance\n        self.update_admittance()", "C18/"),
    # ---------------- C12
    B("c12-one-store", "C12", CPYX, "            cosangdist[i, j] = cosangdist[j, i] = expr",
      "            cosangdist[i, j] = expr", "_calculate_angular_distance/asymmetric-store"),
    B("c12-drop-clamp", "C12", CPYX, "            elif expr < -1:\n                expr = -1\n", "",
      "lower-clamp"),
    B("c12-lat-lon-swapped", "C12", GG, "        return self.sequence(1)", "        return self.sequence(0)",
      "GeoGrid.lon_sequence/row"),
    T("c12-minmax-clamp", "C12", CPYX,
      "            if expr > 1:\n                expr = 1\n            elif expr < -1:\n                expr = -1\n",
      "            expr = min(max(expr, -1), 1)\n"),
    T("c12-clamp-helper", "C12", CPYX,
      "            if expr > 1:\n                expr = 1\n            elif expr < -1:\n                expr = -1\n",
      "            expr = _clamp_cos(expr)\n",
      also=[(CPYX, "def _calculate_angular_distance(",
             "cdef inline FIELD_t _clamp_cos(FIELD_t c) noexcept nogil:\n    if c > 1:\n        return 1\n    if c < -1:\n        return -1\n    return c\n\n\ndef _calculate_angular_distance(")]),
    B("c12-clamp-helper-one-side", "C12", CPYX,
      "            if expr > 1:\n                expr = 1\n            elif expr < -1:\n                expr = -1\n",
      "            expr = _clamp_cos(expr)\n", "lower-clamp",
      also=[(CPYX, "def _calculate_angular_distance(",
             "cdef inline FIELD_t _clamp_cos(FIELD_t c) noexcept nogil:\n    if c > 1:\n        return 1\n    return c\n\n\ndef _calculate_angular_distance(")]),
    B("c17-model-III-no-degree", "C17", CPYX,
      "                              cond_len_c2, cond_deg_corr)",
      "                              cond_len_c2, cond_deg_true)",
      "_randomly_rewire_geomodel_III/condition/deg"),
    # ---------------- C10 / C15 / C16
    B("c10-float-index", "C10", "src/pyunicorn/funcnet/coupling_analysis.py",
      "lagfuncs[range(N), range(N), 0] = 0.", "lagfuncs[range(N), range(N), 0.] = 0.",
      "float-index"),
    B("c16-es-nonstrict", "C16", ES, "        Ayx = (dstxy2 < 0) * (dstxy2 >= -tau2)",
      "        Ayx = (dstxy2 <= 0) * (dstxy2 >= -tau2)", "E4/EventSeries.event_synchronization"),
    B("c16-es-double", "C16", ES,
      "        countyx = np.sum(Ayx) + 0.5 * eqtime - 0.5 * countyxdouble",
      "        countyx = np.sum(Ayx) + 0.5 * eqtime - 0.5 * countxydouble",
      "E4/EventSeries.event_synchronization"),
    B("c16-eca-slice", "C16", ES,
      "            np.any(((-dst - lag >= 0) * (-dst - lag <= taumax))\n                   [:dst.shape[0] - n12, :], axis=1))",
      "            np.any(((-dst - lag >= 0) * (-dst - lag <= taumax))\n                   [:dst.shape[0] - n11, :], axis=1))",
      "E4/EventSeries.event_coincidence_analysis"),
    B("c16-eca-lag-hoist", "C16", ES,
      "        dst = (np.array([e1] * l2).T - np.array([e2] * l1))\n\n        if window_type",
      "        dst = (np.array([e1] * l2).T - np.array([e2] * l1)) - lag\n\n        if window_type",
      "E4/EventSeries._eca_coincidence_rate"),
    B("c16-eca-norm", "C16", ES,
      "                np.float32(coincidence21) / (l2 - n21 - n22))",
      "                np.float32(coincidence21) / (l2 - n21 - n12))",
      "E4/EventSeries._eca_coincidence_rate/return"),
    T("c16-eca-commute", "C16", ES,
      "        dst = (np.array([e1] * l2).T - np.array([e2] * l1))\n\n        if window_type",
      "        dst = -np.array([e2] * l1) + np.array([e1] * l2).T\n\n        if window_type"),
    T("c16-es-flip-cmp", "C16", ES, "        Ayx = (dstxy2 < 0) * (dstxy2 >= -tau2)",
      "        Ayx = (-tau2 <= dstxy2) * (0 > dstxy2)"),
    B("c16-registry-swap", "C16", ES, "'max': EventSeries._symmetrization_max,",
      "'max': EventSeries._symmetrization_min,", "registry/max"),
    B("c16-new-key", "C16", ES, "'min': EventSeries._symmetrization_min\n        }",
      "'min': EventSeries._symmetrization_min,\n            'sum': EventSeries._symmetrization_symmetric\n        }",
      "C16/"),
    B("c15-nR-nocast", "C15", RP, "        nR = to_cy(R.sum(axis=0), NODE)", "        nR = R.sum(axis=0)",
      "RecurrencePlot.twins/_twins_r/nR"),
    # ---------------- C17
    B("c17-drop-absent-test", "C17", CPYX, "            (A[s,l] == 0 and A[t,k] == 0) and",
      "            (A[s,l] == 0) and", "absent/t-k"),
    B("c17-drop-distinct", "C17", CPYX, "        if ((s != k and s != l and t != k and t != l) and",
      "        if ((s != k and s != l and t != k) and", "distinct/l-t"),
    B("c17-wrong-edge", "C17", CPYX, "                A[s,l] = A[l,s] = 1\n", "                A[s,k] = A[k,s] = 1\n",
      "degree"),
    T("c17-reorder-stores", "C17", CPYX,
      "                A[s,t] = A[t,s] = 0\n                A[k,l] = A[l,k] = 0\n",
      "                A[k,l] = A[l,k] = 0\n                A[s,t] = A[t,s] = 0\n"),
    # ---------------- C19
    B("c19-pass-whole-A", "C19", NET,
      "                            (to_cy(this_A, ADJ), to_cy(V, DFIELD),\n                             N, start_i, end_i),",
      "                            (to_cy(A, ADJ), to_cy(V, DFIELD),\n                             N, start_i, end_i),", "C19/"),
    B("c19-collect-shifted", "C19", NET,
      "                        component_betweenness[start_i:end_i] = this_betweenness",
      "                        component_betweenness[start_i+1:end_i+1] = this_betweenness", "C19/"),
    B("c19-end-without-min", "C19", NET,
      "                    for idx in range(parts):\n                        start_i = idx * step\n                        end_i = min((idx+1)*step, N)",
      "                    for idx in range(parts):\n                        start_i = idx * step\n                        end_i = (idx+1)*step",
      "C19/"),
    B("c19-overlap", "C19", NET,
      "                    for idx in range(parts):\n                        start_i = idx * step\n                        end_i = min((idx+1)*step, N)",
      "                    for idx in range(parts):\n                        start_i = idx * step\n                        end_i = min((idx+1)*step + 1, N)",
      "C19/"),
    B("c19-drop-fill", "C19", CPYX, "        multiplicity_to_j.fill(0)\n", "", "_nsi_betweenness/array/multiplicity_to_j"),
    T("c19-commuted-min", "C19", NET,
      "                    for idx in range(parts):\n                        start_i = idx * step\n                        end_i = min((idx+1)*step, N)",
      "                    for idx in range(parts):\n                        start_i = step * idx\n                        end_i = min(N, step * (idx + 1))"),
    # ---------------- C20
    B("c20-boundscheck-off", "C20", "setup.py", "'boundscheck': True", "'boundscheck': False", "boundscheck"),
    B("c20-wrong-cast", "C20", TPYX, "        <DFIELD_t*> cnp.PyArray_DATA(surrogates),\n        <FIELD_t*> cnp.PyArray_DATA(correlation),",
      "        <FIELD_t*> cnp.PyArray_DATA(surrogates),\n        <FIELD_t*> cnp.PyArray_DATA(correlation),", "width"),
    B("c20-widen-loop", "C20", TSC, "                for (int k = 0; k < n_time; k++) {\n                    corr +=",
      "                for (int k = 0; k <= n_time; k++) {\n                    corr +=", "_test_pearson_correlation_fast/original_data"),
    B("c20-wrong-stride", "C20", TSC, "                p_surrogates = surrogates + j*n_time;",
      "                p_surrogates = surrogates + j*N;", "_test_pearson_correlation_fast/surrogates"),
    B("c20-small-hist", "C20", TPYX, "            np.zeros((n_bins, n_bins), dtype=NODE)", "            np.zeros((n_bins, n_bins - 1), dtype=NODE)",
      "hist2d"),
    B("c20-extent-plus-one", "C20", SUR, "        return _test_pearson_correlation(to_cy(original_data, DFIELD),\n                                         to_cy(surrogates, DFIELD),\n                                         N, n_time)",
      "        return _test_pearson_correlation(to_cy(original_data, DFIELD),\n                                         to_cy(surrogates, DFIELD),\n                                         N + 1, n_time)", "B4"),
    T("c20-index-instead-of-walk", "C20", TSC,
      "                    corr += (*p_original) * (*p_surrogates);\n                    //  Set pointer to original_data(i,k+1)\n                    p_original++;\n                    //  Set pointer to surrogates(j,k+1)\n                    p_surrogates++;",
      "                    corr += p_original[k] * p_surrogates[k];"),
    # ---------------- behaviour-preserving renames / rewrites (twins)
    R("c17-rename-endpoints", "C17", CPYX, "_randomly_rewire_geomodel",
      {"s": "a1", "t": "a2", "k": "b1", "l": "b2"}),
    T("c17-cond-commuted", "C17", CPYX,
      "        return (degree[s] == degree[k] and degree[t] == degree[l])",
      "        return (degree[l] == degree[t] and degree[k] == degree[s])"),
    B("c17-cond-c1-wrong-pair", "C17", CPYX,
      "            (abs(D[s,t] - D[k,t]) < eps and abs(D[k,l] - D[s,l]) < eps) or",
      "            (abs(D[s,t] - D[k,t]) < eps and abs(D[k,l] - D[s,t]) < eps) or",
      "W9/cond_len_c1"),
    B("c17-cond-c2-dropped", "C17", CPYX,
      "            abs(D[s,t] - D[s,l]) < eps and abs(D[t,s] - D[t,k]) < eps and\n            abs(D[k,l] - D[k,t]) < eps and abs(D[l,k] - D[l,s]) < eps)",
      "            abs(D[s,t] - D[s,l]) < eps and abs(D[l,k] - D[l,s]) < eps)",
      "W9/cond_len_c2"),
    R("c17-rename-cross", "C17", CPYX, "_randomlyRewireCrossLinks",
      {"e1": "first", "e2": "second", "a": "p", "b": "q", "c": "r", "d": "s"}),
    R("c17-rename-cross-params", "C17", CPYX, "_randomlyRewireCrossLinks",
      {"cross_A": "XA", "cross_links": "links"}),
    T("c17-cross-two-stores", "C17", CPYX, "        cross_A[a, b] = cross_A[c, d] = 0\n",
      "        cross_A[a, b] = 0\n        cross_A[c, d] = 0\n"),
    B("c17-cross-wrong-cell", "C17", CPYX, "        cross_A[a, d] = cross_A[c, b] = 1\n",
      "        cross_A[a, d] = cross_A[c, d] = 1\n", "_randomlyRewireCrossLinks"),
    B("c17-cross-guard-one", "C17", CPYX, "            if not (cross_A[a, d] or cross_A[c, b]):",
      "            if not cross_A[a, d]:", "_randomlyRewireCrossLinks/absent"),
    R("c17-rename-edges", "C17", CPYX, "_randomly_rewire_geomodel",
      {"edge1": "e", "edge2": "f"}),
    R("c03-rename-nodes", "C03", CPYX, "_local_cliquishness_4thorder",
      {"node1": "u", "node2": "v", "node3": "w"}),
    R("c03-rename-nodes-5", "C03", CPYX, "_local_cliquishness_5thorder",
      {"node1": "u", "node2": "v", "node3": "w", "node4": "x"}),
    R("c11-rename-nodes", "C11", CPYX, "_cross_local_clustering",
      {"n1": "zu", "n2": "zv", "n3": "zw", "counter": "ztri"}),
    R("c12-rename-expr", "C12", CPYX, "_calculate_angular_distance", {"expr": "c"}),
    R("c12-rename-ij", "C12", CPYX, "_calculate_angular_distance", {"i": "p", "j": "q"}),
    R("c14-rename-ijk", "C14", TPYX, "_visibility_relations_no_missingvalues",
      {"i": "a", "j": "b", "k": "c"}),
    R("c14-rename-test", "C14", TPYX, "_visibility_relations_no_missingvalues",
      {"test": "slope"}),
    R("c08-rename-linedist", "C08", TPYX, "_line_dist",
      {"k": "zlen", "line": "zinside", "missing_flag": "zmflag"}),
    R("c08-rename-IJ", "C08", TPYX, "_line_dist", {"I": "row", "j": "col"}),
    R("c19-rename-nsi-betw", "C19", CPYX, "_nsi_betweenness", {"j": "jj", "i": "ii"}),
    R("c20-rename-nsi-betw", "C20", CPYX, "_nsi_betweenness", {"j": "jj", "i": "ii"}),
    R("c20-rename-mi", "C20", TPYX, "_test_mutual_information", {"N": "n_nodes"}),
    R("c07-rename-adaptive", "C07", TPYX, "_set_adaptive_neighborhood_size",
      {"i": "zi", "j": "zj", "l": "zl"}),
    T("c14-while-reorder", "C14", TPYX,
      "            while (x[k] - x[i]) / (t[k] - t[i]) < test and k < j:",
      "            while k < j and (x[k] - x[i]) / (t[k] - t[i]) < test:"),
    T("c12-two-stores", "C12", CPYX, "            cosangdist[i, j] = cosangdist[j, i] = expr",
      "            cosangdist[i, j] = expr\n            cosangdist[j, i] = expr"),
    T("c17-two-stores", "C17", CPYX, "                A[s,l] = A[l,s] = 1\n",
      "                A[s,l] = 1\n                A[l,s] = 1\n"),
    T("c17-reorder-guards", "C17", CPYX,
      "        if ((s != k and s != l and t != k and t != l) and",
      "        if ((t != l and s != l and t != k and s != k) and"),
    T("c17-ne-as-not-eq", "C17", CPYX, "            (A[s,l] == 0 and A[t,k] == 0) and",
      "            (not A[s,l] and not A[t,k]) and"),
    # every 4-subset of the neighbours once (j<k<l<m), count times 4!
    T("c03-subsets-5", "C03", CPYX, '                for k in range(degree_i):\n                    node2 = neighbors[k]\n                    if A[node1, node2] == 1:\n                        for l in range(degree_i):\n                            node3 = neighbors[l]\n                            if A[node1, node3] == 1 and A[node2, node3] == 1:\n                                for m in range(degree_i):\n', '                for k in range(j + 1, degree_i):\n                    node2 = neighbors[k]\n                    if A[node1, node2] == 1:\n                        for l in range(k + 1, degree_i):\n                            node3 = neighbors[l]\n                            if A[node1, node3] == 1 and A[node2, node3] == 1:\n                                for m in range(l + 1, degree_i):\n',
      also=[(CPYX, '            local_cliquishness[i] = counter /\\\n                (<double> degree_i * (degree_i - 1) * (degree_i - 2) *\n', '            local_cliquishness[i] = 24 * counter /\\\n                (<double> degree_i * (degree_i - 1) * (degree_i - 2) *\n')]),
    B("c03-subsets-5-wrong-start", "C03", CPYX, '                for k in range(degree_i):\n                    node2 = neighbors[k]\n                    if A[node1, node2] == 1:\n                        for l in range(degree_i):\n                            node3 = neighbors[l]\n                            if A[node1, node3] == 1 and A[node2, node3] == 1:\n                                for m in range(degree_i):\n', '                for k in range(j + 1, degree_i):\n                    node2 = neighbors[k]\n                    if A[node1, node2] == 1:\n                        for l in range(k + 1, degree_i):\n                            node3 = neighbors[l]\n                            if A[node1, node3] == 1 and A[node2, node3] == 1:\n                                for m in range(k + 1, degree_i):\n',
      "_local_cliquishness_5thorder/range",
      also=[(CPYX, '            local_cliquishness[i] = counter /\\\n                (<double> degree_i * (degree_i - 1) * (degree_i - 2) *\n', '            local_cliquishness[i] = 24 * counter /\\\n                (<double> degree_i * (degree_i - 1) * (degree_i - 2) *\n')]),
    B("c03-subsets-5-wrong-factor", "C03", CPYX, '                for k in range(degree_i):\n                    node2 = neighbors[k]\n                    if A[node1, node2] == 1:\n                        for l in range(degree_i):\n                            node3 = neighbors[l]\n                            if A[node1, node3] == 1 and A[node2, node3] == 1:\n                                for m in range(degree_i):\n', '                for k in range(j + 1, degree_i):\n                    node2 = neighbors[k]\n                    if A[node1, node2] == 1:\n                        for l in range(k + 1, degree_i):\n                            node3 = neighbors[l]\n                            if A[node1, node3] == 1 and A[node2, node3] == 1:\n                                for m in range(l + 1, degree_i):\n',
      "_local_cliquishness_5thorder/normaliser",
      also=[(CPYX, '            local_cliquishness[i] = counter /\\\n                (<double> degree_i * (degree_i - 1) * (degree_i - 2) *\n', '            local_cliquishness[i] = 12 * counter /\\\n                (<double> degree_i * (degree_i - 1) * (degree_i - 2) *\n')]),
    B("c12-accumulator-hoisted", "C12", CPYX,
      "    for i in range(N_nodes):\n        for j in range(i+1):\n            expr = 0\n",
      "    for i in range(N_nodes):\n        expr = 0\n        for j in range(i+1):\n",
      "_calculate_euclidean_distance/accumulator-reset"),
    B("c12-awc-node-weights", "C12", "src/pyunicorn/core/geo_network.py",
      "        cos_lat = self.grid.cos_lat()\n\n        #  Calculate total dimensionless area of the sphere\n        norm = cos_lat.sum()\n\n        #  Normalize area weighted connectivity by the total dimensionless area\n        inawc",
      "        cos_lat = self.node_weights\n\n        #  Calculate total dimensionless area of the sphere\n        norm = cos_lat.sum()\n\n        #  Normalize area weighted connectivity by the total dimensionless area\n        inawc",
      "area-from-latitude"),
    B("c03-indegree-axis", "C03", NET,
      "            return self.link_attribute(key).sum(axis=0).T",
      "            return self.link_attribute(key).sum(axis=1).T", "Network.indegree/axis"),
    B("c03-laplacian-direction", "C03", NET,
      "                if direction == \"out\":\n                    diagonal = self.outdegree()\n                elif direction == \"in\":\n                    diagonal = self.indegree()",
      "                if direction == \"out\":\n                    diagonal = self.indegree()\n                elif direction == \"in\":\n                    diagonal = self.outdegree()",
      "Network.laplacian/direction-"),
    T("c03-laplacian-ifexp", "C03", NET,
      "                if direction == \"out\":\n                    diagonal = self.outdegree()\n                elif direction == \"in\":\n                    diagonal = self.indegree()\n                else:\n                    raise ValueError('direction must be \"in\" or \"out\".')",
      "                if direction not in (\"in\", \"out\"):\n                    raise ValueError('direction must be \"in\" or \"out\".')\n                axis = 0 if direction == \"in\" else 1\n                diagonal = np.asarray(self.adjacency).sum(axis=axis)"),
    T("c03-truthiness", "C03", CPYX, "if A[node2, node3] == 1 and A[node3, node1] == 1:",
      "if A[node2, node3] and A[node3, node1]:"),
    T("c01-cache-state-local", "C01", NET, "        return (self.directed, self._mut_A,)",
      "        state = (self.directed, self._mut_A,)\n        return state"),
    T("c01-helper-invalidate", "C01", NET, "        # invalidate cache\n        self._mut_A += 1",
      "        self._invalidate_adjacency()",
      also=[(NET, "    def sp_Aplus(self):",
             "    def _invalidate_adjacency(self):\n        self._mut_A += 1\n\n    def sp_Aplus(self):")]),
    T("c06-np-copy", "C06", "src/pyunicorn/climate/havlin.py",
      "        anomaly = anomaly.copy()", "        anomaly = np.array(anomaly, copy=True)"),
    T("c09-diag-indices", "C09", CN, "        A.flat[::N+1] = 0\n",
      "        A[np.diag_indices(N)] = 0\n"),
    T("c13-swap-conjuncts", "C13", DATA,
      "            time_indices = (full_time >= window[\"time_min\"]) & \\\n                           (full_time <= window[\"time_max\"])",
      "            time_indices = (full_time <= window[\"time_max\"]) & \\\n                           (window[\"time_min\"] <= full_time)"),
    T("c18-comment-only", "C18", RES,
      "        # update the admittance\n        self.update_admittance()\n\n        # and update R\n        self.update_R()",
      "        self.update_admittance()\n        self.update_R()"),
    T("c16-registry-reorder", "C16", ES,
      "            'max': EventSeries._symmetrization_max,\n            'min': EventSeries._symmetrization_min\n",
      "            'min': EventSeries._symmetrization_min,\n            'max': EventSeries._symmetrization_max\n"),
    T("c20-c-rename", "C20", TSC, "p_original", "po", count=0),
    T("c05-rename-local", "C05", NET, "        net.graph = graph\n        #  invalidate cache\n        net._mut_la += 1",
      "        net.graph = graph\n        net._mut_la += 1"),
]


def fix_reverts(known_path=None):
    """One break variant per `fixed:` entry: the reverse of the fix commit."""
    known_path = known_path or os.path.join(VERIF, "known_findings.json")
    out = []
    if not os.path.exists(known_path):
        return out
    with open(known_path, encoding="utf-8") as f:
        k = json.load(f)
    for ent in k.get("fixed", []):
        m = re.match(r"fixed: property=(C\d+) ([0-9a-f]{6,}) (\S+)", ent)
        if not m:
            continue
        prop, commit, rule = m.groups()
        out.append(Variant(f"revert-{commit}", prop, "break", patch=commit, reverse=True,
                           expect=f"{prop}/"))
    return out


def seed_variants(seed_dir=None):
    """Every confirmed seeded change is a break variant of each check that is
    recorded (meta.json: checked_against.violations, written by
    tools/seedmatrix.py) as reporting it; the expected fragment is the rule."""
    import glob
    seed_dir = seed_dir or os.path.join(VERIF, "seeded")
    out = []
    for d in sorted(glob.glob(os.path.join(seed_dir, "*"))):
        mp, pp_ = os.path.join(d, "meta.json"), os.path.join(d, "patch.diff")
        if not (os.path.exists(mp) and os.path.exists(pp_)):
            continue
        try:
            with open(mp, encoding="utf-8") as f:
                m = json.load(f)
        except ValueError:
            continue
        viol = m.get("checked_against", {}).get("violations", {})
        for prop, keys in sorted(viol.items()):
            if not keys:
                continue
            rule = "/".join(keys[0].split("/")[:2]) + "/"
            out.append(Variant(f"seed-{os.path.basename(d)}", prop, "break",
                               patchfile=pp_, expect=rule))
    return out


def twin_variants(twin_dir=None):
    """Every confirmed behaviour-preserving refactoring kept under /verif/twins
    (produced by independent sub-agents, confirmed by tools/confirm_twin.sh) is a
    twin variant of the check of the property whose mechanism it refactors."""
    import glob
    twin_dir = twin_dir or os.path.join(VERIF, "twins")
    out = []
    for d in sorted(glob.glob(os.path.join(twin_dir, "*"))):
        mp, pp_ = os.path.join(d, "meta.json"), os.path.join(d, "patch.diff")
        if not (os.path.exists(mp) and os.path.exists(pp_)):
            continue
        try:
            with open(mp, encoding="utf-8") as f:
                m = json.load(f)
        except ValueError:
            continue
        prop = m.get("property")
        if prop:
            out.append(Variant(f"twin-{os.path.basename(d)}", prop, "twin", patchfile=pp_))
    return out


def _scratch(root, repo):
    """Private copy of the analysed sources (src/ and setup.py) - pure Python,
    no external tool needed."""
    os.makedirs(root)
    shutil.copytree(os.path.join(repo, "src"), os.path.join(root, "src"),
                    ignore=shutil.ignore_patterns("*.so", "__pycache__", "*.pyc",
                                                  "build", "*.egg-info"))
    # generated C of the Cython modules is not a source
    for dp, dn, fn in os.walk(os.path.join(root, "src")):
        if dp.endswith("_ext"):
            for f in fn:
                if f == "numerics.c":
                    os.remove(os.path.join(dp, f))
    sp = os.path.join(repo, "setup.py")
    if os.path.exists(sp):
        shutil.copy2(sp, os.path.join(root, "setup.py"))


def _apply_patch(diff_text, cwd, reverse=False):
    """Apply a unified diff with `patch` (fuzz 3) or, failing that, `git apply`."""
    cmds = [["patch", "-s", "-p1", "--fuzz=3"] + (["-R"] if reverse else []),
            ["git", "apply", "-p1", "--recount"] + (["-R"] if reverse else [])]
    for cmd in cmds:
        try:
            r = subprocess.run(cmd, input=diff_text, cwd=cwd, capture_output=True, text=True)
        except OSError:
            continue
        if r.returncode == 0:
            return True
        # a failed `patch` may have left .rej/.orig files and partial edits:
        # the caller treats the variant as not applicable
        return False
    return False


def run_variant(v: Variant, repo: str, tmproot: str, baseline_keys: dict):
    w = os.path.join(tmproot, v.vid)
    if v.kind == "autotwin":
        from .twins import make_twin, make_reformat_twin, make_param_twin
        try:
            stats = {"auto-reformat-python": make_reformat_twin,
                     "auto-rename-kernel-params": make_param_twin}.get(
                         v.vid, make_twin)(repo, w)
        except Exception as e:          # the twin generator is not the checker
            shutil.rmtree(w, ignore_errors=True)
            return v, "skipped", f"rename twin not generated: {type(e).__name__}: {e}"
        try:
            pr = subprocess.run([os.path.join(VERIF, "vcheck"), v.prop, "--no-write",
                                 "--tier", "quick", "--repo", w],
                                capture_output=True, text=True)
            keys = [l.split("] ")[1].split(": ")[0] for l in pr.stdout.splitlines()
                    if l.startswith("  ") and "] " in l]
            new_keys = [k for k in keys if k not in baseline_keys.get(v.prop, set())]
            if pr.returncode == 2 or new_keys:
                return v, "NOISY", {"exit": pr.returncode, "keys": new_keys[:5],
                                    "tail": [l for l in pr.stdout.splitlines()
                                             if "ANALYSIS-ERROR" in l][:2]}
            return v, "ok", {"renamed_identifiers": sum(stats.values()),
                             "files": sum(1 for x in stats.values() if x)}
        finally:
            shutil.rmtree(w, ignore_errors=True)
    _scratch(w, repo)
    try:
        if v.patchfile:
            with open(v.patchfile, encoding="utf-8") as f:
                diff = f.read()
            if not _apply_patch(diff, w):
                return v, "skipped", "seeded patch no longer applies to this tree"
        elif v.patch:
            d = subprocess.run(["git", "-C", repo, "show", "--format=", v.patch],
                               capture_output=True, text=True)
            if d.returncode != 0:
                return v, "skipped", f"commit {v.patch} not found"
            if not _apply_patch(d.stdout, w, reverse=v.reverse):
                return v, "skipped", "fix no longer reversible on this tree"
        else:
            if v.transform is not None:
                p = os.path.join(w, v.file)
                if not os.path.exists(p):
                    return v, "skipped", f"{v.file} missing"
                with open(p, encoding="utf-8") as f:
                    src = f.read()
                out = v.transform(src)
                if out is None or out == src:
                    return v, "skipped", "transform anchor not found"
                with open(p, "w", encoding="utf-8") as f:
                    f.write(out)
            for (fn, old, new) in ([] if v.transform is not None else
                                   [(v.file, v.old, v.new)] + list(v.also)):
                p = os.path.join(w, fn)
                if not os.path.exists(p):
                    return v, "skipped", f"{fn} missing"
                with open(p, encoding="utf-8") as f:
                    s = f.read()
                if old not in s:
                    return v, "skipped", f"anchor not found in {fn}"
                s = s.replace(old, new, v.count) if v.count else s.replace(old, new)
                with open(p, "w", encoding="utf-8") as f:
                    f.write(s)
        pr = subprocess.run([os.path.join(VERIF, "vcheck"), v.prop, "--no-write",
                             "--tier", "quick", "--repo", w],
                            capture_output=True, text=True)
        keys = [l.split("] ")[1].split(": ")[0] for l in pr.stdout.splitlines()
                if l.startswith("  ") and "] " in l]
        new_keys = [k for k in keys if k not in baseline_keys.get(v.prop, set())]
        if v.kind == "break":
            if pr.returncode == 1 and any(v.expect in k for k in new_keys):
                return v, "ok", new_keys[:3]
            return v, "MISSED", {"exit": pr.returncode, "keys": new_keys[:5],
                                 "tail": pr.stdout[-300:]}
        else:
            if pr.returncode == 2:
                return v, "NOISY", {"exit": 2, "tail": [l for l in pr.stdout.splitlines()
                                                        if "ANALYSIS-ERROR" in l][:2]}
            if new_keys:
                return v, "NOISY", {"exit": pr.returncode, "keys": new_keys[:5]}
            return v, "ok", []
    finally:
        shutil.rmtree(w, ignore_errors=True)


def baseline(props, repo):
    """Finding keys (incl. known ones) on the unmodified tree."""
    out = {}
    for p in props:
        pr = subprocess.run([os.path.join(VERIF, "vcheck"), p, "--no-write",
                             "--tier", "quick", "--repo", repo],
                            capture_output=True, text=True)
        keys = set()
        for l in pr.stdout.splitlines():
            if l.startswith("KNOWN-FINDING:"):
                keys.add(l.split()[2])
            elif l.startswith("  ") and "] " in l:
                keys.add(l.split("] ")[1].split(": ")[0])
        out[p] = keys
    return out


def self_validate(prop: str, repo: str, jobs: int = 16):
    """Run all variants of `prop`; returns (results, summary)."""
    variants = [v for v in CATALOGUE + fix_reverts() + seed_variants() if v.prop == prop]
    # a refactoring written for one property must keep *every* check silent
    # (checks share front ends and rules: Z3 re-uses C01, A5 re-uses C20, ...)
    import dataclasses
    variants += [dataclasses.replace(v, prop=prop) for v in twin_variants()]
    variants.append(Variant("auto-rename-all-locals", prop, "autotwin"))
    variants.append(Variant("auto-reformat-python", prop, "autotwin"))
    variants.append(Variant("auto-rename-kernel-params", prop, "autotwin"))
    tmproot = tempfile.mkdtemp(prefix=f"pyuverif_{prop}_",
                               dir=os.environ.get("TMPDIR", "/tmp"))
    try:
        base = baseline([prop], repo)
        with ThreadPoolExecutor(jobs) as ex:
            res = list(ex.map(lambda v: run_variant(v, repo, tmproot, base), variants))
    finally:
        shutil.rmtree(tmproot, ignore_errors=True)
    summary = {"variants": len(variants),
               "break_variants": sum(1 for v in variants if v.kind == "break"),
               "twin_variants": sum(1 for v in variants if v.kind != "break"),
               "ok_ids": [v.vid for v, s, _ in res if s == "ok"],
               "ok": sum(1 for _, s, _ in res if s == "ok"),
               "skipped": [(v.vid, d) for v, s, d in res if s == "skipped"],
               "missed": [(v.vid, d) for v, s, d in res if s == "MISSED"],
               "noisy": [(v.vid, d) for v, s, d in res if s == "NOISY"]}
    return res, summary
