"""C07 - recurrence matrices: structural clauses T1..T5 (DESIGN.md §5)."""
from __future__ import annotations

import ast

from .pymodel import Program, iter_events
from .cymodel import CyProgram, X, walk, pp
from .kernels import boundary_table, local_buffer_decls, report_sites
from .idioms import diagonal_clear_target, is_copy_of, minus_identity_of
from .report import Run, AnalysisError

PLOT_ROOT = "RecurrencePlot"
MATRIX_CELLS = {"RecurrencePlot": "R", "JointRecurrencePlot": "JR",
                "CrossRecurrencePlot": "CR"}


def _in_files(site, parts):
    return any(p in site.func.module.relpath for p in parts)


def t1(run: Run, prog, cy, sites):
    n = report_sites(run, "T1", sites, lambda s: "/timeseries/" in s.func.module.relpath
                     and "surrogates" not in s.func.module.relpath
                     and "visibility" not in s.func.module.relpath)
    run.floor("T1 kernel call sites (timeseries plots)", n, 1)
    # declared rank/dtype of local buffers inside the timeseries kernels that
    # the plot family uses
    m = 0
    for (f, name, t, init, verdict, detail) in local_buffer_decls(cy):
        if "timeseries" not in f.module.name:
            continue
        m += 1
        ok = not verdict.startswith("mismatch")
        run.oblige("T1", f"local:{f.name}.{name}", ok, sample=detail)
        if not ok:
            run.add("T1", f"local/{f.name}/{name}", f"{f.module.relpath}:{detail['line']}",
                    f"kernel {f.name} declares `{name}` as {detail['declared']} but "
                    f"allocates it with {detail['init']} ({verdict}): the assignment "
                    f"raises ValueError on every call")
    run.floor("T1 local buffers (timeseries)", m, 10)


def _matrix_cell(prog, C):
    for b in C.mro:
        if b.name in MATRIX_CELLS:
            return MATRIX_CELLS[b.name]
    return None


def t2(run: Run, prog: Program):
    """Plot+network classes: after every public method that rewrites the plot's
    matrix, the adjacency is rebuilt from that matrix with its diagonal cleared."""
    classes = [c for c in prog.classes.values()
               if prog.is_subclass(c, PLOT_ROOT) and prog.is_subclass(c, "Network")]
    run.floor("plot+network classes", len(classes), 2, hard=True)
    for C in sorted(classes, key=lambda c: c.name):
        M = _matrix_cell(prog, C)
        cells = {M, "_" + M}
        # the constructor builds the first network from the first matrix
        init = C.methods.get("__init__")
        if init is not None:
            _t2_defuse(run, C, init, M, prog)
        # private helpers of the class that (re-)create the network
        for name, f in sorted(C.methods.items()):
            if name.startswith("_") and not name.startswith("__") and \
                    f.kind == "method" and any(
                        isinstance(n_, ast.Call) and
                        ast.unparse(n_.func) == "Network.__init__"
                        for n_ in ast.walk(f.node)):
                _t2_defuse(run, C, f, M, prog)
        for name, f in sorted(prog.all_methods(C).items()):
            if f.kind != "method" or name.startswith("_") or f.cached:
                continue
            t = prog.tree(f, C, {})
            evs = list(iter_events(t))
            wm = [e for e in evs if e.kind in ("write", "assign") and e.cell in cells]
            if not wm:
                continue
            # path check: on every normal path the last matrix write is followed
            # by an adjacency write
            bad = _unfollowed(t, cells, {"sp_A"})
            inst = f"{C.name}.{name}"
            run.oblige("T2", inst + ":rebuild", not bad, sample={
                "where": f.where, "matrix_cell": M})
            for e in bad:
                run.add("T2", f"{C.name}/{f.qualname}/no-rebuild", e.where,
                        f"{f.qualname} (as inherited by {C.name}) replaces the "
                        f"recurrence matrix `{M}` but does not rebuild the network "
                        f"adjacency afterwards: plot and network disagree")
            # def-use of the adjacency argument (only for methods defined in C)
            if f.cls is C:
                _t2_defuse(run, C, f, M, prog)


def _unfollowed(t, first: set, then: set):
    """Write events on `first` cells that, on some normal path, are not followed
    by a write on a `then` cell."""
    bad = []

    def go(n, pending):
        # returns set of (pending-event-or-None, status)
        k = n[0]
        if k == "ev":
            e = n[1]
            if e.kind in ("write", "assign"):
                if e.cell in then:
                    return {(None, 0)}
                if e.cell in first:
                    return {(e, 0)}
            return {(pending, 0)}
        if k == "ret":
            return {(pending, 1)}
        if k == "raise":
            return {(pending, 2)}
        if k == "seq":
            cur = {(pending, 0)}
            for c in n[1]:
                new = set()
                for (p, st) in cur:
                    if st != 0:
                        new.add((p, st))
                    else:
                        new |= go(c, p)
                cur = new
            return cur
        if k == "alt":
            out = set()
            for c in n[1]:
                out |= go(c, pending)
            return out
        if k == "loop":
            out = {(pending, 0)}
            out |= go(n[1], pending)
            return out
        if k == "call":
            res = set()
            for (p, st) in go(n[2], pending):
                res.add((p, 0 if st == 1 else st))
            if n[1].func.cached:
                res.add((pending, 0))
            return res
        return {(pending, 0)}
    for (p, st) in go(t, None):
        if p is not None and st != 2 and p not in bad:
            bad.append(p)
    return bad


def _adj_facts(prog, C, fnode, sn, M, expr, before_line, depth=0):
    """(from_matrix, copied, cleared, text) of the value of `expr` evaluated in
    function `fnode` before line `before_line`: derived from the matrix cell M of
    `sn`, a fresh copy, main diagonal cleared.  Names are followed to their
    reaching definition, `sn.helper()` calls into the helper's returns."""
    mtxt = [f"{sn}.{M}", f"{sn}._{M}"]
    if isinstance(expr, ast.Name):
        defs = [n for n in ast.walk(fnode) if isinstance(n, ast.Assign)
                and len(n.targets) == 1 and isinstance(n.targets[0], ast.Name)
                and n.targets[0].id == expr.id and n.lineno < before_line]
        if not defs:
            return None
        first = defs[0]
        fm, cp, cl, txt = _adj_facts(prog, C, fnode, sn, M, first.value, first.lineno,
                                     depth) or (False, False, False, "")
        for n in ast.walk(fnode):
            if getattr(n, "lineno", 0) and first.lineno < n.lineno < before_line and \
                    isinstance(n, ast.stmt) and diagonal_clear_target(n) == expr.id:
                cl = True
        return fm, cp, cl, f"{expr.id} = {ast.unparse(first.value)}"
    if isinstance(expr, ast.Call) and isinstance(expr.func, ast.Attribute) and \
            isinstance(expr.func.value, ast.Name) and expr.func.value.id == sn and \
            depth < 3:
        h = prog.lookup(C, expr.func.attr)
        if h is not None and h.params:
            hs = h.params[0]
            rets = [r for r in ast.walk(h.node) if isinstance(r, ast.Return)
                    and r.value is not None]
            facts = [_adj_facts(prog, C, h.node, hs, M, r.value, r.lineno, depth + 1)
                     for r in rets]
            if facts and all(x is not None for x in facts):
                return (all(x[0] for x in facts), all(x[1] for x in facts),
                        all(x[2] for x in facts),
                        f"{ast.unparse(expr)} -> " + "; ".join(x[3] for x in facts))
            return None
    src = ast.unparse(expr)
    fm = any(t in src for t in mtxt)
    minus_eye = any(minus_identity_of(expr, t) for t in mtxt)
    cp = fm and (minus_eye or any(is_copy_of(expr, t) for t in mtxt))
    return fm, cp, minus_eye, src


_SHAPE_CHANGING = ("np.delete", "numpy.delete", "np.compress", "np.take", "np.resize")


def _reshaped_before(fnode, name: ast.Name, before_line):
    """The statement that re-binds `name` to a smaller selection of itself
    (np.delete / compress / take of it, `name[mask][:, mask]`, np.ix_) before
    line `before_line`, or None."""
    for n in ast.walk(fnode):
        if not (isinstance(n, ast.Assign) and len(n.targets) == 1 and
                isinstance(n.targets[0], ast.Name) and n.targets[0].id == name.id and
                n.lineno < before_line):
            continue
        v = n.value
        if isinstance(v, ast.Call) and ast.unparse(v.func) in _SHAPE_CHANGING and \
                v.args and name.id in {x.id for x in ast.walk(v.args[0])
                                       if isinstance(x, ast.Name)}:
            return n
        base = v
        sub = False
        while isinstance(base, ast.Subscript):
            base, sub = base.value, True
        if sub and isinstance(base, ast.Name) and base.id == name.id:
            return n
    return None


def _t2_defuse(run, C, f, M, prog=None):
    """Network.__init__(self, A, ...) must receive a copy of the matrix with
    its diagonal cleared."""
    sn = f.params[0]
    calls = [n for n in ast.walk(f.node) if isinstance(n, ast.Call)
             and ast.unparse(n.func) == "Network.__init__"]
    for c in calls:
        if len(c.args) < 2:
            continue
        a = c.args[1]
        inst = f"{f.qualname}:adjacency-arg@{c.lineno}"
        facts = _adj_facts(prog, C, f.node, sn, M, a, c.lineno)
        if facts is None:
            run.oblige("T2", inst, True, nontrivial=False)
            run.unknowns.append(f"T2 {f.qualname}: adjacency argument "
                                f"`{ast.unparse(a)}` not resolved")
            continue
        from_matrix, copied, cleared, src = facts
        # the node set is the set of state vectors: `N` is one attribute, written
        # by the plot (number of states) and by Network's adjacency setter
        # (number of nodes) and read by the quantification methods of both
        resh = _reshaped_before(f.node, a, c.lineno) if isinstance(a, ast.Name) else None
        run.oblige("T10", f"{f.qualname}:adjacency-shape@{c.lineno}", resh is None,
                   sample={"where": f"{f.module.relpath}:{c.lineno}"})
        if resh is not None:
            run.add("T10", f"{f.qualname}/adjacency-shape",
                    f"{f.module.relpath}:{resh.lineno}",
                    f"{f.qualname}: `{ast.unparse(resh)[:70]}` removes rows/columns from "
                    f"the matrix before it is handed to Network.__init__: the network "
                    f"is then not the recurrence matrix without its diagonal, and the "
                    f"shared attribute N (set by the adjacency setter to the number of "
                    f"nodes) no longer is the number of state vectors the plot's "
                    f"quantification methods iterate over (recurrence_rate, line "
                    f"distributions on R)")
        ok = from_matrix and copied and cleared
        run.oblige("T2", inst, ok, sample={
            "where": f"{f.module.relpath}:{c.lineno}", "def": src,
            "from_matrix": from_matrix, "copied": copied, "diagonal_cleared": cleared})
        if not ok:
            what = ("is not derived from the recurrence matrix" if not from_matrix else
                    "aliases the recurrence matrix (no copy)" if not copied else
                    "keeps the diagonal (self-recurrences become self-loops)")
            run.add("T2", f"{f.qualname}/adjacency-arg", f"{f.module.relpath}:{c.lineno}",
                    f"{f.qualname}: the adjacency handed to Network.__init__ "
                    f"(`{src}`) {what}")


def _t3_callees(prog, C, f):
    """Methods of the plot class that f calls on the same object (self.m(..),
    Class.m(self, ..) or static Class.m(..)): the helpers a setter is built of."""
    out = []
    sn = f.params[0] if f.params and f.kind != "static" else None
    for n in ast.walk(f.node):
        if isinstance(n, ast.Call) and isinstance(n.func, ast.Attribute) and \
                isinstance(n.func.value, ast.Name):
            base = n.func.value.id
            if base == sn or base in ("self", "cls") or \
                    (base in prog.classes and prog.classes[base] in C.mro):
                m = prog.lookup(C, n.func.attr)
                if m is not None and m is not f:
                    out.append(m)
    return out


def t3(run: Run, prog: Program):
    """Thresholding siblings."""
    from .idioms import inline_locals
    fam = [c for c in prog.classes.values() if prog.is_subclass(c, PLOT_ROOT)]
    ops = {}
    sites = []
    for C in fam:
        for f in C.methods.values():
            for n in ast.walk(f.node):
                if isinstance(n, ast.Assign) and len(n.targets) == 1 and \
                        isinstance(n.targets[0], ast.Subscript) and \
                        isinstance(n.value, ast.Constant) and n.value.value == 1:
                    tg = n.targets[0]
                    sl = inline_locals(f.node, tg.slice)
                    cmp_ = None
                    for d in (sl.elts if isinstance(sl, ast.Tuple) else [sl]):
                        if isinstance(d, ast.Compare) and len(d.ops) == 1 and \
                                isinstance(d.ops[0], (ast.Lt, ast.LtE, ast.Gt, ast.GtE)):
                            cmp_ = d
                    if cmp_ is None:
                        continue
                    op = type(cmp_.ops[0]).__name__
                    # read "threshold > distance" as "distance < threshold"
                    if "threshold" in ast.unparse(cmp_.left) or \
                            "eps" in ast.unparse(cmp_.left):
                        op = {"Lt": "Gt", "Gt": "Lt", "LtE": "GtE", "GtE": "LtE"}[op]
                    ops.setdefault(op, []).append((f, n))
                    sites.append((f, n, op))
    run.floor("thresholding statements", len(sites), 3)
    if sites:
        major = max(ops, key=lambda k: len(ops[k]))
        for f, n, op in sites:
            ok = op == major
            run.oblige("T3", f"{f.qualname}@{ast.unparse(n.targets[0])}", ok,
                       sample={"where": f"{f.module.relpath}:{n.lineno}", "op": op})
            if not ok:
                run.add("T3", f"{f.qualname}/relation/{op}",
                        f"{f.module.relpath}:{n.lineno}",
                        f"{f.qualname} thresholds with `{ast.unparse(n.targets[0])}` "
                        f"({op}) while the {len(ops[major])} sibling statements of the "
                        f"plot family use {major}: the variants no longer mark the "
                        f"same pairs recurrent")
    # missing-value masking
    rp = prog.classes.get(PLOT_ROOT)
    if rp is None:
        raise AnalysisError("RecurrencePlot vanished")
    n_mask = 0
    own_threshold = {}
    own_mask = {}
    for f in rp.methods.values():
        own_threshold[f] = any(s_[0] is f for s_ in sites)
        row = col = both = False
        for n in ast.walk(f.node):
            if isinstance(n, ast.Assign) and isinstance(n.targets[0], ast.Subscript) \
                    and isinstance(n.value, ast.Constant) and n.value.value == 0:
                sl = inline_locals(f.node, n.targets[0].slice)
                src = ast.unparse(sl)
                if "missing" not in src and "mv" not in src:
                    continue
                if isinstance(sl, ast.Tuple) and len(sl.elts) == 2:
                    a, b = sl.elts
                    full = lambda d: isinstance(d, ast.Slice) and d.lower is None \
                        and d.upper is None
                    if full(b) and not full(a):
                        row = True
                    if full(a) and not full(b):
                        col = True
                elif isinstance(sl, ast.BinOp) and isinstance(sl.op, ast.BitOr):
                    both = True
                elif isinstance(sl, ast.BinOp):
                    # an outer mask combined with anything but `|` excludes only
                    # pairs where *both* states are missing
                    row = col = False
                    both = False
                    n_mask += 1
                    run.oblige("T3", f"{f.qualname}:mask", False)
                    run.add("T3", f"{f.qualname}/mask-op",
                            f"{f.module.relpath}:{n.lineno}",
                            f"{f.qualname} clears `{src}`: states with a missing value "
                            f"must be excluded as rows *and* as columns (row mask | "
                            f"column mask), this combination keeps pairs in which only "
                            f"one state is missing")
        has = (row and col) or both
        if row or col or both:
            n_mask += 1
            run.oblige("T3", f"{f.qualname}:mask-pair", has, sample={
                "where": f.where, "row": row, "col": col})
            if not has:
                run.add("T3", f"{f.qualname}/mask-pair", f.where,
                        f"{f.qualname} clears missing-value "
                        f"{'rows' if row else 'columns'} only: recurrences with a "
                        f"missing state remain in the other direction")
        own_mask[f] = has
    run.floor("missing-value mask sites", n_mask, 1)

    # closure over the helpers a method is built of
    def closure(f, table, seen=None):
        seen = seen if seen is not None else set()
        if f in seen:
            return False
        seen.add(f)
        if table.get(f):
            return True
        return any(closure(g, table, seen) for g in _t3_callees(prog, rp, f))
    # sibling rule: every public thresholding variant of RecurrencePlot applies
    # the mask (itself, through a helper, or by delegating to a sibling)
    for f in sorted(rp.methods.values(), key=lambda f: f.name):
        if f.name.startswith("_") or f.kind not in ("method",):
            continue
        if not closure(f, own_threshold):
            continue
        ok = closure(f, own_mask)
        run.oblige("T3", f"{f.qualname}:mask-sibling", ok, sample={"where": f.where})
        if not ok:
            run.add("T3", f"{f.qualname}/no-mask", f.where,
                    f"{f.qualname} thresholds distances into R without excluding "
                    f"states that hold missing values, unlike its sibling "
                    f"set_fixed_threshold (with the supremum metric NaN components "
                    f"are ignored by the distance kernel, so such states can be "
                    f"marked recurrent)")


def t4(run: Run, prog: Program):
    """Size bookkeeping: N stored next to a matrix must be the matrix' size."""
    fam = [c for c in prog.classes.values() if prog.is_subclass(c, PLOT_ROOT)]
    n = 0
    for C in sorted(fam, key=lambda c: c.name):
        M = MATRIX_CELLS.get(C.name)
        if M is None:
            continue
        for f in C.methods.values():
            if f.name == "__init__":
                continue
            sn = f.params[0] if f.params else None
            mats = [a for a in ast.walk(f.node) if isinstance(a, ast.Assign)
                    and any(ast.unparse(t) == f"{sn}.{M}" for t in a.targets)]
            ns = [a for a in ast.walk(f.node) if isinstance(a, ast.Assign)
                  and any(ast.unparse(t) == f"{sn}.N" for t in a.targets)]
            if not mats or not ns:
                continue
            for a in mats:
                sliced = [s for s in ast.walk(a.value) if isinstance(s, ast.Subscript)
                          and any(isinstance(d, ast.Slice) and
                                  (isinstance(d.upper, ast.BinOp) or
                                   isinstance(d.lower, (ast.BinOp, ast.UnaryOp, ast.Attribute)))
                                  for d in (s.slice.elts if isinstance(s.slice, ast.Tuple)
                                            else [s.slice]))]
                n += 1
                nsrc = ast.unparse(ns[-1].value).replace(" ", "")
                from_matrix = nsrc in (f"{sn}.{M}.shape[0]", f"len({sn}.{M})") and \
                    ns[-1].lineno > a.lineno
                ok = (not sliced) or from_matrix
                run.oblige("T4", f"{f.qualname}:{M}", ok, sample={
                    "where": f"{f.module.relpath}:{a.lineno}",
                    "matrix": ast.unparse(a.value)[:120],
                    "N": ast.unparse(ns[-1].value)})
                if not ok:
                    run.add("T4", f"{f.qualname}/size", f"{f.module.relpath}:{a.lineno}",
                            f"{f.qualname} stores a sliced matrix in `{M}` "
                            f"(`{ast.unparse(sliced[0])[:60]}`) but sets N = "
                            f"`{ast.unparse(ns[-1].value)}`, the unsliced length: N no "
                            f"longer is the size of `{M}` (users of N such as the "
                            f"diagonal stride `flat[::N+1]` address the wrong cells)")
    run.floor("T4 matrix/N pairs", n, 4)


SIZE_CHANGING = ("delete", "compress", "take", "extract")


def t9(run: Run, prog: Program):
    """`self.N` is written by two owners in a plot+network class: the plot code
    (N = size of the recurrence matrix) and the Network adjacency setter (N =
    size of the adjacency).  When the constructor hands Network.__init__ a
    *size-changed* copy of the matrix (states with missing values deleted), N no
    longer is the size of the matrix afterwards; a later method that clears the
    diagonal of a copy of the matrix with the stride `self.N + 1` then clears
    the wrong cells."""
    classes = [c for c in prog.classes.values()
               if prog.is_subclass(c, PLOT_ROOT) and prog.is_subclass(c, "Network")]
    n = 0
    for C in sorted(classes, key=lambda c: c.name):
        M = _matrix_cell(prog, C)
        init = C.methods.get("__init__")
        if init is None or M is None:
            continue
        pruned = None
        for a in ast.walk(init.node):
            if isinstance(a, ast.Assign) and isinstance(a.targets[0], ast.Name) and \
                    isinstance(a.value, ast.Call) and isinstance(a.value.func, ast.Attribute) \
                    and a.value.func.attr in SIZE_CHANGING and a.value.args and \
                    isinstance(a.value.args[0], ast.Name) and \
                    a.value.args[0].id == a.targets[0].id:
                # X = np.delete(X, ...) on the local that reaches Network.__init__ ?
                for c in ast.walk(init.node):
                    if isinstance(c, ast.Call) and \
                            ast.unparse(c.func) == "Network.__init__" and len(c.args) > 1 \
                            and isinstance(c.args[1], ast.Name) and \
                            c.args[1].id == a.targets[0].id and c.lineno > a.lineno:
                        pruned = a
        for f in sorted(C.methods.values(), key=lambda f: f.name):
            if f.name == "__init__" or not f.params:
                continue
            sn = f.params[0]
            for st in ast.walk(f.node):
                if not (isinstance(st, ast.Assign) and isinstance(st.targets[0], ast.Subscript)
                        and isinstance(st.targets[0].value, ast.Attribute)
                        and st.targets[0].value.attr == "flat"):
                    continue
                sl = st.targets[0].slice
                if not (isinstance(sl, ast.Slice) and sl.step is not None):
                    continue
                uses_N = any(isinstance(x, ast.Attribute) and isinstance(x.value, ast.Name)
                             and x.value.id == sn and x.attr == "N"
                             for x in ast.walk(sl.step))
                if not uses_N:
                    continue
                n += 1
                ok = pruned is None
                run.oblige("T9", f"{f.qualname}:stride@{st.lineno}", ok, sample={
                    "where": f"{f.module.relpath}:{st.lineno}"})
                if not ok:
                    run.add("T9", f"{f.qualname}/stride-N", f"{f.module.relpath}:{st.lineno}",
                            f"{f.qualname} clears the diagonal of a copy of `{M}` with the "
                            f"stride `{ast.unparse(sl.step)}`, but {C.name}.__init__ hands "
                            f"Network.__init__ a size-changed copy "
                            f"(`{ast.unparse(pruned)[:60]}`), after which self.N is the "
                            f"size of the adjacency, not of `{M}`: the wrong cells are "
                            f"cleared and self-loops remain")
    run.count("T9", n)


def t8(run: Run, cy: CyProgram):
    """Distance kernels compute at the precision of their input: no floating
    local (accumulator, difference) is declared narrower than the embedding
    buffers it is computed from.  A narrowed intermediate moves distances by
    ~1e-8 relative, which flips `distance < threshold` for near-threshold pairs
    and makes the rp/crp siblings disagree."""
    from .precision import float_widths
    mod = cy.modules["pyunicorn.timeseries._ext.numerics"]
    W = float_widths(cy.types)
    n = 0
    for f in sorted(mod.funcs.values(), key=lambda f: f.name):
        if "_distance_matrix_" not in f.name:
            continue
        inw = [W[t.name] for _, t in f.args if t.kind in ("buffer", "memview")
               and t.name in W]
        if not inw:
            continue
        n += 1
        mx = max(inw)
        nar = [(nm, t.name, ln) for nm, (t, init, ln) in f.locals.items()
               if t.kind == "simple" and t.name in W and W[t.name] < mx]
        run.oblige("T8", f"{f.name}:intermediates", not nar, sample={"where": f.where})
        for nm, tn, ln in nar:
            run.add("T8", f"{f.name}/narrow-intermediate", f"{mod.relpath}:{ln or f.line}",
                    f"{f.name} declares the floating local `{nm}` as {tn} "
                    f"({W[tn] * 8} bit) although its inputs are {mx * 8}-bit: the "
                    f"distance is rounded to single precision on the way, unlike in "
                    f"its sibling kernels")
    run.floor("T8 distance kernels", n, 6)


def t11(run: Run, prog: Program):
    """A method that measures a size attribute on the matrix it has just built
    (`self.N = self.JR.shape[0]`: the joint plot covers only the overlap of the
    lagged plots) must not let a later statement overwrite that attribute - in
    particular not through a property setter that also maintains it
    (`self.embedding = ...` sets N to the length of the embedding)."""
    from .pymodel import _Builder
    n = 0
    for C in sorted((c for c in prog.classes.values() if prog.is_subclass(c, PLOT_ROOT)),
                    key=lambda c: c.name):
        M = _matrix_cell(prog, C)
        if M is None:
            continue
        for name, f in sorted(C.methods.items()):
            if f.kind != "method" or not f.params:
                continue
            sn = f.params[0]
            body = f.node.body
            for i, st in enumerate(body):
                if not (isinstance(st, ast.Assign) and len(st.targets) == 1 and
                        isinstance(st.targets[0], ast.Attribute) and
                        isinstance(st.targets[0].value, ast.Name) and
                        st.targets[0].value.id == sn):
                    continue
                size = st.targets[0].attr
                v = ast.unparse(st.value).replace(" ", "")
                if v not in (f"{sn}.{M}.shape[0]", f"len({sn}.{M})", f"{sn}._{M}.shape[0]"):
                    continue
                n += 1
                b = _Builder(prog, f, C, {}, True)
                later = None
                for st2 in body[i + 1:]:
                    try:
                        t2 = b.block([st2])
                    except AnalysisError:
                        continue
                    if any(e.kind in ("write", "assign") and e.cell == size
                           for e in iter_events(t2)):
                        later = st2
                        break
                run.oblige("T11", f"{f.qualname}:{size}", later is None, sample={
                    "where": f"{f.module.relpath}:{st.lineno}", "size": size, "matrix": M})
                if later is not None:
                    run.add("T11", f"{f.qualname}/{size}-overwritten",
                            f"{f.module.relpath}:{later.lineno}",
                            f"{f.qualname} sets `{size}` to the size of the matrix it "
                            f"built (`{ast.unparse(st)}`) and then "
                            f"`{ast.unparse(later)[:60]}` rewrites `{size}`: the size "
                            f"attribute no longer matches `{M}` (with a lag the joint "
                            f"matrix is smaller than the embedded series), every "
                            f"quantification that iterates over `{size}` reads outside "
                            f"or computes rates with the wrong normaliser")
    run.floor("T11 explicit size measurements", n, 2)


def t12(run: Run, prog: Program):
    """The missing-value mask blanks rows and columns of the recurrence matrix,
    which are indexed by *state vectors*: it must be computed on the states the
    distances are computed on (`self.embedding`), not on the raw samples - with
    an embedding a state holds a missing value whenever any of its dim lagged
    samples does."""
    n = 0
    for C in sorted((c for c in prog.classes.values() if prog.is_subclass(c, PLOT_ROOT)),
                    key=lambda c: c.name):
        for name, f in sorted(C.methods.items()):
            if not f.params:
                continue
            sn = f.params[0]
            for st in ast.walk(f.node):
                if not (isinstance(st, ast.Assign) and len(st.targets) == 1 and
                        isinstance(st.targets[0], ast.Attribute) and
                        isinstance(st.targets[0].value, ast.Name) and
                        st.targets[0].value.id == sn and
                        st.targets[0].attr == "missing_value_indices"):
                    continue
                from .idioms import inline_locals
                v = inline_locals(f.node, st.value)
                reads = {x.attr for x in ast.walk(v) if isinstance(x, ast.Attribute)
                         and isinstance(x.value, ast.Name) and x.value.id == sn}
                n += 1
                on_states = bool(reads & {"embedding", "_embedding"})
                on_samples = bool(reads & {"time_series", "x", "y"})
                if not on_states and not on_samples:
                    run.unknowns.append(f"T12: {f.where}: source of the missing-value "
                                        f"mask not recognised ({sorted(reads)})")
                    continue
                run.oblige("T12", f"{f.qualname}:mask-source", on_states, sample={
                    "where": f"{f.module.relpath}:{st.lineno}", "reads": sorted(reads)})
                if not on_states:
                    run.add("T12", f"{f.qualname}/mask-from-samples",
                            f"{f.module.relpath}:{st.lineno}",
                            f"{f.qualname} computes the missing-value mask from "
                            f"{sorted(reads & {'time_series', 'x', 'y'})} (one entry per "
                            f"sample) although it blanks rows/columns of the recurrence "
                            f"matrix (one per embedded state): with dim > 1 states that "
                            f"contain a missing sample at a later lag stay unmarked and "
                            f"are reported as recurrent")
    run.floor("T12 missing-value masks", n, 1)


def t13(run: Run, prog: Program):
    """A plot class that computes a missing-value mask applies it in every
    method that rebuilds its matrix: each writer of the matrix cell reads
    `missing_value_indices` (directly or through a helper).  A sibling that does
    not cannot honour 'never recurrent when either state holds a missing
    value', whatever its way of choosing neighbours."""
    n = 0
    for C in sorted((c for c in prog.classes.values() if prog.is_subclass(c, PLOT_ROOT)),
                    key=lambda c: c.name):
        M = _matrix_cell(prog, C)
        if M is None:
            continue
        has_mask = any(
            isinstance(st, ast.Assign) and any(
                isinstance(t, ast.Attribute) and t.attr == "missing_value_indices"
                for t in st.targets)
            for f in C.methods.values() for st in ast.walk(f.node))
        if not has_mask:
            continue
        for name, f in sorted(C.methods.items()):
            if f.kind != "method" or name.startswith("__"):
                continue
            try:
                t = prog.tree(f, C, {})
            except AnalysisError:
                continue
            # stores of the method itself (`self.R = ...` runs the property setter)
            own = [e for e in iter_events(t) if e.kind in ("write", "assign")
                   and e.cell in (M, "_" + M)
                   and (e.func is f or e.func.kind == "setter")]
            calls_sibling = any(
                isinstance(c, ast.Call) and isinstance(c.func, ast.Attribute)
                and c.func.attr.startswith("set_") for c in ast.walk(f.node))
            if not own or (calls_sibling and not any(e.func is f for e in own) and
                           not any(isinstance(st, ast.Assign) and any(
                               isinstance(tg, ast.Attribute) and tg.attr == M
                               for tg in st.targets) for st in ast.walk(f.node))):
                continue
            # an accessor that stores the matrix it is handed (`self._R = R`)
            # builds nothing
            if all(isinstance(st, ast.Assign) and isinstance(st.value, ast.Name) and
                   st.value.id in f.params
                   for st in ast.walk(f.node) if isinstance(st, ast.Assign) and any(
                       isinstance(tg, ast.Attribute) and tg.attr in (M, "_" + M)
                       for tg in st.targets)) and any(e.func is f for e in own):
                continue
            n += 1
            reads = {e.cell for e in iter_events(t) if e.kind == "read"}
            ok = "missing_value_indices" in reads
            run.oblige("T13", f"{f.qualname}:applies-mask", ok, sample={
                "where": f.where, "matrix": M})
            if not ok:
                run.add("T13", f"{f.qualname}/mask-not-applied", own[0].where,
                        f"{f.qualname} rebuilds `{M}` without consulting "
                        f"`missing_value_indices`, which the sibling constructions of "
                        f"{C.name} apply as zero rows and columns: with "
                        f"missing_values=True a state that holds a missing value is "
                        f"marked recurrent")
    run.floor("T13 matrix builders of classes with a missing-value mask", n, 3)


def t7(run: Run, prog: Program):
    """Size provenance of block assemblies: when a matrix block `M[:S, ...] =
    self.P.<matrix>()` is sized by the stored size S, S must have been measured
    on the very series the plot P was built from (or on a plain alias of it) -
    not on a series that a length-changing transformation (embedding) replaced."""
    n = 0
    for C in sorted((c for c in prog.classes.values()
                     if any(b.name in ("InteractingNetworks", PLOT_ROOT) for b in c.mro)),
                    key=lambda c: c.name):
        size_of, series_of, defs = {}, {}, {}
        for f in C.methods.values():
            sn = f.params[0] if f.params else None
            if sn is None:
                continue

            def cell(e):
                if isinstance(e, ast.Attribute) and isinstance(e.value, ast.Name) and \
                        e.value.id == sn:
                    return e.attr
                return None
            for a in ast.walk(f.node):
                if not (isinstance(a, ast.Assign) and len(a.targets) == 1):
                    continue
                t = cell(a.targets[0])
                if t is None:
                    continue
                v = a.value
                # self.S = self.C.shape[0] | len(self.C)
                if isinstance(v, ast.Subscript) and isinstance(v.value, ast.Attribute) and \
                        v.value.attr == "shape" and cell(v.value.value) and \
                        isinstance(v.slice, ast.Constant) and v.slice.value == 0:
                    size_of.setdefault(t, set()).add(cell(v.value.value))
                elif isinstance(v, ast.Call) and isinstance(v.func, ast.Name) and \
                        v.func.id == "len" and v.args and cell(v.args[0]):
                    size_of.setdefault(t, set()).add(cell(v.args[0]))
                # self.P = <Plot>(time_series=self.D | x=self.D, y=self.E ...)
                elif isinstance(v, ast.Call) and isinstance(v.func, ast.Name) and \
                        v.func.id.endswith("RecurrencePlot"):
                    ser = [cell(k.value) for k in v.keywords
                           if k.arg in ("time_series", "x", "y")] + \
                        [cell(x) for x in v.args[:2]]
                    series_of.setdefault(t, []).append([x for x in ser if x])
                # every other definition of a cell (to see aliases / transforms)
                defs.setdefault(t, []).append(v)
        if not size_of or not series_of:
            continue

        def same_length(d, c, depth=0):
            """Is cell d always (a plain alias of) cell c?"""
            if d == c:
                return True
            if depth > 3 or d not in defs:
                return False
            for v in defs[d]:
                tgt = v
                if not (isinstance(tgt, ast.Attribute) and isinstance(tgt.value, ast.Name)
                        and same_length(tgt.attr, c, depth + 1)):
                    return False
            return True
        for f in C.methods.values():
            sn = f.params[0] if f.params else None
            if sn is None:
                continue
            alias = {}
            for a in ast.walk(f.node):
                if isinstance(a, ast.Assign) and isinstance(a.targets[0], ast.Name) and \
                        isinstance(a.value, ast.Attribute) and \
                        isinstance(a.value.value, ast.Name) and a.value.value.id == sn:
                    alias[a.targets[0].id] = a.value.attr
            for a in ast.walk(f.node):
                if not (isinstance(a, ast.Assign) and isinstance(a.targets[0], ast.Subscript)
                        and isinstance(a.value, ast.Call)
                        and isinstance(a.value.func, ast.Attribute)
                        and isinstance(a.value.func.value, ast.Attribute)):
                    continue
                P = a.value.func.value
                if not (isinstance(P.value, ast.Name) and P.value.id == sn and
                        P.attr in series_of):
                    continue
                from .idioms import inline_locals
                sl = inline_locals(f.node, a.targets[0].slice,
                                   defs={k: v for k, v in __import__(
                                       "pyuverif.idioms", fromlist=["single_defs"]
                                   ).single_defs(f.node).items()
                                       if isinstance(v, ast.Call) and
                                       isinstance(v.func, ast.Name) and
                                       v.func.id == "slice"})
                dims = sl.elts if isinstance(sl, ast.Tuple) else [sl]
                if not dims:
                    continue
                d0 = dims[0]
                # slice(None, S) / slice(S) objects are slices too
                if isinstance(d0, ast.Call) and isinstance(d0.func, ast.Name) and \
                        d0.func.id == "slice" and d0.args:
                    if len(d0.args) == 1:
                        d0 = ast.Slice(lower=None, upper=d0.args[0], step=None)
                    else:
                        lo_ = d0.args[0]
                        d0 = ast.Slice(lower=None if isinstance(lo_, ast.Constant) and
                                       lo_.value in (None, 0) else lo_,
                                       upper=d0.args[1], step=None)
                if not isinstance(d0, ast.Slice):
                    continue
                # rows [:S] (first block) -> S sizes the plot's first series
                if d0.lower is None and isinstance(d0.upper, (ast.Name, ast.Attribute)):
                    S = alias.get(d0.upper.id) if isinstance(d0.upper, ast.Name) else \
                        d0.upper.attr
                    if S not in size_of:
                        continue
                    n += 1
                    measured = size_of[S]
                    built = {ser[0] for ser in series_of[P.attr] if ser}
                    ok = all(same_length(b, m_) for b in built for m_ in measured)
                    run.oblige("T7", f"{C.name}.{f.name}:{S}~{P.attr}", ok, sample={
                        "where": f"{f.module.relpath}:{a.lineno}",
                        "size_measured_on": sorted(measured),
                        "plot_built_from": sorted(built)})
                    if not ok:
                        run.add("T7", f"{C.name}.{f.name}/size-provenance/{S}",
                                f"{f.module.relpath}:{a.lineno}",
                                f"{C.name}.{f.name} fills the block `[:{S}, ...]` from "
                                f"`self.{P.attr}`, a plot built from "
                                f"`self.{sorted(built)[0]}`, but `{S}` was measured on "
                                f"`self.{sorted(measured)[0]}`; `self.{sorted(built)[0]}` "
                                f"is not always that array (a length-changing "
                                f"transformation such as embedding replaces it): the "
                                f"block does not fit")
    run.count("T7", n)


def t5(run: Run, cy: CyProgram):
    """Adaptive neighbourhood kernel: the neighbour linked to state l must be
    taken from l's own sorted neighbour list."""
    f = cy.func("pyunicorn.timeseries._ext.numerics", "_set_adaptive_neighborhood_size")
    if f is None:
        raise AnalysisError("_set_adaptive_neighborhood_size vanished")
    # roles by declared type: the recurrence matrix is the 2-D LAG_t buffer that
    # is stored to, the neighbour table the 2-D NODE_t buffer
    bufs2 = [(n_, t) for n_, t in f.args if t.kind in ("buffer", "memview") and t.ndim == 2]
    rec = next((n_ for n_, t in bufs2 if t.name == "LAG_t"), "recurrence")
    nbr = next((n_ for n_, t in bufs2 if t.name == "NODE_t"), "sorted_neighbors")
    # all definitions of scalar locals
    defs = {}
    for s in walk(f.body):
        if isinstance(s, X) and s.k == "assign":
            for t in s.a[0]:
                if t.k == "name":
                    defs.setdefault(t.a[0], []).append(s.a[1])
    n = 0
    for s in walk(f.body):
        if not (isinstance(s, X) and s.k == "index" and pp(s.a[0]) == rec
                and len(s.a[1]) == 2):
            continue
        for row, col in ((s.a[1][0], s.a[1][1]), (s.a[1][1], s.a[1][0])):
            cands = [col]
            if col.k == "name" and col.a[0] in defs:
                cands = defs[col.a[0]]
            for c in cands:
                if c.k == "index" and pp(c.a[0]) == nbr:
                    n += 1
                    ok = pp(c.a[1][0]) == pp(row)
                    run.oblige("T5", f"{pp(s)}<-{pp(c)}", ok, sample={
                        "where": f"{f.module.relpath}:{s.line}"})
                    if not ok:
                        run.add("T5", f"{f.name}/neighbour-row",
                                f"{f.module.relpath}:{c.line or s.line}",
                                f"{f.name}: `{pp(s)}` links state `{pp(row)}` to "
                                f"`{pp(c)}`, a neighbour taken from the sorted list of "
                                f"state `{pp(c.a[1][0])}` - with a non-identity `order` "
                                f"states get neighbours of other states and lose the "
                                f"guaranteed neighbourhood size")
    run.floor("T5 neighbour subscripts", n, 3)


# library calls whose argument type is constrained by the interpreter the
# repository targets (pyproject: Python >= 3.9, CI up to 3.12): a call that
# violates the contract raises on every execution of the kernel.
#   callee text -> (position, predicate on the argument IR -> reason | None)
def _seed_arg(a):
    # random.seed accepts None, int, float, str, bytes, bytearray (TypeError
    # for anything else since 3.11).  Only *provably* other types are reported.
    if a.k == "call" and pp(a.a[0]).split(".")[-1] in ("now", "today", "utcnow",
                                                       "localtime", "gmtime"):
        return f"`{pp(a)}` is a date/time object"
    if a.k in ("tuple", "list", "dict"):
        return f"`{pp(a)}` is a {a.k}"
    return None


LIB_CONTRACTS = {"random.seed": (0, _seed_arg)}


def t6(run: Run, cy: CyProgram):
    n = 0
    for mod in cy.modules.values():
        if "timeseries" not in mod.name:
            continue
        for f in mod.funcs.values():
            for x in walk(f.body):
                if not (isinstance(x, X) and x.k == "call"):
                    continue
                name = pp(x.a[0])
                if name not in LIB_CONTRACTS:
                    continue
                pos, pred = LIB_CONTRACTS[name]
                n += 1
                args = x.a[1]
                why = pred(args[pos]) if len(args) > pos else None
                run.oblige("T6", f"{f.name}/{name}", why is None,
                           sample={"call": pp(x), "line": x.line})
                if why:
                    run.add("T6", f"{f.name}/{name}", f"{mod.relpath}:{x.line}",
                            f"{f.name} calls `{pp(x)}`: {why}, which {name} rejects "
                            f"with TypeError on Python >= 3.11 - the kernel fails on "
                            f"every call")


def check(run: Run, prog: Program, cy: CyProgram, sites=None):
    run.rule("T13", "every method of a plot class with a missing-value mask that "
             "rebuilds the matrix applies the mask")
    run.rule("T12", "the missing-value mask of a recurrence plot is computed on the "
             "embedded states, not on the raw samples")
    run.rule("T11", "a size attribute measured on the freshly built matrix is not "
             "overwritten later in the same method (e.g. by the embedding setter)")
    run.rule("T10", "the adjacency handed to Network.__init__ keeps the shape of the "
             "recurrence matrix (the attribute N is shared by plot and network)")
    run.rule("T9", "a diagonal stride taken from self.N belongs to a matrix whose size "
             "self.N still denotes")
    run.rule("T8", "distance kernels keep every floating intermediate at the "
             "precision of their input buffers")
    run.rule("T7", "a matrix block sized by a stored length is filled from a plot built "
             "on the series that length was measured on")
    run.rule("T6", "library calls inside the plot family's kernels respect the "
             "argument types the supported interpreters accept (random.seed)")
    run.rule("T1", "every compiled entry point used by the recurrence-plot family is "
             "called with the dtype and rank its signature demands (applicability)")
    run.rule("T2", "plot+network classes rebuild the adjacency from a diagonal-free "
             "copy of the recurrence matrix after every public rewrite of the matrix")
    run.rule("T3", "all thresholding statements of the plot family use the same "
             "relation; missing-value states are excluded as rows and columns in "
             "every thresholding variant")
    run.rule("T4", "the size stored next to a matrix is the size of that matrix")
    run.rule("T5", "the adaptive-neighbourhood kernel links a state to neighbours "
             "from its own sorted neighbour list")
    run.explanation = (
        "Structural necessary conditions of C07 decided from source: kernel "
        "boundary typing, must-pass-through of the adjacency rebuild, sibling "
        "agreement of thresholding and masking statements, size bookkeeping and "
        "index-role agreement in the adaptive kernel. The value-level statement "
        "(recurrent iff distance < threshold etc.) is NOT decided.")
    run.assumptions += ["direct assignment to the matrix attribute by the user is out "
                        "of scope", "distance kernels themselves are not verified"]
    sites = sites if sites is not None else boundary_table(prog, cy)
    t1(run, prog, cy, sites)
    t2(run, prog)
    t3(run, prog)
    t4(run, prog)
    t5(run, cy)
    t6(run, cy)
    t7(run, prog)
    t11(run, prog)
    t12(run, prog)
    t13(run, prog)
    t8(run, cy)
    t9(run, prog)
