"""C front end (DESIGN.md §3.4): `clang -fsyntax-only -Xclang -ast-dump=json`
converted to the loop IR of cymodel (X), plus a small polynomial domain used by
the affine pointer analysis of C20."""
from __future__ import annotations

import json
import os
import subprocess
from dataclasses import dataclass, field
from typing import Optional

from .cymodel import X, pp
from .report import AnalysisError


def strip_qual(t: str) -> str:
    """C type without cv-qualifiers (`const float *` -> `float *`): the
    qualifiers do not change sizes, widths or what an access touches."""
    words = [w for w in t.replace("*", " * ").split()
             if w not in ("const", "volatile", "restrict", "__restrict")]
    out = " ".join(words)
    return out.replace(" * *", " **").replace("* *", "**")


@dataclass
class CFunc:
    name: str
    params: list          # [(name, ctype str)]
    ret: str
    body: list            # [X]
    line: int
    path: str
    relpath: str

    @property
    def where(self):
        return f"{self.relpath}:{self.line}"


class _Conv:
    def __init__(self, path, rel):
        self.path, self.rel = path, rel
        self.unhandled = []

    def line(self, n):
        loc = n.get("loc", {}) or {}
        rng = n.get("range", {}).get("begin", {}) if n.get("range") else {}
        for l in (loc, rng, loc.get("expansionLoc", {}), rng.get("expansionLoc", {})):
            if isinstance(l, dict) and "line" in l:
                self._last_line = l["line"]
                return l["line"]
        return getattr(self, "_last_line", 0)

    def kids(self, n):
        return [c for c in n.get("inner", []) if c and c.get("kind")]

    def expr(self, n) -> X:
        k = n.get("kind")
        ln = self.line(n)
        ks = self.kids(n)
        if k in ("ImplicitCastExpr", "ParenExpr", "ConstantExpr"):
            return self.expr(ks[0])
        if k == "CStyleCastExpr":
            return X("cast", strip_qual(n.get("type", {}).get("qualType", "?")),
                     self.expr(ks[0]), line=ln)
        if k == "DeclRefExpr":
            return X("name", n["referencedDecl"]["name"], line=ln)
        if k == "IntegerLiteral":
            return X("num", int(n["value"]), line=ln)
        if k == "FloatingLiteral":
            return X("num", float(n["value"]), line=ln)
        if k == "BinaryOperator":
            op = n["opcode"]
            l, r = self.expr(ks[0]), self.expr(ks[1])
            if op in ("<", "<=", ">", ">=", "==", "!="):
                return X("cmp", op, l, r, line=ln)
            if op in ("&&", "||"):
                return X("boolop", "and" if op == "&&" else "or", [l, r], line=ln)
            if op == "=":
                return X("cassign", l, r, line=ln)
            if op == ",":
                return X("comma", l, r, line=ln)
            return X("bin", op, l, r, line=ln)
        if k == "CompoundAssignOperator":
            return X("caug", n["opcode"].rstrip("="), self.expr(ks[0]), self.expr(ks[1]),
                     line=ln)
        if k == "UnaryOperator":
            op = n["opcode"]
            e = self.expr(ks[0])
            if op in ("++", "--"):
                return X("caug", "+" if op == "++" else "-", e, X("num", 1), line=ln)
            if op == "*":
                return X("deref", e, line=ln)
            if op == "&":
                return X("addr", e, line=ln)
            if op == "!":
                return X("not", e, line=ln)
            return X("un", op, e, line=ln)
        if k == "ArraySubscriptExpr":
            return X("index", self.expr(ks[0]), [self.expr(ks[1])], line=ln)
        if k == "CallExpr":
            return X("call", self.expr(ks[0]), [self.expr(c) for c in ks[1:]], {}, line=ln)
        if k == "UnaryExprOrTypeTraitExpr":
            return X("sizeof", n.get("argType", {}).get("qualType", "?"), line=ln)
        if k == "ConditionalOperator":
            return X("cond", self.expr(ks[0]), self.expr(ks[1]), self.expr(ks[2]), line=ln)
        self.unhandled.append(f"expr {k} line {ln}")
        return X("other", k, line=ln)

    def stmts(self, n) -> list:
        k = n.get("kind")
        if k == "CompoundStmt":
            out = []
            for c in self.kids(n):
                out.extend(self.stmts(c))
            return out
        return [s for s in [self.stmt(n)] if s is not None]

    def expr_stmt(self, e: X, ln):
        if e.k == "cassign":
            # chained a = b = v
            targets = [e.a[0]]
            v = e.a[1]
            while v.k == "cassign":
                targets.append(v.a[0])
                v = v.a[1]
            return X("assign", targets, v, line=ln)
        if e.k == "caug":
            return X("aug", e.a[0], e.a[1], e.a[2], line=ln)
        return X("expr", e, line=ln)

    def stmt(self, n):
        k = n.get("kind")
        ln = self.line(n)
        ks = self.kids(n)
        if k == "DeclStmt":
            decls = []
            for d in ks:
                if d.get("kind") != "VarDecl":
                    continue
                init = None
                ik = self.kids(d)
                if ik:
                    init = self.expr(ik[0])
                decls.append((d["name"], strip_qual(d.get("type", {}).get("qualType", "?")),
                              init))
            return X("cdecl", decls, line=ln)
        if k == "ForStmt":
            raw = n.get("inner", [])
            # [init, condvar, cond, inc, body]
            init = self.stmts(raw[0]) if raw[0] and raw[0].get("kind") else []
            # `for (i = 0, p = a, q = b; ...)`: one statement per operand
            init2 = []
            for st_ in init:
                if st_ is not None and st_.k == "expr" and st_.a[0].k == "comma":
                    parts_ = []

                    def unfold_(x):
                        if x.k == "comma":
                            unfold_(x.a[0])
                            unfold_(x.a[1])
                        else:
                            parts_.append(x)
                    unfold_(st_.a[0])
                    init2.extend(self.expr_stmt(x, ln) for x in parts_)
                else:
                    init2.append(st_)
            init = init2
            cond = self.expr(raw[2]) if raw[2] and raw[2].get("kind") else None
            inc = []
            if raw[3] and raw[3].get("kind"):
                e = self.expr(raw[3])
                # `j++, p += n, q += m`: one statement per operand
                parts = []

                def unfold(x):
                    if x.k == "comma":
                        unfold(x.a[0])
                        unfold(x.a[1])
                    else:
                        parts.append(x)
                unfold(e)
                inc = [self.expr_stmt(x, ln) for x in parts]
            body = self.stmts(raw[4]) if raw[4] and raw[4].get("kind") else []
            return X("cfor", init, cond, inc, body, line=ln)
        if k == "WhileStmt":
            return X("while", self.expr(ks[0]), self.stmts(ks[1]), line=ln)
        if k == "IfStmt":
            cond = self.expr(ks[0])
            then = self.stmts(ks[1])
            els = self.stmts(ks[2]) if len(ks) > 2 else []
            return X("if", [(cond, then)], els, line=ln)
        if k == "ReturnStmt":
            return X("return", self.expr(ks[0]) if ks else None, line=ln)
        if k == "ContinueStmt":
            return X("continue", line=ln)
        if k == "BreakStmt":
            return X("break", line=ln)
        if k == "NullStmt":
            return None
        if k == "CompoundStmt":
            return X("block", self.stmts(n), line=ln)
        e = self.expr(n)
        return self.expr_stmt(e, ln)


def load_c(repo: str, relpath: str) -> dict:
    path = os.path.join(repo, relpath)
    if not os.path.exists(path):
        raise AnalysisError(f"missing C source {relpath}")
    try:
        r = subprocess.run(["clang", "-fsyntax-only", "-Xclang", "-ast-dump=json", path],
                           capture_output=True, text=True, timeout=120)
    except (OSError, subprocess.TimeoutExpired) as e:
        raise AnalysisError(f"clang not usable: {e}") from e
    if r.returncode != 0 or not r.stdout:
        raise AnalysisError(f"clang failed on {relpath}: {r.stderr[:300]}")
    d = json.loads(r.stdout)
    conv = _Conv(path, relpath)
    funcs = {}
    for n in d.get("inner", []):
        if n.get("kind") != "FunctionDecl" or "inner" not in n:
            continue
        loc = n.get("loc", {})
        # only functions defined in this file (not system headers)
        inc = loc.get("includedFrom") or (n.get("range", {}).get("begin", {})
                                          .get("includedFrom"))
        body = [c for c in n["inner"] if c.get("kind") == "CompoundStmt"]
        if not body or inc:
            continue
        f = loc.get("file")
        if f and os.path.abspath(f) != os.path.abspath(path):
            conv._cur_file = f
        params = [(c["name"], strip_qual(c["type"]["qualType"])) for c in n["inner"]
                  if c.get("kind") == "ParmVarDecl"]
        if n.get("storageClass") == "extern" and not body:
            continue
        ret = n["type"]["qualType"].split("(")[0].strip()
        fn = CFunc(n["name"], params, ret, conv.stmts(body[0]), conv.line(n), path, relpath)
        funcs[fn.name] = fn
    # drop functions that come from included system headers (they have bodies
    # only for inline helpers); keep those whose parameters we can see in source
    with open(path, encoding="utf-8") as fh:
        src = fh.read()
    funcs = {k: v for k, v in funcs.items() if k + "(" in src}
    return {"funcs": funcs, "unhandled": conv.unhandled}


# ---------------------------------------------------------------------------
# polynomials over named symbols with integer coefficients

class Poly:
    __slots__ = ("t",)

    def __init__(self, terms=None):
        self.t = {k: v for k, v in (terms or {}).items() if v != 0}

    @staticmethod
    def const(c):
        return Poly({(): c})

    @staticmethod
    def sym(name):
        return Poly({(name,): 1})

    def __add__(self, o):
        t = dict(self.t)
        for k, v in o.t.items():
            t[k] = t.get(k, 0) + v
        return Poly(t)

    def __neg__(self):
        return Poly({k: -v for k, v in self.t.items()})

    def __sub__(self, o):
        return self + (-o)

    def __mul__(self, o):
        t = {}
        for k1, v1 in self.t.items():
            for k2, v2 in o.t.items():
                k = tuple(sorted(k1 + k2))
                t[k] = t.get(k, 0) + v1 * v2
        return Poly(t)

    def is_const(self):
        return all(k == () for k in self.t)

    def const_value(self):
        return self.t.get((), 0)

    def symbols(self):
        return {s for k in self.t for s in k}

    def subst(self, name, poly: "Poly"):
        out = Poly()
        for k, v in self.t.items():
            term = Poly.const(v)
            for s in k:
                term = term * (poly if s == name else Poly.sym(s))
            out = out + term
        return out

    def __eq__(self, o):
        return isinstance(o, Poly) and self.t == o.t

    def __hash__(self):
        return hash(tuple(sorted(self.t.items())))

    def __repr__(self):
        if not self.t:
            return "0"
        parts = []
        for k, v in sorted(self.t.items(), key=lambda kv: (len(kv[0]), kv[0])):
            m = "*".join(k)
            if not m:
                parts.append(str(v))
            elif v == 1:
                parts.append(m)
            elif v == -1:
                parts.append("-" + m)
            else:
                parts.append(f"{v}*{m}")
        return " + ".join(parts).replace("+ -", "- ")
