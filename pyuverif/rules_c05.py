"""C05 - representations agree, save/load: structural clauses S1..S6."""
from __future__ import annotations

import ast
import re

from .pymodel import Program, iter_events
from .idioms import negated_flag, mirrors_edge_list
from .report import Run, AnalysisError

LOADERS = [("Network", "FromIGraph"), ("SpatialNetwork", "Load"),
           ("GeoNetwork", "Load"), ("ClimateNetwork", "Load")]
COPIES = [("Network", "copy"), ("Network", "undirected_copy"),
          ("Network", "permuted_copy"), ("Network", "splitted_copy"),
          ("InteractingNetworks", "subnetwork")]


def _dotted_names(e):
    out = set()
    for n in ast.walk(e):
        if isinstance(n, ast.Name):
            out.add(n.id)
    return out


def _bump_via_helper(prog, C, st, obj, cell) -> bool:
    """`obj._helper("la")` where the helper (a private method of C), read with
    its constant arguments and the class-level name tables, advances `cell`."""
    import copy
    from .idioms import is_bump_of
    from .pymodel import UNKNOWN
    if not (isinstance(st, ast.Expr) and isinstance(st.value, ast.Call) and
            isinstance(st.value.func, ast.Attribute) and
            isinstance(st.value.func.value, ast.Name) and
            st.value.func.value.id == obj and not st.value.keywords):
        return False
    h = prog.lookup(C, st.value.func.attr)
    if h is None or not h.name.startswith("_") or h.name.startswith("__") or \
            len(h.params) != len(st.value.args) + 1:
        return False
    env = {}
    for p_, a in zip(h.params[1:], st.value.args):
        v = prog.static_value(a, C, h.module)
        if v is UNKNOWN:
            return False
        env[p_] = v
    sn = h.params[0]
    for s_ in h.node.body:
        if isinstance(s_, ast.Assign) and len(s_.targets) == 1 and \
                isinstance(s_.targets[0], ast.Name):
            v = prog.static_value(s_.value, C, h.module, env)
            if v is not UNKNOWN and isinstance(v, str):
                env[s_.targets[0].id] = v
            continue

        class Fold(ast.NodeTransformer):
            def visit_Name(self, n):
                if n.id in env and isinstance(n.ctx, ast.Load) and \
                        isinstance(env[n.id], str):
                    return ast.copy_location(ast.Constant(value=env[n.id]), n)
                if n.id == sn:
                    return ast.copy_location(ast.Name(id=obj, ctx=n.ctx), n)
                return n
        if is_bump_of(Fold().visit(copy.deepcopy(s_)), obj, cell):
            return True
    return False


def s1(run: Run, prog: Program):
    """Who may write the primary groups + the loader idiom."""
    from .rules_c01 import CacheModel, _k4_groups
    # reuse the who-may-write check of C01 under this property's rule id
    sub = Run("C01", write=False, quiet=True, repo=run.repo)
    _k4_groups(sub, prog, CacheModel(prog))
    for f in sub.findings:
        run.add("S1", f.key, f.where, f.message)
    run.oblige("S1", "who-may-write", not sub.findings, sample={
        "obligations_reused": sub.obligations})
    # loader idiom: obj.graph = g ; obj._mut_la += 1, obj built from g
    for cname, mname in LOADERS:
        C = prog.classes.get(cname)
        m = C.methods.get(mname) if C else None
        if m is None:
            raise AnalysisError(f"{cname}.{mname} vanished")
        # the tail of a loader may live in a private helper: analyse the
        # statements it stands for
        from .idioms import inline_simple_helpers, is_bump_of

        def _resolve(name, _C=C):
            h = prog.lookup(_C, name)
            return h.node if h is not None and name.startswith("_") and \
                not name.startswith("__") else None
        body = inline_simple_helpers(m.node, _resolve).body
        attach = [(i, st) for i, st in enumerate(body) if isinstance(st, ast.Assign)
                  and isinstance(st.targets[0], ast.Attribute)
                  and st.targets[0].attr == "graph"
                  and isinstance(st.targets[0].value, ast.Name)]
        inst = f"{cname}.{mname}"
        if len(attach) != 1:
            run.oblige("S1", inst + ":attach", False)
            run.add("S1", f"{inst}/attach", m.where,
                    f"{inst}: the loaded igraph object (which carries the link "
                    f"attributes) is not attached to the new network exactly once")
            continue
        i, st = attach[0]
        obj = st.targets[0].value.id
        g = ast.unparse(st.value)
        nxt = [s_ for s_ in body[i + 1:] if is_bump_of(s_, obj, "_mut_la")] + \
            [s_ for s_ in m.node.body if getattr(s_, "lineno", 0) > st.lineno
             and _bump_via_helper(prog, C, s_, obj, "_mut_la")]
        ok_bump = bool(nxt)
        run.oblige("S1", inst + ":bump", ok_bump, sample={"where": m.where})
        if not ok_bump:
            run.add("S1", f"{inst}/bump", f"{m.module.relpath}:{st.lineno}",
                    f"{inst} replaces `{obj}.graph` but does not bump `{obj}._mut_la`: "
                    f"link-attribute dependent measures cached during construction "
                    f"stay valid for the old (attribute-less) graph")
        # obj constructed in this function from data derived from g
        ctor = [s for s in body[:i] if isinstance(s, ast.Assign)
                and isinstance(s.targets[0], ast.Name) and s.targets[0].id == obj
                and isinstance(s.value, ast.Call)]
        derived = False
        if ctor:
            deps = {}
            for s in body[:i]:
                if isinstance(s, ast.Assign) and isinstance(s.targets[0], ast.Name):
                    deps[s.targets[0].id] = _dotted_names(s.value)
                elif isinstance(s, ast.If):
                    for s2 in ast.walk(s):
                        if isinstance(s2, ast.Assign) and \
                                isinstance(s2.targets[0], ast.Name):
                            deps.setdefault(s2.targets[0].id, set()).update(
                                _dotted_names(s2.value))
            seen, work = set(), list(_dotted_names(ctor[-1].value))
            while work:
                x = work.pop()
                if x in seen:
                    continue
                seen.add(x)
                work.extend(deps.get(x, ()))
            derived = g in seen
        run.oblige("S1", inst + ":same-graph", derived, sample={"graph": g})
        if not derived:
            run.add("S1", f"{inst}/same-graph", f"{m.module.relpath}:{st.lineno}",
                    f"{inst} attaches `{g}` to a network that was not constructed from "
                    f"that graph's own adjacency/edge list: adjacency and embedded "
                    f"graph may disagree")


def s2(run: Run, prog: Program):
    """Copy completeness (A + directed, node weights, link attributes)."""
    for cname, mname in COPIES:
        C = prog.classes.get(cname)
        m = C.methods.get(mname) if C else None
        if m is None:
            raise AnalysisError(f"{cname}.{mname} vanished")
        inst = f"{cname}.{mname}"
        # a shared private constructor helper (with optional parameters) is
        # analysed as the statements it stands for
        import copy as _copy
        from .idioms import inline_simple_helpers, resolve_default_idiom, inline_locals

        def _res(hn, _C=C):
            h = prog.lookup(_C, hn)
            return h.node if h is not None and hn.startswith("_") and \
                not hn.startswith("__") else None
        m = _copy.copy(m)
        from .idioms import expand_kwargs
        m.node = resolve_default_idiom(inline_simple_helpers(
            expand_kwargs(m.node, _res), _res))
        ctors = [c for c in ast.walk(m.node) if isinstance(c, ast.Call)
                 and isinstance(c.func, ast.Name) and c.func.id in prog.classes
                 and prog.is_subclass(prog.classes[c.func.id], "Network")]
        if len(ctors) != 1:
            raise AnalysisError(f"{m.where}: expected one constructor call in {inst}")
        kw = {k.arg: ast.unparse(inline_locals(m.node, k.value) if
                                 isinstance(k.value, ast.Name) and
                                 k.value.id.startswith("_h") else k.value)
              for k in ctors[0].keywords if k.arg}
        # A
        a = kw.get("adjacency", "")
        defs = {ast.unparse(s.targets[0]): ast.unparse(s.value)
                for s in ast.walk(m.node) if isinstance(s, ast.Assign)
                and len(s.targets) == 1}
        chain = a + " " + " ".join(v for k, v in defs.items())
        ok_a = any(x in chain for x in ("self.sp_A", "self.adjacency",
                                        "self.undirected_adjacency()",
                                        "self.internal_adjacency("))
        run.oblige("S2", inst + ":adjacency", ok_a, sample={"adjacency": a})
        if not ok_a:
            run.add("S2", f"{inst}/adjacency", m.where,
                    f"{inst} does not build the copy from this network's adjacency "
                    f"(`adjacency={a}`)")
        # directed
        d = kw.get("directed")
        want = "False" if mname == "undirected_copy" else "self.directed"
        ok_d = d == want
        run.oblige("S2", inst + ":directed", ok_d, sample={"directed": d})
        if not ok_d:
            run.add("S2", f"{inst}/directed", m.where,
                    f"{inst} passes directed={d} (expected {want}): the copy of a "
                    f"directed network silently becomes undirected (default) or vice "
                    f"versa")
        # node weights
        w = kw.get("node_weights", "")
        wchain = w + " " + defs.get(w, "") + " " + " ".join(
            v for k, v in defs.items() if k.split("[")[0] == w)
        ok_w = "self.node_weights" in wchain or any(
            "self.node_weights" in v for k, v in defs.items() if k in wchain.split())
        if not ok_w:
            # e.g. N, A, w = self.N, self.sp_A, self.node_weights
            ok_w = any("self.node_weights" in v and w and (w in k or
                       any(t.strip("() ") in w for t in k.split(",")))
                       for k, v in defs.items())
            if not ok_w and w:
                ok_w = any("self.node_weights" in v for v in defs.values())
        run.oblige("S2", inst + ":node_weights", ok_w, sample={"node_weights": w})
        if not ok_w:
            run.add("S2", f"{inst}/node_weights", m.where,
                    f"{inst} does not transfer the node weights (node_weights={w!r}): "
                    f"the copy falls back to unit weights")
        # link attributes
        src = ast.unparse(m.node)
        ok_l = "graph.es.attributes()" in src and "set_link_attribute(" in src
        run.oblige("S2", inst + ":link_attributes", ok_l)
        if not ok_l:
            run.add("S2", f"{inst}/link_attributes", m.where,
                    f"{inst} does not transfer link attributes: the copy has the same "
                    f"links but none of their weights, so every link-attribute based "
                    f"measure differs from (or fails on) the copy")


def _may_end_stale(tree, start_stale, attach, invalidate):
    """Typestate over an effect tree: can a normal exit be reached with the saved
    attribute stale?  attach(ev) makes it fresh, invalidate(ev) stale."""
    memo = {}

    def T(n, st):
        key = (id(n), st)
        if key in memo:
            return memo[key]
        k = n[0]
        if k == "ev":
            e = n[1]
            out = {("N", False if attach(e) else True if invalidate(e) else st)}
        elif k == "ret":
            out = {("R", st)}
        elif k == "raise":
            out = set()
        elif k == "seq":
            cur = {("N", st)}
            for c in n[1]:
                new = set()
                for (status, s2) in cur:
                    if status != "N":
                        new.add((status, s2))
                    else:
                        new |= T(c, s2)
                cur = new
            out = cur
        elif k == "alt":
            out = set()
            for c in n[1]:
                out |= T(c, st)
        elif k == "loop":
            out = {("N", st)}
            seen = {st}
            work = [st]
            while work:
                s0 = work.pop()
                for (status, s2) in T(n[1], s0):
                    out.add((status, s2))
                    if status == "N" and s2 not in seen:
                        seen.add(s2)
                        work.append(s2)
        elif k == "call":
            out = {("N" if status == "R" else status, s2) for (status, s2) in T(n[2], st)}
        else:
            out = {("N", st)}
        memo[key] = frozenset(out)
        return memo[key]
    return any(s2 for (_, s2) in T(tree, start_stale))


def s3_fresh(run: Run, prog: Program, net, sv):
    """The vertex attribute that carries the node weights into the file is fresh
    at every file write: either save() attaches it itself on every path before
    writing, or every activation that rebuilds the graph / replaces the weights
    re-attaches it before it returns."""
    from .pymodel import iter_events

    def attach(e):
        return e.kind == "write" and e.cell == "graph.vs" and \
            e.info.get("how") in ("set_attribute_values", "item-store", "setitem")

    def invalidate(e):
        return (e.kind == "write" and e.cell == "graph" and e.info.get("how") == "rebind") \
            or (e.kind in ("write", "assign") and e.cell == "_node_weights")
    # (A) save() itself attaches the attribute (conditions on the *existence* of
    #     node weights are fine; conditions on the graph's state are judged by
    #     the unconditional-write obligation below)
    save_attaches = any(isinstance(c, ast.Call) and isinstance(c.func, ast.Attribute)
                        and c.func.attr == "set_attribute_values"
                        for c in ast.walk(sv.node))
    if not save_attaches:
        # ... or through a private helper it calls (effect tree, callees inlined)
        try:
            save_attaches = any(attach(e) for e in iter_events(prog.tree(sv, net, {})))
        except AnalysisError:
            pass
    run.oblige("S3", "Network.save:attaches-node-weights", True, nontrivial=False,
               sample={"save_attaches_on_every_path": save_attaches})
    if save_attaches:
        return
    # (B) otherwise every activation must leave the attribute fresh
    n = 0
    reported = {}
    for C in [c for c in prog.classes.values() if net in c.mro]:
        for name, f in sorted(prog.all_methods(C).items()):
            if f.kind not in ("method", "setter") or (name.startswith("_") and
                                                      name != "__init__"):
                continue
            tr = prog.tree(f, C, {})
            inv = [e for e in iter_events(tr) if invalidate(e)]
            if not inv:
                continue
            n += 1
            bad = _may_end_stale(tr, False, attach, invalidate)
            run.oblige("S3", f"{C.name}.{name}:keeps-saved-weights-fresh", not bad)
            if bad:
                for e in inv:
                    reported.setdefault(e.func.qualname, (e, f"{C.name}.{name}"))
    for w, (e, entry) in sorted(reported.items()):
        run.add("S3", f"{w}/stale-saved-weights", e.where,
                f"save() no longer attaches the node weights itself, and {w} "
                f"({'rebuilds the graph' if e.cell == 'graph' else 'replaces the node weights'}"
                f", reached e.g. from {entry}) does not re-attach the vertex attribute "
                f"before returning: a later save() writes a file without (or with "
                f"outdated) node weights")


def _inlined_setter(prog, net):
    """Network.adjacency's setter with its private helpers inlined (a copy of the
    FuncInfo whose node is the statements the setter stands for)."""
    import copy as _copy
    from .idioms import inline_simple_helpers
    st_ = net.props["adjacency"]["set"]

    def _res(name):
        h = prog.lookup(net, name)
        return h.node if h is not None and name.startswith("_") and \
            not name.startswith("__") else None
    node = inline_simple_helpers(st_.node, _res)
    if ast.dump(node) == ast.dump(st_.node):
        return st_
    out = _copy.copy(st_)
    out.node = node
    return out


def s3(run: Run, prog: Program):
    """Writer/reader tables agree."""
    consts = []
    unreadable = []
    netcls = prog.classes.get("Network")
    from .idioms import inline_simple_helpers
    for f in prog.functions():
        # the writer may live anywhere in Network; readers are the loaders
        if f.name not in ("save", "Load", "FromIGraph") and not (
                f.cls is not None and netcls is not None and f.cls is netcls):
            continue
        fnode = f.node
        if f.cls is not None and f.name in ("save", "Load", "FromIGraph"):
            # private helpers of the loader's class stand for their statements
            def _res(name, _C=f.cls):
                h = prog.lookup(_C, name)
                return h.node if h is not None and name.startswith("_") and \
                    not name.startswith("__") else None
            fnode = inline_simple_helpers(f.node, _res)
        # loop variables over constant tuples of names:  for key in (A, "b"): ...
        loopvals = {}
        for l in ast.walk(fnode):
            if isinstance(l, ast.For) and isinstance(l.target, ast.Name) and \
                    isinstance(l.iter, (ast.Tuple, ast.List)):
                loopvals[l.target.id] = l.iter.elts

        def names_of(e, _f=f, _lv=loopvals, depth=0):
            """The string(s) an attribute-name expression stands for: a literal, a
            module/class level string constant, a loop variable over such."""
            if isinstance(e, ast.Constant) and isinstance(e.value, str):
                return (e.value,)
            if isinstance(e, ast.Name) and e.id in _lv and depth < 2:
                out = ()
                for x in _lv[e.id]:
                    r = names_of(x, _f, _lv, depth + 1)
                    if r is None:
                        return None
                    out += r
                return out
            if isinstance(e, ast.Name) and e.id in _f.defaults():
                # a parameter with a string default that no call in the package
                # overrides
                d = _f.defaults()[e.id]
                pos = _f.params.index(e.id) if e.id in _f.params else None
                overridden = False
                for g in prog.functions():
                    for c_ in ast.walk(g.node):
                        if isinstance(c_, ast.Call) and (
                                (isinstance(c_.func, ast.Attribute) and
                                 c_.func.attr == _f.name) or
                                (isinstance(c_.func, ast.Name) and c_.func.id == _f.name)):
                            if any(k.arg == e.id for k in c_.keywords) or (
                                    pos is not None and len(c_.args) > pos - (
                                        1 if _f.kind == "method" else 0)):
                                overridden = True
                if isinstance(d, ast.Constant) and isinstance(d.value, str) and \
                        not overridden:
                    return (d.value,)
            if isinstance(e, ast.Name):
                r = prog.resolve_name(_f.module, e.id)
                if r and r[0] == "value" and isinstance(r[1], ast.Constant) and \
                        isinstance(r[1].value, str):
                    return (r[1].value,)
            if isinstance(e, ast.Attribute) and isinstance(e.value, ast.Name):
                # Class.CONST / self.CONST
                for C_ in prog.classes.values():
                    if e.value.id in (C_.name, "self", "cls") and (
                            e.value.id == C_.name or (_f.cls is not None and
                                                      C_ in _f.cls.mro)):
                        for st in C_.node.body:
                            if isinstance(st, ast.Assign) and any(
                                    isinstance(t, ast.Name) and t.id == e.attr
                                    for t in st.targets) and \
                                    isinstance(st.value, ast.Constant) and \
                                    isinstance(st.value.value, str):
                                return (st.value.value,)
            return None
        for c in ast.walk(fnode):
            if isinstance(c, ast.Call) and isinstance(c.func, ast.Attribute) and \
                    c.func.attr == "set_attribute_values" and c.args and \
                    ".vs" in ast.unparse(c.func.value) and names_of(c.args[0]) is None \
                    and f.cls is not None and prog.is_subclass(f.cls, "Network"):
                unreadable.append(c)
            if isinstance(c, ast.Call) and isinstance(c.func, ast.Attribute) and \
                    c.func.attr in ("set_attribute_values", "get_attribute_values") \
                    and c.args and names_of(c.args[0]) is not None:
                consts.append((f, c.func.attr, names_of(c.args[0]), c.lineno))
            if isinstance(c, ast.Compare) and isinstance(c.ops[0], (ast.In, ast.NotIn)) \
                    and names_of(c.left) is not None and \
                    "attribute_names()" in ast.unparse(c.comparators[0]):
                consts.append((f, "in", names_of(c.left), c.lineno))
    run.floor("S3 attribute-name sites", len(consts), 4)
    written = {x for f, k, v, _ in consts if k == "set_attribute_values" for x in v}
    # attribute names that are computed (a table of (attribute, property) pairs
    # driving save and the loaders) are not read: the name agreement, the
    # loaders' test-and-read and save's write condition are then not decided
    if len(written) != 1 and not unreadable:
        raise AnalysisError(f"Network writes vertex attributes {written}: expected the "
                            f"one node-weight attribute")

    def _name_part(name):
        # S8: a GML key is alphanumeric; igraph's GML writer drops every other
        # character of an attribute name, so a name with an underscore comes back
        # under another name - the readers must accept that one as well
        gml = re.sub(r"[^A-Za-z0-9]", "", name)
        readers = [(f, k, vs, ln) for f, k, vs, ln in consts if k in ("in", "get_attribute_values")]
        ok8 = gml == name or (readers and all(gml in vs for _, _, vs, _ in readers))
        run.oblige("S8", f"Network.save:gml-key:{name}", ok8, sample={
            "stored_as": name, "in_a_gml_file": gml})
        if not ok8:
            w8 = next((ln for f, k, vs, ln in consts if k == "set_attribute_values"), 0)
            run.add("S8", f"Network.save/gml-key/{name}",
                    f"src/pyunicorn/core/network.py:{w8}",
                    f"save() stores the node weights as vertex attribute '{name}'; in a "
                    f"GML file (a format the property lists) keys are alphanumeric and "
                    f"the attribute is written as '{gml}', which no loader looks for: "
                    f"node weights are lost on a GML round trip (all ones after Load)")
        for f, k, vs, ln in consts:
            # a reader may accept several names (older files): the stored one is among them
            ok = name in vs
            v = "/".join(vs)
            run.oblige("S3", f"{f.qualname}:{k}@{ln}", ok, sample={"name": v})
            if not ok:
                run.add("S3", f"{f.qualname}/attribute-name/{v}", f"{f.module.relpath}:{ln}",
                        f"{f.qualname} looks for the vertex attribute '{v}' but save() "
                        f"stores node weights as '{name}': saved node weights are never "
                        f"found again")
        # each loader tests and then reads the attribute
        def closure(m):
            """m and the private helpers it calls (obj._h(...), Cls._h(...), _h(...)),
            transitively: a loader may delegate the test-and-read to one helper"""
            seen, work = [m], [m]
            while work:
                g = work.pop()
                for c in ast.walk(g.node):
                    if not isinstance(c, ast.Call):
                        continue
                    nm = c.func.attr if isinstance(c.func, ast.Attribute) else \
                        c.func.id if isinstance(c.func, ast.Name) else ""
                    if not nm.startswith("_") or nm.startswith("__"):
                        continue
                    for C_ in ([m.cls] if m.cls is not None else []):
                        h = prog.lookup(C_, nm)
                        if h is not None and h not in seen:
                            seen.append(h)
                            work.append(h)
            return seen
        for cname, mname in LOADERS:
            m = prog.classes[cname].methods[mname]
            cl = closure(m)
            kinds = {k for f, k, v, _ in consts if any(f is g for g in cl)}
            ok = {"in", "get_attribute_values"} <= kinds
            run.oblige("S3", f"{cname}.{mname}:restores-node-weights", ok)
            if not ok:
                run.add("S3", f"{cname}.{mname}/node-weights", m.where,
                        f"{cname}.{mname} does not restore the saved node weights")
        # save(): the node weights are written whenever they exist
        net = prog.classes["Network"]
        sv = net.methods["save"]
        s3_fresh(run, prog, net, sv)
        for c in ast.walk(sv.node):
            if isinstance(c, ast.Call) and isinstance(c.func, ast.Attribute) and \
                    c.func.attr == "set_attribute_values":
                conds = []
                from .idioms import inline_locals
                for st in ast.walk(sv.node):
                    if isinstance(st, ast.If) and any(x is c for b_ in st.body
                                                      for x in ast.walk(b_)):
                        t_ = inline_locals(sv.node, st.test)
                        parts = t_.values if isinstance(t_, ast.BoolOp) and \
                            isinstance(t_.op, ast.And) else [t_]
                        conds.extend(ast.unparse(p_) for p_ in parts)
                # the only admissible condition is "there are node weights": anything
                # else (the graph already carries the attribute, the weights are all
                # one, ...) leaves an older attribute value in the file
                bad = [x for x in conds if not re.fullmatch(
                    r"(self\.)?_?node_weights is not None", x)]
                ok = not bad
                run.oblige("S3", "Network.save:unconditional-write", ok, sample={
                    "conditions": conds})
                if not ok:
                    run.add("S3", "Network.save/conditional-write",
                            f"{sv.module.relpath}:{c.lineno}",
                            f"Network.save writes the node weights only if {bad}: a graph "
                            f"that already carries the attribute (loaded or saved before) "
                            f"keeps the *old* weights in the file")

    net = prog.classes["Network"]
    if len(written) == 1 and not unreadable:
        _name_part(next(iter(written)))
    else:
        run.unknowns.append("S3: vertex attribute names are computed at "
                            f"{unreadable[0].lineno if unreadable else '?'} (table-driven "
                            "persistence); the agreement of save() and the loaders on "
                            "the node-weight attribute is not decided")
    # undirected bookkeeping (private helpers of the setter stand for their code)
    st_ = _inlined_setter(prog, net)
    def _halves_links(n):
        # self.n_links //= 2   |   self.n_links = <count> // 2
        if isinstance(n, ast.AugAssign) and isinstance(n.op, ast.FloorDiv) and \
                "n_links" in ast.unparse(n.target) and ast.unparse(n.value) == "2":
            return True
        return isinstance(n, ast.Assign) and "n_links" in ast.unparse(n.targets[0]) and \
            isinstance(n.value, ast.BinOp) and isinstance(n.value.op, ast.FloorDiv) and \
            ast.unparse(n.value.right) == "2"
    sn_ = st_.params[0]
    ok = False
    for i in ast.walk(st_.node):
        if isinstance(i, ast.If):
            if negated_flag(i.test, (f"{sn_}.directed",)) and any(_halves_links(h) for h in i.body):
                ok = True
            if ast.unparse(i.test) == f"{sn_}.directed" and any(_halves_links(h)
                                                                 for h in i.orelse):
                ok = True
    run.oblige("S3", "adjacency.setter:halve-links", ok)
    if not ok:
        run.add("S3", "Network.adjacency.setter/halve", st_.where,
                "the link count must be halved exactly when the network is undirected")
    def _symmetrises_when_undirected(fnode, params, flags0):
        flags = set(flags0) | {p_ for p_ in params if p_ == "directed"}
        for a_ in ast.walk(fnode):
            if isinstance(a_, ast.Assign) and isinstance(a_.targets[0], ast.Name) and any(
                    (isinstance(x, ast.Attribute) and x.attr in ("directed", "is_directed"))
                    for x in ast.walk(a_.value)):
                flags.add(a_.targets[0].id)
        for i in ast.walk(fnode):
            if isinstance(i, ast.If) and negated_flag(i.test, flags) \
                    and any(mirrors_edge_list(s_, fnode) for s_ in i.body):
                return True
            if isinstance(i, ast.If) and ast.unparse(i.test) in flags \
                    and any(mirrors_edge_list(s_, fnode) for s_ in i.orelse):
                return True
        return False

    for fn, flags in ((net.methods["set_edge_list"], ("self.directed",)),
                      (net.methods["FromIGraph"], ("directed",))):
        ok = _symmetrises_when_undirected(fn.node, fn.params, flags)
        if not ok:
            # the block may live in a private helper of Network that fn calls
            for c in ast.walk(fn.node):
                if isinstance(c, ast.Call) and isinstance(c.func, ast.Attribute) and \
                        isinstance(c.func.value, ast.Name) and \
                        c.func.value.id in (fn.params[0] if fn.params else "self",
                                            "self", "cls", "Network"):
                    h = prog.lookup(net, c.func.attr)
                    if h is not None and h is not fn and \
                            _symmetrises_when_undirected(h.node, h.params, ()):
                        # the helper must be told the directedness of this network
                        passed = [ast.unparse(a_) for a_ in c.args] + \
                            [ast.unparse(k.value) for k in c.keywords]
                        if any(p_.endswith("directed") or p_ in flags for p_ in passed):
                            ok = True
                # ... or in a module-level helper called by its bare name
                elif isinstance(c, ast.Call) and isinstance(c.func, ast.Name):
                    r_ = prog.resolve_name(fn.module, c.func.id)
                    h = r_[1] if r_ and r_[0] == "func" else None
                    if h is not None and c.func.id.startswith("_") and \
                            _symmetrises_when_undirected(h.node, h.params, ()):
                        passed = [ast.unparse(a_) for a_ in c.args] + \
                            [ast.unparse(k.value) for k in c.keywords]
                        if any(p_.endswith("directed") or p_ in flags for p_ in passed):
                            ok = True
        if not ok and fn.name != "set_edge_list":
            # delegation: the topology goes to the edge-list constructor
            # (`Network(edge_list=..., directed=<the graph's flag>)`), whose own
            # mirroring is the other instance of this rule
            from .idioms import expand_kwargs
            fx = expand_kwargs(fn.node)
            for c in ast.walk(fx):
                if isinstance(c, ast.Call) and isinstance(c.func, ast.Name) and \
                        c.func.id in prog.classes and \
                        prog.is_subclass(prog.classes[c.func.id], "Network"):
                    kws = {k.arg: k.value for k in c.keywords if k.arg}
                    if "edge_list" in kws and "adjacency" not in kws and \
                            "directed" in kws and (
                                "directed" in ast.unparse(kws["directed"]) or
                                ast.unparse(kws["directed"]) in flags or any(
                                    isinstance(a_, ast.Assign) and
                                    isinstance(a_.targets[0], ast.Name) and
                                    a_.targets[0].id == ast.unparse(kws["directed"]) and
                                    "directed" in ast.unparse(a_.value)
                                    for a_ in ast.walk(fx))):
                        ok = True
        run.oblige("S3", f"{fn.qualname}:symmetrise", ok)
        if not ok:
            run.add("S3", f"{fn.qualname}/symmetrise", fn.where,
                    f"{fn.qualname} must mirror the edge list exactly when the network "
                    f"is undirected")


def s4(run: Run, prog: Program):
    """Loaders/copies construct a complete object: no cell is read before it is
    written in the constructor activation with the call-site constants."""
    n = 0
    for cname, mname in LOADERS + COPIES + [("Network", "Load")]:
        m = prog.classes[cname].methods.get(mname)
        if m is None:
            continue
        from .pymodel import _Builder, const_of, UNKNOWN, _HASHABLE_CONST
        for c in ast.walk(m.node):
            if not (isinstance(c, ast.Call) and isinstance(c.func, ast.Name)
                    and c.func.id in prog.classes
                    and prog.is_subclass(prog.classes[c.func.id], "Network")):
                continue
            K = prog.classes[c.func.id]
            init = prog.lookup(K, "__init__")
            if init is None:
                continue
            b = _Builder(prog, m, None, {}, False)
            env = b.call_env(init, c.args, c.keywords)
            t = prog.tree(init, K, env, reinit=False)
            n += 1
            classlevel = set()
            for base in K.mro:
                classlevel |= set(base.methods) | set(base.props)
                for st in base.node.body:
                    if isinstance(st, ast.Assign):
                        classlevel |= {x.id for x in st.targets if isinstance(x, ast.Name)}
                    elif isinstance(st, ast.AnnAssign) and st.value is not None and \
                            isinstance(st.target, ast.Name):
                        classlevel.add(st.target.id)
            bad = _use_before_def(t, classlevel)
            inst = f"{cname}.{mname}->{K.name}({', '.join(f'{k}={v!r}' for k, v in sorted(env.items()))})"
            run.oblige("S4", inst, not bad, sample={
                "where": f"{m.module.relpath}:{c.lineno}", "constants": {
                    k: repr(v) for k, v in env.items()}})
            for e in bad[:1]:
                run.add("S4", f"{cname}.{mname}/{K.name}/{e.cell}",
                        f"{m.module.relpath}:{c.lineno}",
                        f"{cname}.{mname} constructs {K.name}(...) with "
                        f"{ {k: v for k, v in env.items() if v is None} }; on that path "
                        f"{e.func.qualname} reads `{e.cell}` ({e.where}) before "
                        f"anything assigned it: AttributeError, the loader cannot work")
    run.floor("S4 constructor activations", n, 8)


def _use_before_def(t, classlevel):
    bad = []

    def go(n, written):
        k = n[0]
        if k == "ev":
            e = n[1]
            if e.kind in ("write", "assign", "bump"):
                c = e.cell
                w = written | {c}
                if c == "graph":
                    w |= {"graph.es", "graph.vs"}
                return w, 0
            if e.kind == "read":
                c = e.cell
                if c not in written and c not in classlevel and \
                        not e.info.get("getattr_default") and \
                        c.split(".")[0] not in written:
                    if not any(b.cell == c for b in bad):
                        bad.append(e)
            return written, 0
        if k == "ret":
            return written, 1
        if k == "raise":
            return written, 2
        if k == "seq":
            w = written
            for c in n[1]:
                w, st = go(c, w)
                if st:
                    return w, st
            return w, 0
        if k == "alt":
            res = None
            stat = []
            for c in n[1]:
                w, st = go(c, written)
                stat.append(st)
                if st != 2:
                    res = w if res is None else (res & w)
            if res is None:
                return written, 2
            return res, (0 if any(s == 0 for s in stat) else 1)
        if k == "loop":
            go(n[1], written)
            return written, 0
        if k == "call":
            w, st = go(n[2], written)
            if n[1].func.cached:
                return written & w if st != 2 else written, 0
            return w, (2 if st == 2 else 0)
        return written, 0
    go(t, frozenset())
    return bad


def s5(run: Run, prog: Program):
    """adjacency.setter: link count and embedded graph come from the same
    edge enumeration."""
    st_ = _inlined_setter(prog, prog.classes["Network"])
    nl = [s for s in st_.node.body if isinstance(s, ast.Assign)
          and ast.unparse(s.targets[0]) == "self.n_links"]
    gr = [s for s in st_.node.body if isinstance(s, ast.Assign)
          and ast.unparse(s.targets[0]) == "self.graph"]
    if len(nl) != 1 or len(gr) != 1:
        raise AnalysisError(f"{st_.where}: n_links / graph assignment not found")
    from .idioms import inline_locals
    a = _dotted_names(inline_locals(st_.node, nl[0].value))
    b = set()
    gval = inline_locals(st_.node, gr[0].value)      # self.graph = <local> is fine
    for k in gval.keywords if isinstance(gval, ast.Call) else []:
        if k.arg == "edges":
            b = _dotted_names(inline_locals(st_.node, k.value))
    common = (a & b) - {"list", "len", "np", "self"}
    ok = bool(common)
    run.oblige("S5", "adjacency.setter:same-edge-enumeration", ok, sample={
        "n_links_from": ast.unparse(nl[0].value),
        "graph_edges_from": ast.unparse(gr[0].value)[:80]})
    if not ok:
        run.add("S5", "Network.adjacency.setter/edge-source", st_.where,
                f"n_links is computed from `{ast.unparse(nl[0].value)}` while the "
                f"embedded graph is built from another enumeration of the links: "
                f"inputs for which the two differ (e.g. explicitly stored zeros of a "
                f"sparse matrix) make link count / density disagree with adjacency and "
                f"graph")
    ld = [s for s in st_.node.body if isinstance(s, ast.Assign)
          and ast.unparse(s.targets[0]) == "self.link_density"]
    cnt_src = ast.unparse(inline_locals(st_.node, nl[0].value))
    ok = len(ld) == 1 and (
        ("self.n_links" in ast.unparse(ld[0].value) and
         st_.node.body.index(ld[0]) > st_.node.body.index(nl[0])) or
        cnt_src in ast.unparse(inline_locals(st_.node, ld[0].value)))
    run.oblige("S5", "adjacency.setter:density-from-count", ok)
    if not ok:
        run.add("S5", "Network.adjacency.setter/density", st_.where,
                "link_density must be derived from the link count just computed")


def _edge_index_pair(sl, v, binds):
    """Canonical (row, col) of a store index in a loop over edges `v`:
    ('0','1') for [source, target] and ('1','0') for the mirrored cell, whatever
    the spelling (e.tuple, e.tuple[::-1], (e.tuple[1], e.tuple[0]), e.source /
    e.target, locals unpacked from e.tuple)."""
    def end(x):
        t = ast.unparse(x).replace(" ", "")
        t = binds.get(t, t)
        if t in (f"{v}.tuple[0]", f"{v}.source"):
            return "0"
        if t in (f"{v}.tuple[1]", f"{v}.target"):
            return "1"
        return None
    t = ast.unparse(sl).replace(" ", "")
    if t == f"{v}.tuple":
        return ("0", "1")
    if t == f"{v}.tuple[::-1]":
        return ("1", "0")
    if isinstance(sl, ast.Tuple) and len(sl.elts) == 2:
        a_, b_ = end(sl.elts[0]), end(sl.elts[1])
        if a_ and b_:
            return (a_, b_)
    return None


def s6(run: Run, prog: Program):
    """Undirected link-attribute matrices are filled by mirrored stores of the
    same value."""
    from .idioms import inline_locals
    n = 0
    for cname, mname in (("Network", "link_attribute"),
                         ("InteractingNetworks", "internal_link_attribute")):
        m = prog.classes[cname].methods.get(mname)
        if m is None:
            raise AnalysisError(f"{cname}.{mname} vanished")
        # a fill loop factored into a private helper is analysed in place
        import copy as _copy
        from .idioms import inline_simple_helpers

        def _res(hn, _C=prog.classes[cname]):
            h = prog.lookup(_C, hn)
            return h.node if h is not None and hn.startswith("_") and \
                not hn.startswith("__") else None
        m = _copy.copy(m)
        m.node = inline_simple_helpers(m.node, _res)
        loops = [l for l in ast.walk(m.node) if isinstance(l, ast.For)
                 and ast.unparse(l.iter).endswith(".es")]
        mirrored = False
        for l in loops:
            v = l.target.id if isinstance(l.target, ast.Name) else "e"
            # locals unpacked from the edge:  a, b = e.tuple  /  a = e.source
            binds = {}
            vals = {}
            for st in ast.walk(l):
                if isinstance(st, ast.Assign) and len(st.targets) == 1:
                    t, val = st.targets[0], st.value
                    if isinstance(t, ast.Tuple) and len(t.elts) == 2 and \
                            ast.unparse(val).replace(" ", "") == f"{v}.tuple" and \
                            all(isinstance(x, ast.Name) for x in t.elts):
                        binds[t.elts[0].id] = f"{v}.tuple[0]"
                        binds[t.elts[1].id] = f"{v}.tuple[1]"
                    elif isinstance(t, ast.Name):
                        txt = ast.unparse(val).replace(" ", "")
                        if txt in (f"{v}.tuple[0]", f"{v}.tuple[1]", f"{v}.source",
                                   f"{v}.target"):
                            binds[t.id] = txt
                        else:
                            vals[t.id] = ast.unparse(val)
            stores = [s_ for s_ in ast.walk(l) if isinstance(s_, ast.Assign)
                      and isinstance(s_.targets[0], ast.Subscript)]
            for i, a_ in enumerate(stores):
                for b_ in stores[i + 1:]:
                    va, vb = ast.unparse(a_.value), ast.unparse(b_.value)
                    if vals.get(va, va) != vals.get(vb, vb) or \
                            ast.unparse(a_.targets[0].value) != \
                            ast.unparse(b_.targets[0].value):
                        continue
                    pa = _edge_index_pair(a_.targets[0].slice, v, binds)
                    pb = _edge_index_pair(b_.targets[0].slice, v, binds)
                    if pa and pb and pa == (pb[1], pb[0]) and pa[0] != pa[1]:
                        mirrored = True
        n += 1
        run.oblige("S6", f"{cname}.{mname}", mirrored, sample={"where": m.where})
        if not mirrored:
            run.add("S6", f"{cname}.{mname}/mirror", m.where,
                    f"{cname}.{mname}: for undirected networks the attribute of a link "
                    f"must be stored at [i,j] and [j,i] by two stores of the same value; "
                    f"symmetrising afterwards by a value-dependent combination (max/min/"
                    f"sum) changes signed or zero attributes")
    run.floor("S6 builders", n, 2)


def s7(run: Run, prog: Program):
    """Edge arrays are two-dimensional for every link count.  `np.array(pairs)`
    has shape (E, 2) only for E > 0; for an edgeless network it has shape (0,),
    and the column selections `edges[:, [1, 0]]` / `edges.T[0]` that build the
    adjacency then raise.  A function that column-indexes such an array must
    first make it (E, 2) for E = 0 as well (reshape(-1, 2), ndmin=2 with a
    transposition-safe form, or an explicit empty-case branch)."""
    net = prog.classes.get("Network")
    if net is None:
        raise AnalysisError("class Network vanished")
    n = 0
    for mname, m in sorted(net.methods.items()):
        made = {}
        for st in ast.walk(m.node):
            if isinstance(st, ast.Assign) and len(st.targets) == 1 and \
                    isinstance(st.targets[0], ast.Name) and isinstance(st.value, ast.Call) \
                    and ast.unparse(st.value.func) in ("np.array", "np.asarray",
                                                       "numpy.array") and st.value.args:
                a0 = ast.unparse(st.value.args[0])
                if "get_edgelist()" in a0 or "edge_list" in a0 or "edgelist" in a0:
                    made[st.targets[0].id] = st
        for name, st in sorted(made.items()):
            cols = [x for x in ast.walk(m.node)
                    if isinstance(x, ast.Subscript) and isinstance(x.value, ast.Name)
                    and x.value.id == name and isinstance(x.slice, ast.Tuple)
                    and len(x.slice.elts) == 2 and x.lineno > st.lineno]
            if not cols:
                continue
            n += 1
            src = ast.unparse(m.node)
            shaped = bool(re.search(
                r"\b%s\s*=\s*.*reshape\(\s*\(?\s*-1\s*,\s*2" % re.escape(name), src)) or \
                "reshape(-1, 2)" in ast.unparse(st.value) or \
                "reshape((-1, 2))" in ast.unparse(st.value) or \
                bool(re.search(r"\b%s\.(size|shape\[0\])\s*==\s*0|len\(%s\)\s*==\s*0|"
                               r"not\s+len\(%s\)" % ((re.escape(name),) * 3), src))
            run.oblige("S7", f"{m.qualname}:{name}", shaped, sample={
                "where": f"{m.module.relpath}:{st.lineno}", "made_by": ast.unparse(st.value),
                "column_indexed_at": cols[0].lineno})
            if not shaped:
                run.add("S7", f"{m.qualname}/edge-array-rank/{name}",
                        f"{m.module.relpath}:{cols[0].lineno}",
                        f"{m.qualname} builds `{name} = {ast.unparse(st.value)}` and "
                        f"selects columns with `{ast.unparse(cols[0])}`: for a network "
                        f"without links the array has shape (0,), not (0, 2), and the "
                        f"selection raises IndexError - edgeless networks cannot be "
                        f"built from an igraph object / edge list, loaded or rewired")
    run.floor("S7 edge arrays that are column-indexed", n, 2)


def check(run: Run, prog: Program):
    run.rule("S7", "edge arrays built from an edge list are (E, 2) for E = 0 too before "
             "their columns are selected")
    run.rule("S1", "the primary state groups are written only through their setters; "
             "loaders attach the loaded graph to an object built from it and bump the "
             "link-attribute counter")
    run.rule("S2", "copy-like constructors transfer adjacency+directedness, node "
             "weights and link attributes")
    run.rule("S8", "the vertex attribute that carries the node weights keeps its name in "
             "every listed file format (GML keys are alphanumeric)")
    run.rule("S3", "save and the loaders agree on the stored attribute names and on "
             "the undirected bookkeeping")
    run.rule("S4", "loaders/copies call constructors in a way that yields a complete "
             "object (definite assignment under the call-site constants)")
    run.rule("S5", "link count, density and embedded graph derive from one edge "
             "enumeration")
    run.rule("S6", "undirected link-attribute matrices are filled by mirrored stores")
    run.explanation = (
        "Structural necessary conditions of C05. What igraph's writers/readers "
        "preserve per format, degenerate edge lists and numeric equality of weights "
        "are NOT decided.")
    s1(run, prog)
    s2(run, prog)
    s3(run, prog)
    s4(run, prog)
    s5(run, prog)
    s6(run, prog)
    s7(run, prog)
