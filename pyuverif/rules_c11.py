"""C11 - cross/internal measures: structural clauses X1..X5."""
from __future__ import annotations

import ast
import re

from .pymodel import Program
from .cymodel import CyProgram, X, pp
from .kernels import report_sites
from .loopir import count_sites, resolve_role, py_stmts, quotients
from .rules_c03 import m4
from .report import Run, AnalysisError

CORE = "pyunicorn.core._ext.numerics"

# (compiled kernel, python sibling method, {counter: meaning})
SIBLINGS = [
    ("_cross_transitivity", "cross_transitivity_sparse",
     {"triangles": "counter_triangles", "triples": "counter_triples"}),
    ("_cross_local_clustering", "cross_local_clustering_sparse",
     {"counter": "counter"}),
]


def _canon(site, focal_hint=None):
    """Canonical description of a counting site: roles ranked by loop nesting
    (0 = outermost role), tested pairs as rank pairs, loop domains."""
    names = sorted({n for t in site.tests for n in t[1]})
    depth = {}
    doms = {}
    for n in names:
        src, lv, it = resolve_role(n, site)
        d = [i for i, (v, _) in enumerate(site.loops) if v == lv]
        depth[n] = d[0] if d else -1
        doms[n] = (src, pp(it) if it is not None else None)
    order = sorted(names, key=lambda n: depth[n])
    rank = {n: i for i, n in enumerate(order)}
    pairs = sorted(tuple(sorted((rank[a], rank[b]))) for (arr, (a, b), pos) in site.tests
                   if pos)
    # orientation as written: A[a, b] tests the link a -> b
    arcs = sorted({(rank[a], rank[b]) for (arr, (a, b), pos) in site.tests if pos})
    return {"roles": order, "pairs": sorted(set(pairs)), "arcs": arcs,
            "domains": [doms[n] for n in order]}


def _size_group(name, binds, lists):
    """'g1' / 'g2' when `name` is bound to len(<first / second node list>)."""
    b = binds.get(name)
    if b is None:
        return None
    t = pp(b).replace(" ", "")
    for k, l in enumerate(lists[:2]):
        if f"len({l})" in t:
            return f"g{k + 1}"
    return None


def _domain_class(dom, site, binds, lists):
    """Classify a role's loop domain: 'g1' (all of group 1), 'g2' (all of group
    2), 'g2<' (members of group 2 before the previous role), 'g2>' (after it).
    Sizes are resolved through their bindings (len(<node list k>)), loop
    variables through the loop nest: no name is assumed."""
    src, it = dom
    if it is None:
        return "?"
    it = it.replace(" ", "")
    m = re.fullmatch(r"range\((.*)\)", it)
    if not m:
        return it
    args = [a.replace("(", "").replace(")", "") for a in m.group(1).split(",")]
    loopvars = {v for v, _ in site.loops}
    g = [(_size_group(a, binds, lists) or
          ("+".join(sorted(_size_group(x, binds, lists) or x for x in a.split("+")))
           if "+" in a else None) or
          ("var" if a in loopvars else
           "var+1" if a.replace("+1", "") in loopvars and a.endswith("+1") else a))
         for a in args]
    if g == ["g1"]:
        return "g1"
    if g in (["g2"], ["g1", "g1+g2"]):
        return "g2"
    if g in (["var"], ["g1", "var"]):
        return "g2<"
    if g in (["var+1", "g2"], ["var+1", "g1+g2"]):
        return "g2>"
    return ",".join(map(str, g))


def _lists_cy(f):
    return [n for n, t in f.args if t.kind in ("buffer", "memview") and t.ndim == 1
            and t.name == "NODE_t"]


def _sites_by_quotient_role(body):
    """{'numerator': site, 'denominator': site} of the (single) quotient whose
    operands are counters incremented under adjacency tests."""
    sites = {}
    for s_ in count_sites(body):
        if s_.tests:
            sites.setdefault(s_.counter, []).append(s_)
    out = {}
    for num, den, st in quotients(body):
        if num in sites and len(sites[num]) == 1:
            out["numerator"] = sites[num][0]
            if den in sites and len(sites[den]) == 1:
                out["denominator"] = sites[den][0]
    return out


def x1(run: Run, prog: Program, cy: CyProgram):
    inw = prog.classes.get("InteractingNetworks")
    if inw is None:
        raise AnalysisError("InteractingNetworks vanished")
    for kname, pname, counters in SIBLINGS:
        kf = cy.func(CORE, kname)
        pf = inw.methods.get(pname)
        if kf is None or pf is None:
            raise AnalysisError(f"sibling pair {kname}/{pname} vanished")
        pbody = py_stmts(pf.node.body)
        # counting loops factored into cdef helpers are analysed in place
        from .loopir import inline_value_helpers, fold_subcounters, name_inline_elements
        kbody = name_inline_elements(fold_subcounters(inline_value_helpers(kf)))
        ksites = _sites_by_quotient_role(kbody)
        psites = _sites_by_quotient_role(pbody)
        kbinds = {n: v[1] for n, v in kf.locals.items() if v[1] is not None}
        klists = _lists_cy(kf)
        plists = pf.params[1:3]
        want = ["numerator"] + (["denominator"] if len(counters) > 1 else [])
        for role in want:
            kc = role
            inst = f"{kname}~{pname}:{role}"
            if role not in ksites or role not in psites:
                # one of the siblings does not count in a loop nest of its own
                # (vectorised, or delegated to a helper): the two cannot be
                # compared syntactically - no verdict
                run.unknowns.append(
                    f"X1 {kname}~{pname}: the {role} is not counted by a loop nest in "
                    f"both siblings; agreement not decided")
                continue
            a, b = _canon(ksites[kc]), _canon(psites[kc])
            kb = dict(kbinds)
            kb.update(ksites[kc].bindings)
            da = [_domain_class(d, ksites[kc], kb, klists) for d in a["domains"]]
            db = [_domain_class(d, psites[kc], psites[kc].bindings, plists)
                  for d in b["domains"]]
            ok = a["pairs"] == b["pairs"] and da == db
            run.oblige("X1", inst, ok, sample={
                "compiled": {"where": f"{kf.module.relpath}:{ksites[kc].line}",
                             "pairs": a["pairs"], "domains": da, "roles": a["roles"]},
                "sparse": {"where": f"{pf.module.relpath}:{psites[kc].line}",
                           "pairs": b["pairs"], "domains": db, "roles": b["roles"]}})
            if not ok:
                what = (f"tested link pairs {a['pairs']} vs {b['pairs']}"
                        if a["pairs"] != b["pairs"] else f"loop domains {da} vs {db}")
                run.add("X1", f"{kname}/{pname}/{role}",
                        f"{kf.module.relpath}:{ksites[kc].line}",
                        f"compiled {kname} and its `_sparse` sibling {pf.qualname} count "
                        f"the {role} under different conditions: {what} (roles ranked by "
                        f"loop nesting: 0 = node of group 1, 1/2 = nodes of group 2)")
            # same orientation of every tested link (matters on directed networks)
            if ok:
                oka = a["arcs"] == b["arcs"]
                run.oblige("X1", inst + ":orientation", oka, sample={
                    "compiled": a["arcs"], "sparse": b["arcs"]})
                if not oka:
                    run.add("X1", f"{kname}/{pname}/{role}/orientation",
                            f"{kf.module.relpath}:{ksites[kc].line}",
                            f"compiled {kname} and its `_sparse` sibling {pf.qualname} test "
                            f"the same links for the {role} but in different directions: "
                            f"arcs {a['arcs']} vs {b['arcs']} (rank -> rank; 0 = node of "
                            f"group 1): on directed networks the two variants disagree")
            # completeness of the triangle motif: 3 roles -> 3 pairs
            if role == "numerator":
                for nm, c, fn, st in ((kname, a, kf, ksites[kc]), (pname, b, pf, psites[kc])):
                    full = len(c["roles"]) == 3 and c["pairs"] == [(0, 1), (0, 2), (1, 2)]
                    run.oblige("X1", f"{nm}:{role}:triangle", full)
                    if not full:
                        run.add("X1", f"{nm}/{role}/triangle",
                                f"{fn.module.relpath}:{st.line}",
                                f"{nm} counts a triangle without testing all three "
                                f"links (tested rank pairs {c['pairs']})")


ROLE_RE = re.compile(r"^(?P<stem>.*?)(?P<role>_?[ij]|[12])$")


def _role_of(name):
    m = ROLE_RE.match(name)
    if not m or not m.group("stem"):
        return None, None
    r = m.group("role").lstrip("_")
    return m.group("stem").rstrip("_"), (1 if r in ("i", "1") else 2)


def x2(run: Run, prog: Program):
    """Role-suffix agreement."""
    n = 0
    for cname in ("InteractingNetworks",):
        C = prog.classes.get(cname)
        for f in C.methods.values():
            ps = f.params
            if "node_list1" not in ps or "node_list2" not in ps:
                continue
            deps = {"node_list1": {"node_list1"}, "node_list2": {"node_list2"}}
            assigns = []
            for st in ast.walk(f.node):
                if isinstance(st, ast.Assign) and len(st.targets) == 1 and \
                        isinstance(st.targets[0], ast.Name):
                    assigns.append(st)
                elif isinstance(st, ast.Assign) and len(st.targets) == 1 and \
                        isinstance(st.targets[0], ast.Tuple) and \
                        isinstance(st.value, ast.Tuple) and \
                        len(st.value.elts) == len(st.targets[0].elts):
                    for t, v in zip(st.targets[0].elts, st.value.elts):
                        if isinstance(t, ast.Name):
                            a = ast.Assign(targets=[t], value=v)
                            a.lineno = st.lineno
                            assigns.append(a)
            assigns.sort(key=lambda s: s.lineno)
            locs = {}
            for st in assigns:
                nm = st.targets[0].id
                used = {x.id for x in ast.walk(st.value) if isinstance(x, ast.Name)}
                d = set()
                for u in used:
                    d |= deps.get(u, set())
                deps[nm] = d
                locs.setdefault(nm, []).append((st, set(d)))
            stems = {}
            for nm in locs:
                stem, role = _role_of(nm)
                if stem is not None:
                    stems.setdefault(stem, {})[role] = nm
            for stem, roles in stems.items():
                if len(roles) != 2:
                    continue      # the naming scheme needs both partners
                for role, nm in roles.items():
                    for st, d in locs[nm]:
                        if not d:
                            continue
                        n += 1
                        own = f"node_list{role}"
                        other = f"node_list{3 - role}"
                        ok = not (d == {other})
                        run.oblige("X2", f"{f.qualname}:{nm}", ok, sample={
                            "where": f"{f.module.relpath}:{st.lineno}",
                            "depends_on": sorted(d)})
                        if not ok:
                            run.add("X2", f"{f.qualname}/{nm}",
                                    f"{f.module.relpath}:{st.lineno}",
                                    f"{f.qualname}: `{nm} = {ast.unparse(st.value)[:60]}` "
                                    f"carries the role of group {role} (partner "
                                    f"`{roles[3 - role]}`) but is computed from "
                                    f"`{other}` only")
    # coupled wrappers: suffix _12/_21/_1/_2 vs nodes_1/nodes_2
    for C in prog.classes.values():
        if not prog.is_subclass(C, "InteractingNetworks"):
            continue
        for f in C.methods.values():
            for st in ast.walk(f.node):
                if not (isinstance(st, ast.Assign) and len(st.targets) == 1 and
                        isinstance(st.targets[0], ast.Name) and
                        isinstance(st.value, ast.Call)):
                    continue
                nm = st.targets[0].id
                m = re.search(r"_(12|21|1|2)$", nm)
                if not m:
                    continue
                suf = m.group(1)
                kw = {k.arg: ast.unparse(k.value) for k in st.value.keywords if k.arg}
                pos = [ast.unparse(a) for a in st.value.args]
                sn = f.params[0] if f.params else "self"
                want = None
                got = None
                if suf in ("12", "21") and "node_list1" in kw and "node_list2" in kw:
                    a, b = (1, 2) if suf == "12" else (2, 1)
                    want = (f"{sn}.nodes_{a}", f"{sn}.nodes_{b}")
                    got = (kw["node_list1"], kw["node_list2"])
                elif suf in ("1", "2"):
                    cand = kw.get("node_list") or (pos[1] if len(pos) > 1 and
                                                   pos[0] == sn else
                                                   (pos[0] if pos else None))
                    if cand and "nodes_" in cand:
                        want = (f"{sn}.nodes_{suf}",)
                        got = (cand,)
                if want is None:
                    continue
                n += 1
                ok = want == got
                run.oblige("X2", f"{f.qualname}:{nm}", ok, sample={
                    "where": f"{f.module.relpath}:{st.lineno}", "lists": got})
                if not ok:
                    run.add("X2", f"{f.qualname}/{nm}", f"{f.module.relpath}:{st.lineno}",
                            f"{f.qualname}: `{nm}` is computed with node lists {got}, "
                            f"its suffix asks for {want}")
    # X2 reads a naming convention (…i/…j, …1/…2 partners); where the code does
    # not follow it the rule has nothing to decide - that is not an error
    if n == 0:
        run.unknowns.append("X2: no role-suffixed partner locals found; role agreement "
                            "not decided")


ORDER_NORMALISING = ("subgraph", "induced_subgraph")


def x7(run: Run, prog: Program):
    """Node lists arrive "in arbitrary order" and the result is indexed in the
    caller's order.  igraph's `subgraph(vertices)` returns the induced subgraph
    with its vertices in increasing index order, whatever order was asked for:
    a method that builds a per-node result from `self.graph.subgraph(node_list)`
    must map the rows back (an argsort of the list), or not go through igraph."""
    n = 0
    for cname in ("InteractingNetworks",):
        C = prog.classes.get(cname)
        for f in sorted(C.methods.values(), key=lambda f: f.name):
            lists = [p_ for p_ in f.params if "node_list" in p_ or p_ == "nodes"]
            if not lists:
                continue
            for c in ast.walk(f.node):
                if not (isinstance(c, ast.Call) and isinstance(c.func, ast.Attribute)
                        and c.func.attr in ORDER_NORMALISING and c.args
                        and isinstance(c.args[0], ast.Name) and c.args[0].id in lists):
                    continue
                n += 1
                lst = c.args[0].id
                def _restores(fnode, name, depth=0):
                    for x in ast.walk(fnode):
                        if not isinstance(x, ast.Call):
                            continue
                        fn_ = ast.unparse(x.func)
                        if fn_ in ("np.searchsorted", "np.lexsort") \
                                and x.args and name in ast.unparse(x.args[0]):
                            return True
                        if fn_ in ("np.argsort", "numpy.argsort") and x.args and \
                                name in ast.unparse(x.args[0]):
                            # rank of every node in the sorted list: argsort of
                            # argsort.  A single argsort is the inverse of that
                            # permutation - right only where it scatters
                            # (`out[order] = sorted_result`), wrong where it
                            # gathers (`sorted_result[order]`)
                            inner = x.args[0]
                            if isinstance(inner, ast.Call) and \
                                    ast.unparse(inner.func) in ("np.argsort", "numpy.argsort"):
                                return True
                            nested_in = any(
                                isinstance(y, ast.Call) and y is not x and
                                ast.unparse(y.func) in ("np.argsort", "numpy.argsort")
                                and y.args and any(z is x for z in ast.walk(y.args[0]))
                                for y in ast.walk(fnode))
                            if nested_in:
                                return True
                            holder = None
                            for st_ in ast.walk(fnode):
                                if isinstance(st_, ast.Assign) and st_.value is x and \
                                        isinstance(st_.targets[0], ast.Name):
                                    holder = st_.targets[0].id
                            if holder is None:
                                continue
                            gathers = scatters = 0
                            for sub in ast.walk(fnode):
                                if isinstance(sub, ast.Subscript) and any(
                                        isinstance(z, ast.Name) and z.id == holder
                                        for z in ast.walk(sub.slice)):
                                    if isinstance(sub.ctx, ast.Store):
                                        scatters += 1
                                    else:
                                        gathers += 1
                            if scatters and not gathers:
                                return True
                            # second argsort applied to the holder later on
                            if any(isinstance(y, ast.Call) and
                                   ast.unparse(y.func) in ("np.argsort", "numpy.argsort")
                                   and y.args and isinstance(y.args[0], ast.Name)
                                   and y.args[0].id == holder for y in ast.walk(fnode)):
                                return True
                            continue
                        # a helper that is handed the list and computes the order
                        if depth < 2 and any(isinstance(a_, ast.Name) and a_.id == name
                                             for a_ in x.args):
                            h = None
                            if isinstance(x.func, ast.Name):
                                r = prog.resolve_name(f.module, x.func.id)
                                h = r[1] if r and r[0] == "func" else None
                            elif isinstance(x.func, ast.Attribute):
                                h = prog.lookup(C, x.func.attr)
                            if h is not None and h is not f:
                                ps = h.params
                                idx = [i_ for i_, a_ in enumerate(x.args)
                                       if isinstance(a_, ast.Name) and a_.id == name]
                                off = 1 if h.kind in ("method",) else 0
                                for i_ in idx:
                                    if i_ + off < len(ps) and \
                                            _restores(h.node, ps[i_ + off], depth + 1):
                                        return True
                    return False
                restored = _restores(f.node, lst)
                presorted = any(isinstance(x, ast.Call) and
                                ast.unparse(x.func) in ("sorted", "np.sort") and x.args
                                and lst in ast.unparse(x.args[0]) for x in ast.walk(f.node))
                ok = restored and not presorted or restored
                run.oblige("X7", f"{f.qualname}:{c.func.attr}({lst})", ok, sample={
                    "where": f"{f.module.relpath}:{c.lineno}"})
                if not ok:
                    run.add("X7", f"{f.qualname}/order/{lst}", f"{f.module.relpath}:{c.lineno}",
                            f"{f.qualname} builds its result from "
                            f"`{ast.unparse(c)}`: igraph returns the induced subgraph in "
                            f"increasing vertex order, so for an unsorted `{lst}` the rows "
                            f"and columns of the result belong to other nodes than the "
                            f"caller's list says (no argsort of `{lst}` maps them back)")
    run.count("X7", n)


def x6(run: Run, prog: Program):
    """Edge-loop fills of a (sub-)matrix: the mirrored store of an undirected
    link must not be skipped because the forward store happened (if/elif)."""
    n = 0
    for cname in ("Network", "InteractingNetworks"):
        C = prog.classes[cname]
        for f in C.methods.values():
            for loop in ast.walk(f.node):
                if not (isinstance(loop, ast.For) and
                        ast.unparse(loop.iter).endswith(".es")):
                    continue
                ev = loop.target.id if isinstance(loop.target, ast.Name) else None
                stores = []

                def collect(stmts, chain):
                    for st in stmts:
                        if isinstance(st, ast.Assign) and \
                                isinstance(st.targets[0], ast.Subscript) and \
                                isinstance(st.targets[0].value, ast.Name) and ev and \
                                any(isinstance(x, ast.Name) and x.id == ev
                                    for x in ast.walk(st.value)):
                            stores.append((st, tuple(chain)))
                        elif isinstance(st, ast.If):
                            collect(st.body, chain + [(id(st), "then")])
                            collect(st.orelse, chain + [(id(st), "else")])
                        elif isinstance(st, (ast.For, ast.While)):
                            collect(st.body, chain)
                collect(loop.body, [])
                if len(stores) < 2:
                    if stores:
                        n += 1
                        run.oblige("X6", f"{f.qualname}@{loop.lineno}", True,
                                   nontrivial=False)
                    continue
                n += 1
                bad = None
                for i, (a, ca) in enumerate(stores):
                    for (b, cb) in stores[i + 1:]:
                        if ast.unparse(a.targets[0].value) != ast.unparse(b.targets[0].value):
                            continue
                        for (ida, sa) in ca:
                            for (idb, sb) in cb:
                                if ida == idb and sa != sb:
                                    bad = (a, b)
                ok = bad is None
                run.oblige("X6", f"{f.qualname}@{loop.lineno}", ok, sample={
                    "where": f"{f.module.relpath}:{loop.lineno}",
                    "stores": [ast.unparse(s[0].targets[0]) for s in stores]})
                if not ok:
                    run.add("X6", f"{f.qualname}/exclusive-stores",
                            f"{f.module.relpath}:{bad[1].lineno}",
                            f"{f.qualname}: `{ast.unparse(bad[1].targets[0])}` is stored "
                            f"only when `{ast.unparse(bad[0].targets[0])}` was not (if/elif)"
                            f": when both orientations of a link fall into the block "
                            f"(overlapping groups, whole node set) the mirrored entry is "
                            f"lost and the matrix is not symmetric")
    run.floor("X6 edge-fill loops", n, 4)


def x8(run: Run, prog: Program):
    """A loop over igraph edges may store at the reversed orientation
    [target, source] only for undirected networks: every such store lies in a
    branch that the object's `directed` flag excludes."""
    from .idioms import inline_locals
    n = 0
    for cname in ("Network", "InteractingNetworks"):
        C = prog.classes.get(cname)
        if C is None:
            raise AnalysisError(f"class {cname} vanished")
        for mname, m in sorted(C.methods.items()):
            if not m.params or m.kind == "static" or \
                    any(ast.unparse(d) == "staticmethod" for d in m.node.decorator_list):
                continue
            sn = m.params[0]
            # a fill loop factored into a private helper is analysed in place
            import copy as _copy
            from .idioms import inline_simple_helpers

            def _res(hn, _C=C):
                h = prog.lookup(_C, hn)
                return h.node if h is not None and hn.startswith("_") and \
                    not hn.startswith("__") else None
            m = _copy.copy(m)
            m.node = inline_simple_helpers(m.node, _res)
            loops = [l for l in ast.walk(m.node) if isinstance(l, ast.For)
                     and re.search(r"\.es\b", ast.unparse(l.iter))
                     and isinstance(l.target, ast.Name)]
            if not loops:
                continue
            # branch context of every statement: tests that hold on the way to it
            ctx = {}

            def walk_ctx(stmts, conds):
                for st in stmts:
                    ctx[id(st)] = conds
                    if isinstance(st, ast.If):
                        # a flag local stands for what it was bound to
                        t = ast.unparse(inline_locals(m.node, st.test)).replace(" ", "")
                        walk_ctx(st.body, conds + [("+", t)])
                        walk_ctx(st.orelse, conds + [("-", t)])
                    elif isinstance(st, (ast.For, ast.While)):
                        walk_ctx(st.body, conds)
                        walk_ctx(st.orelse, conds)
                    elif isinstance(st, ast.With):
                        walk_ctx(st.body, conds)
                    elif isinstance(st, ast.Try):
                        walk_ctx(st.body, conds)
                        walk_ctx(st.finalbody, conds)
            walk_ctx(m.node.body, [])
            for l in loops:
                v = l.target.id
                role = {}         # local name -> "S" | "T"
                for st in ast.walk(l):
                    if isinstance(st, ast.Assign) and len(st.targets) == 1:
                        t, val = st.targets[0], ast.unparse(st.value).replace(" ", "")
                        if isinstance(t, ast.Tuple) and len(t.elts) == 2 and \
                                val == f"{v}.tuple" and \
                                all(isinstance(x, ast.Name) for x in t.elts):
                            role[t.elts[0].id], role[t.elts[1].id] = "S", "T"
                        elif isinstance(t, ast.Name) and val in (f"{v}.source",
                                                                 f"{v}.tuple[0]"):
                            role[t.id] = "S"
                        elif isinstance(t, ast.Name) and val in (f"{v}.target",
                                                                 f"{v}.tuple[1]"):
                            role[t.id] = "T"

                def end_roles(x):
                    txt = ast.unparse(x).replace(" ", "")
                    out = set()
                    if f"{v}.source" in txt or f"{v}.tuple[0]" in txt:
                        out.add("S")
                    if f"{v}.target" in txt or f"{v}.tuple[1]" in txt:
                        out.add("T")
                    for nme in ast.walk(x):
                        if isinstance(nme, ast.Name) and nme.id in role:
                            out.add(role[nme.id])
                    return out
                for st in ast.walk(l):
                    if not (isinstance(st, ast.Assign) and
                            isinstance(st.targets[0], ast.Subscript)):
                        continue
                    sl = st.targets[0].slice
                    txt = ast.unparse(sl).replace(" ", "")
                    if txt == f"{v}.tuple":
                        pair = ("S", "T")
                    elif txt == f"{v}.tuple[::-1]":
                        pair = ("T", "S")
                    elif isinstance(sl, ast.Tuple) and len(sl.elts) == 2:
                        a_, b_ = end_roles(sl.elts[0]), end_roles(sl.elts[1])
                        if len(a_) != 1 or len(b_) != 1:
                            continue
                        pair = (next(iter(a_)), next(iter(b_)))
                    else:
                        continue
                    if pair != ("T", "S"):
                        continue
                    n += 1
                    conds = ctx.get(id(st), [])
                    undirected = any(
                        (sg == "-" and t in (f"{sn}.directed", f"{sn}.directed==True",
                                             f"{sn}.directedisTrue")) or
                        (sg == "+" and t in (f"not{sn}.directed", f"{sn}.directed==False",
                                             f"{sn}.directedisFalse"))
                        for sg, t in conds)
                    run.oblige("X8", f"{m.qualname}@{st.lineno}", undirected, sample={
                        "where": f"{m.module.relpath}:{st.lineno}",
                        "store": ast.unparse(st.targets[0])[:60], "context": conds[-2:]})
                    if not undirected:
                        run.add("X8", f"{m.qualname}/reverse-store-unguarded",
                                f"{m.module.relpath}:{st.lineno}",
                                f"{m.qualname}: `{ast.unparse(st.targets[0])[:70]}` writes a "
                                f"link at the reversed orientation [target, source] on a "
                                f"path that directed networks take as well: a link j->i "
                                f"then appears as i->j in the result")
    run.floor("X8 reversed-orientation stores in edge loops", n, 2)


def x4(run: Run, prog: Program):
    """Sub-block helpers return copies (callers edit them in place)."""
    from .rules_c06 import Purity
    an = Purity(prog)
    C = prog.classes["InteractingNetworks"]
    n = 0
    for name in ("internal_path_lengths", "cross_path_lengths", "cross_adjacency",
                 "cross_link_attribute"):
        f = C.methods.get(name)
        if f is None:
            raise AnalysisError(f"InteractingNetworks.{name} vanished")
        n += 1
        o = sorted(x for x in an.analysis(f).returns
                   if x.startswith(("cached:", "state:", "shared:")))
        run.oblige("X4", f.qualname, not o, sample={"where": f.where, "aliases": o})
        if o:
            run.add("X4", f"{f.qualname}/view", f.where,
                    f"{f.qualname} may return storage aliasing {o}; callers edit the "
                    f"sub-block in place (restore idiom), which would corrupt it")
    run.floor("X4 helpers", n, 4)


def _x4_old(run: Run, prog: Program):
    C = prog.classes["InteractingNetworks"]
    n = 0
    for name in ("internal_path_lengths", "cross_path_lengths", "cross_adjacency",
                 "cross_link_attribute"):
        f = C.methods.get(name)
        if f is None:
            raise AnalysisError(f"InteractingNetworks.{name} vanished")
        for r in ast.walk(f.node):
            if isinstance(r, ast.Return) and r.value is not None:
                v = r.value
                n += 1
                fancy = isinstance(v, ast.Subscript) and isinstance(v.value, ast.Subscript)

                def is_fancy(sub):
                    dims = sub.slice.elts if isinstance(sub.slice, ast.Tuple) \
                        else [sub.slice]
                    return any(isinstance(d, ast.Name) for d in dims)
                ok = fancy and is_fancy(v) and is_fancy(v.value)
                run.oblige("X4", f"{f.qualname}", ok, sample={
                    "where": f"{f.module.relpath}:{r.lineno}",
                    "returns": ast.unparse(v)[:80]})
                if not ok:
                    run.add("X4", f"{f.qualname}/view", f"{f.module.relpath}:{r.lineno}",
                            f"{f.qualname} returns `{ast.unparse(v)[:70]}`, which may be "
                            f"a view of the (cached) full matrix; callers edit the "
                            f"sub-block in place")
    run.floor("X4 helpers", n, 4)


def x9(run: Run, cy: CyProgram):
    """Scan latches of the cross kernels: a scalar that a loop nest sets once under
    a test on itself (`if first < 0: first = j`) to an index of an *inner* loop
    describes the current iteration of the outer loop (the current node of group
    1): it must be (re-)initialised inside the outer loop body, not only before
    the loop."""
    from .cymodel import names_in
    n = 0
    for f in sorted(cy.modules[CORE].funcs.values(), key=lambda f: f.name):
        if "cross" not in f.name:
            continue
        latches = {}

        def visit(body, chain):
            for st in body:
                if st.k == "for":
                    visit(st.a[2], chain + (st,))
                elif st.k == "while":
                    visit(st.a[1], chain)
                elif st.k == "if":
                    for cond, b in st.a[0]:
                        tested = names_in(cond) if cond is not None else set()
                        for s2 in b:
                            if s2.k == "assign" and len(s2.a[0]) == 1 and \
                                    s2.a[0][0].k == "name" and \
                                    s2.a[0][0].a[0] in tested and len(chain) >= 2:
                                L = s2.a[0][0].a[0]
                                inner = {pp(l.a[0]) for l in chain[1:]}
                                if names_in(s2.a[1]) & inner and L not in names_in(s2.a[1]):
                                    latches.setdefault(L, []).append((s2, chain))
                        visit(b, chain)
                    visit(st.a[1] or [], chain)
        visit(f.body, ())
        for L, defs in sorted(latches.items()):
            outer = defs[0][1][0]
            # a plain (re-)initialisation at the level of the outer loop body
            reinit = any(
                st.k == "assign" and any(t.k == "name" and t.a[0] == L for t in st.a[0])
                and L not in names_in(st.a[1]) for st in outer.a[2])
            n += 1
            run.oblige("X9", f"{f.name}:{L}", reinit, sample={
                "where": f"{f.module.relpath}:{defs[0][0].line}",
                "outer_loop": pp(outer.a[0])})
            if not reinit:
                run.add("X9", f"{f.name}/latch/{L}",
                        f"{f.module.relpath}:{defs[0][0].line}",
                        f"{f.name}: `{L}` is set once under a test on itself to an index "
                        f"of an inner loop (`{pp(defs[0][0])[:60]}`) but is not "
                        f"re-initialised in the body of the outer loop over "
                        f"`{pp(outer.a[0])}`: from the second node on the scan starts "
                        f"from the previous node's value and skips pairs")
    run.count("X9", n)


def check(run: Run, prog: Program, cy: CyProgram, sites):
    run.rule("X1", "compiled kernels and their `_sparse` siblings count under the same "
             "link tests over the same role domains; triangles test all three links")
    run.rule("X2", "locals that carry the role of group 1 / group 2 are computed from "
             "the matching node list")
    run.rule("X3", "compiled kernels used by the interacting/coupled network classes "
             "are called with the dtype/rank their signature demands")
    run.rule("X4", "sub-block extraction helpers return copies (fancy indexing)")
    run.rule("X8", "a loop over igraph edges stores the reversed orientation only for "
             "undirected networks")
    run.rule("X6", "edge-loop fills store both orientations of an undirected link "
             "independently")
    run.rule("X5", "virtual `self.m()` calls in inherited methods are accepted by the "
             "overrides of coupled/interacting subclasses")
    run.rule("X9", "a scan latch of a cross kernel (set once per node to an inner-loop "
             "index) is re-initialised for every node of the outer loop")
    run.explanation = (
        "Structural necessary conditions of C11: sibling agreement between the "
        "compiled and the pure-Python `_sparse` variants (guard sets and loop "
        "domains extracted from both), role-suffix dataflow, kernel-boundary "
        "typing, copy semantics of the sub-block helpers and override-signature "
        "compatibility. Equality with sub-block definitions is NOT decided.")
    x1(run, prog, cy)
    x9(run, cy)
    x2(run, prog)
    n = report_sites(run, "X3", sites,
                     lambda s: "interacting_networks" in s.func.module.relpath
                     and s.kernel.name in ("_cross_transitivity", "_nsi_cross_transitivity",
                                           "_cross_local_clustering",
                                           "_nsi_cross_local_clustering"))
    run.floor("X3 call sites", n, 1)
    x4(run, prog)
    x8(run, prog)
    x6(run, prog)
    run.rule("X7", "results built through igraph's order-normalising subgraph() are "
             "mapped back to the caller's node order")
    x7(run, prog)
    m4(run, prog, "X5", "core/interacting_networks.py")
