"""C09 - similarity networks: funnel clause F1..F3."""
from __future__ import annotations

import ast

from .pymodel import Program, iter_events
from .rules_c07 import _unfollowed
from .idioms import diagonal_clear_target
from .report import Run, AnalysisError

PRIMARY = {"_threshold", "_non_local", "_similarity_measure"}


def f1(run: Run, prog: Program):
    fam = prog.subclasses("ClimateNetwork")
    run.floor("ClimateNetwork family", len(fam), 10, hard=True)
    n = 0
    for C in fam:
        for name, f in sorted(prog.all_methods(C).items()):
            if f.kind != "method" or name.startswith("_") or f.cached:
                continue
            t = prog.tree(f, C, {})
            wr = {e.cell for e in iter_events(t) if e.kind in ("write", "assign")}
            hit = sorted(wr & PRIMARY)
            if not hit:
                continue
            n += 1
            bad = _unfollowed(t, PRIMARY, {"sp_A"})
            inst = f"{C.name}.{name}"
            run.oblige("F1", inst, not bad, sample={
                "where": f.where, "writes": hit})
            for e in bad:
                run.add("F1", f"{f.qualname}/{e.cell}", e.where,
                        f"{f.qualname} (on {C.name}) changes `{e.cell}` (at "
                        f"{e.func.qualname}) without re-deriving the adjacency "
                        f"afterwards: threshold/similarity and the network's links, "
                        f"link count and density drift apart", classes=[C.name])
    run.floor("F1 mutators of threshold/similarity", n, 12)
    # who may write _threshold: only set_threshold (and constructors)
    for C in fam:
        for f in C.methods.values():
            if f.kind != "method":
                continue
            sn = f.params[0]
            for node in ast.walk(f.node):
                if isinstance(node, (ast.Assign, ast.AugAssign)):
                    tg = node.targets if isinstance(node, ast.Assign) else [node.target]
                    for t in tg:
                        if isinstance(t, ast.Attribute) and isinstance(t.value, ast.Name) \
                                and t.value.id == sn and t.attr == "_threshold":
                            ok = f.name in ("set_threshold", "__init__")
                            run.oblige("F1", f"writer:{f.qualname}", ok, sample={
                                "where": f"{f.module.relpath}:{node.lineno}"})
                            if not ok:
                                run.add("F1", f"{f.qualname}/writes-threshold",
                                        f"{f.module.relpath}:{node.lineno}",
                                        f"{f.qualname} assigns `_threshold` itself "
                                        f"instead of going through set_threshold(): "
                                        f"the reported threshold no longer belongs to "
                                        f"the adjacency")


def f2(run: Run, prog: Program):
    cn = prog.classes.get("ClimateNetwork")
    f = cn.methods.get("_calculate_threshold_adjacency") if cn else None
    if f is None:
        raise AnalysisError("ClimateNetwork._calculate_threshold_adjacency vanished")
    # thresholding store followed (post-dominated, same block) by a diagonal
    # clearing store on the same array
    body = f.node.body
    thr = None
    diag = None
    from .idioms import inline_locals
    thr_cmp = None
    for i, st in enumerate(body):
        if isinstance(st, ast.Assign) and isinstance(st.targets[0], ast.Subscript):
            # the mask may be written in place or bound to a local first
            sl = inline_locals(f.node, st.targets[0].slice)
            if isinstance(sl, ast.Compare) and isinstance(st.value, ast.Constant) and \
                    st.value.value == 1:
                thr = (i, st)
                thr_cmp = sl
        if diagonal_clear_target(st) is not None:
            diag = (i, st)
    ret = [st for st in body if isinstance(st, ast.Return)]
    ok_thr = thr is not None
    if not ok_thr and any(
            isinstance(d_, ast.FunctionDef) and any(
                isinstance(a_, ast.Assign) and isinstance(a_.targets[0], ast.Subscript)
                for a_ in ast.walk(d_)) for d_ in ast.walk(f.node) if d_ is not f.node):
        # the stores go through a local closure (`mark(mask, value)`): not read
        run.unknowns.append(f"F2: {f.qualname} stores through a local closure; the "
                            f"thresholding store and the diagonal clearing are not "
                            f"decided")
        run.oblige("F2", "threshold-store", True, nontrivial=False)
        return
    run.oblige("F2", "threshold-store", ok_thr, sample={"where": f.where})
    if not ok_thr:
        run.add("F2", f"{f.qualname}/no-threshold-store", f.where,
                f"{f.qualname}: thresholding store `A[similarity > threshold] = 1` "
                f"not found")
        return
    cmp_ = thr_cmp
    strict = isinstance(cmp_.ops[0], ast.Gt) and \
        ast.unparse(cmp_.left) == f.params[1] and \
        ast.unparse(cmp_.comparators[0]) == f.params[2]
    run.oblige("F2", "strict-exceeds", strict, sample={
        "where": f"{f.module.relpath}:{thr[1].lineno}", "test": ast.unparse(cmp_)})
    if not strict:
        run.add("F2", f"{f.qualname}/relation", f"{f.module.relpath}:{thr[1].lineno}",
                f"{f.qualname} links pairs with `{ast.unparse(cmp_)}`; the network must "
                f"link exactly the pairs whose similarity *exceeds* the threshold "
                f"(`{f.params[1]} > {f.params[2]}`)")
    same = diag is not None and ast.unparse(thr[1].targets[0].value) == \
        diagonal_clear_target(diag[1])
    okd = diag is not None and diag[0] > thr[0] and same and \
        (not ret or body.index(ret[0]) > diag[0])
    run.oblige("F2", "diagonal-cleared", okd, sample={"where": f.where})
    if not okd:
        run.add("F2", f"{f.qualname}/diagonal", f.where,
                f"{f.qualname}: the diagonal of the thresholded matrix is not cleared "
                f"after thresholding (self-similarity is 1, so every node would link "
                f"to itself)")
    # every adjacency that set_threshold hands to the constructor comes from it
    st_ = cn.methods.get("set_threshold")
    if st_ is None:
        raise AnalysisError("ClimateNetwork.set_threshold vanished")
    # private helpers of set_threshold stand for their statements
    import copy as _copy
    from .idioms import inline_simple_helpers

    def _res(hn):
        h = prog.lookup(cn, hn)
        return h.node if h is not None and hn.startswith("_") and \
            not hn.startswith("__") and hn not in (
                "_calculate_threshold_adjacency", "_calculate_non_local_adjacency") \
            else None
    st_ = _copy.copy(st_)
    st_.node = inline_simple_helpers(st_.node, _res)
    calls = [n for n in ast.walk(st_.node) if isinstance(n, ast.Call)
             and ast.unparse(n.func).endswith(".__init__")]
    for c in calls:
        adj = [k.value for k in c.keywords if k.arg == "adjacency"]
        if not adj:
            continue
        a = adj[0]
        defs = [n for n in ast.walk(st_.node) if isinstance(n, ast.Assign)
                and isinstance(n.targets[0], ast.Name) and isinstance(a, ast.Name)
                and n.targets[0].id == a.id]
        FUNNEL = ("self._calculate_threshold_adjacency",
                  "self._calculate_non_local_adjacency")

        def _dispatch_targets(fn_):
            """names a `getattr(self, <table lookup>)` can stand for, or None"""
            from .pymodel import UNKNOWN
            if not (isinstance(fn_, ast.Call) and isinstance(fn_.func, ast.Name) and
                    fn_.func.id == "getattr" and len(fn_.args) == 2 and
                    ast.unparse(fn_.args[0]) == "self"):
                return None
            x = fn_.args[1]
            v = prog.static_value(x, cn, st_.module)
            if isinstance(v, str):
                return {v}
            if isinstance(x, ast.Subscript):
                tab = prog.static_value(x.value, cn, st_.module)
                if isinstance(tab, dict) and tab and all(
                        isinstance(t_, str) for t_ in tab.values()):
                    return set(tab.values())
                if isinstance(tab, tuple) and tab and all(isinstance(t_, str) for t_ in tab):
                    return set(tab)
            return None

        def _funnel_callee(fn_):
            # the method itself, or a local / conditional expression choosing
            # between the two thresholding variants
            fn_ = inline_locals(st_.node, fn_)
            tg_ = _dispatch_targets(fn_)
            if tg_ is not None:
                return all("self." + t_ in FUNNEL for t_ in tg_)
            if isinstance(fn_, ast.IfExp):
                return _funnel_callee(fn_.body) and _funnel_callee(fn_.orelse)
            return ast.unparse(fn_) in FUNNEL
        def _produced_by_funnel(e, fnode, depth=0):
            """Is the value of `e` (evaluated in fnode) always a result of one of
            the two thresholding variants - directly, through locals, or through
            the returns of a private helper?"""
            if depth > 3:
                return False
            if isinstance(e, ast.Name):
                ds = [n.value for n in ast.walk(fnode) if isinstance(n, ast.Assign)
                      and len(n.targets) == 1 and isinstance(n.targets[0], ast.Name)
                      and n.targets[0].id == e.id]
                return bool(ds) and all(_produced_by_funnel(d, fnode, depth + 1)
                                        for d in ds)
            if isinstance(e, ast.IfExp):
                return _produced_by_funnel(e.body, fnode, depth + 1) and \
                    _produced_by_funnel(e.orelse, fnode, depth + 1)
            if not isinstance(e, ast.Call):
                return False
            fn_ = inline_locals(fnode, e.func)
            tg_ = _dispatch_targets(fn_)
            if tg_ is not None:
                return all("self." + t_ in FUNNEL for t_ in tg_)
            if isinstance(fn_, ast.IfExp):
                return all(ast.unparse(x) in FUNNEL for x in (fn_.body, fn_.orelse))
            if ast.unparse(fn_) in FUNNEL:
                return True
            if isinstance(fn_, ast.Attribute) and isinstance(fn_.value, ast.Name) and \
                    fn_.value.id in ("self", cn.name) and fn_.attr.startswith("_"):
                h = prog.lookup(cn, fn_.attr)
                if h is not None:
                    rets = [r.value for r in ast.walk(h.node)
                            if isinstance(r, ast.Return) and r.value is not None]
                    return bool(rets) and all(
                        _produced_by_funnel(r, h.node, depth + 1) for r in rets)
            return False
        okf = (bool(defs) and all(isinstance(d.value, ast.Call) and
                                  _funnel_callee(d.value.func) for d in defs)) or \
            _produced_by_funnel(a, st_.node)
        run.oblige("F2", "funnel", okf, sample={
            "where": f"{st_.module.relpath}:{c.lineno}",
            "defs": [ast.unparse(d.value)[:60] for d in defs]})
        if not okf:
            run.add("F2", f"{st_.qualname}/funnel", f"{st_.module.relpath}:{c.lineno}",
                    f"{st_.qualname}: the adjacency handed to the network constructor "
                    f"is not produced by _calculate_threshold_adjacency / "
                    f"_calculate_non_local_adjacency")
    nl = cn.methods.get("_calculate_non_local_adjacency")
    if nl is not None:
        rets = [n for n in ast.walk(nl.node) if isinstance(n, ast.Return)]
        okn = all(isinstance(r.value, ast.Call) and ast.unparse(r.value.func) ==
                  "self._calculate_threshold_adjacency" for r in rets) and bool(rets)
        run.oblige("F2", "non-local-funnel", okn, sample={"where": nl.where})
        if not okn:
            run.add("F2", f"{nl.qualname}/funnel", nl.where,
                    f"{nl.qualname} does not funnel into "
                    f"_calculate_threshold_adjacency")


def check(run: Run, prog: Program):
    run.rule("F1", "every public method that changes threshold, locality flag or "
             "similarity re-derives the adjacency afterwards; only set_threshold "
             "stores the threshold")
    run.rule("F2", "one thresholding function (strict `>`), diagonal cleared after "
             "thresholding, all adjacencies of the family flow from it")
    run.rule("F3", "the stored similarity matrix is never edited in place")
    run.explanation = (
        "Structural necessary conditions of C09 (single funnel threshold -> "
        "adjacency; no self links; similarity matrix immutable). The quantile / "
        "density relation, ties and the distance weight are NOT decided.")
    f1(run, prog)
    f2(run, prog)
    from .rules_c06 import p1_restricted
    p1_restricted(run, "F3", prog, lambda o: o == "state:_similarity_measure",
                  "the stored similarity matrix", floor=1)
