"""Model of the Cython kernels (DESIGN.md §3.3).

The .pyx files are parsed with the Cython compiler's own parser (no code is
generated, nothing is executed) and converted into a small uniform IR:

expressions  X(kind, *args)
  name(id) num(v) str(s) none() null() bool(v)
  bin(op, l, r)  un(op, x)  cmp(op, l, r)  boolop(op, [xs])  not(x)
  index(base, [idx...])  slice(lo, hi, step)  attr(obj, name)
  call(func, [args], {kw})  tuple([xs])  list([xs])  cast(ctype, x)
  dict({..})  other(typename)
statements   S(kind, *args)
  assign([targets], value)   (cascaded a = b = v has several targets)
  aug(op, target, value)
  for(target, iter, body, orelse)  while(cond, body)  if([(cond, body)..], orelse)
  return(x) expr(x) cdef(ctype, [(name, init)]) break continue pass
"""
from __future__ import annotations

import os
from dataclasses import dataclass, field
from typing import Optional

from .report import AnalysisError


class X:
    __slots__ = ("k", "a", "line")

    def __init__(self, k, *a, line=0):
        self.k, self.a, self.line = k, a, line

    def key(self):
        def conv(v):
            if isinstance(v, X):
                return v.key()
            if isinstance(v, (list, tuple)):
                return tuple(conv(x) for x in v)
            if isinstance(v, dict):
                return tuple(sorted((k, conv(x)) for k, x in v.items()))
            return v
        return (self.k,) + tuple(conv(v) for v in self.a)

    def __eq__(self, o):
        return isinstance(o, X) and self.key() == o.key()

    def __hash__(self):
        return hash(self.key())

    def __repr__(self):
        return pp(self)


S = X   # statements use the same carrier


def pp(x) -> str:
    if not isinstance(x, X):
        if isinstance(x, (list, tuple)):
            return "[" + ", ".join(pp(v) for v in x) + "]"
        return repr(x)
    k, a = x.k, x.a
    if k == "name":
        return a[0]
    if k == "num":
        return str(a[0])
    if k == "str":
        return repr(a[0])
    if k == "none":
        return "None"
    if k == "null":
        return "NULL"
    if k == "bool":
        return str(a[0])
    if k == "bin":
        return f"({pp(a[1])} {a[0]} {pp(a[2])})"
    if k == "un":
        return f"({a[0]}{pp(a[1])})"
    if k == "cmp":
        return f"({pp(a[1])} {a[0]} {pp(a[2])})"
    if k == "boolop":
        return "(" + f" {a[0]} ".join(pp(v) for v in a[1]) + ")"
    if k == "not":
        return f"(not {pp(a[0])})"
    if k == "index":
        return f"{pp(a[0])}[{', '.join(pp(i) for i in a[1])}]"
    if k == "slice":
        return ":".join("" if v is None else pp(v) for v in a[:2])
    if k == "attr":
        return f"{pp(a[0])}.{a[1]}"
    if k == "call":
        args = [pp(v) for v in a[1]] + [f"{n}={pp(v)}" for n, v in a[2].items()]
        return f"{pp(a[0])}({', '.join(args)})"
    if k in ("tuple", "list"):
        return "(" + ", ".join(pp(v) for v in a[0]) + ")"
    if k == "cast":
        return f"<{a[0]}>{pp(a[1])}"
    if k == "cond":
        return f"({pp(a[1])} if {pp(a[0])} else {pp(a[2])})"
    if k == "listcomp":
        return f"[{pp(a[0])} for {pp(a[1])} in {pp(a[2])}]"
    if k == "fstr":
        return "f'" + "".join("{" + pp(v) + "}" if v.k != "str" else v.a[0]
                               for v in a[0]) + "'"
    return f"<{k} {a}>"


def walk(x):
    """All X nodes below (and including) x, statements and expressions."""
    if isinstance(x, X):
        yield x
        for v in x.a:
            yield from walk(v)
    elif isinstance(x, (list, tuple)):
        for v in x:
            yield from walk(v)
    elif isinstance(x, dict):
        for v in x.values():
            yield from walk(v)


def names_in(x) -> set:
    return {n.a[0] for n in walk(x) if isinstance(n, X) and n.k == "name"}


@dataclass
class CType:
    kind: str                   # simple | buffer | memview | ptr | object
    name: str = ""              # C type or dtype typedef name
    ndim: int = 0
    mode: Optional[str] = None
    cast: bool = False
    not_none: bool = False

    def __str__(self):
        if self.kind == "buffer":
            extra = f", mode={self.mode!r}" if self.mode else ""
            extra += ", cast=True" if self.cast else ""
            return f"ndarray[{self.name}, ndim={self.ndim}{extra}]"
        if self.kind == "memview":
            return f"{self.name}[{','.join(':' * self.ndim)}]"
        if self.kind == "ptr":
            return f"{self.name}*"
        return self.name or "object"


@dataclass
class CyFunc:
    name: str
    kind: str                    # def | cdef
    args: list                   # [(name, CType)]
    body: list                   # [S]
    line: int
    module: "CyModule"
    locals: dict = field(default_factory=dict)    # name -> (CType, init X|None, line)
    ret: Optional[str] = None
    inline: bool = False
    decorators: list = field(default_factory=list)

    @property
    def where(self):
        return f"{self.module.relpath}:{self.line}"

    def argtype(self, name) -> Optional[CType]:
        for n, t in self.args:
            if n == name:
                return t
        return None

    def vartype(self, name) -> Optional[CType]:
        t = self.argtype(name)
        if t is not None:
            return t
        if name in self.locals:
            return self.locals[name][0]
        return None


@dataclass
class CyModule:
    name: str
    path: str
    relpath: str
    funcs: dict = field(default_factory=dict)       # name -> CyFunc
    externs: dict = field(default_factory=dict)     # name -> (ret, [(name, CType)], cfile, line)
    extern_files: list = field(default_factory=list)
    ctypedefs: dict = field(default_factory=dict)   # name -> base name / funcptr sig
    globals: dict = field(default_factory=dict)
    header_directives: list = field(default_factory=list)
    source: str = ""
    unhandled: list = field(default_factory=list)


BINOPS = {"AddNode": "+", "SubNode": "-", "MulNode": "*", "DivNode": "/",
          "ModNode": "%", "PowNode": "**", "IntBinopNode": None,
          "NumBinopNode": None, "MatMultNode": "@"}


class _Conv:
    def __init__(self, mod: CyModule):
        self.mod = mod

    # -- types
    def ctype(self, base, declarator=None) -> CType:
        tn = type(base).__name__
        # `const T` / `volatile T`: the qualifier changes neither width nor rank
        while tn in ("CConstTypeNode", "CConstOrVolatileTypeNode", "CQualifierTypeNode") \
                and getattr(base, "base_type", None) is not None:
            base = base.base_type
            tn = type(base).__name__
        ptr = 0
        d = declarator
        while d is not None and type(d).__name__ == "CPtrDeclaratorNode":
            ptr += 1
            d = d.base
        if tn == "CSimpleBaseTypeNode":
            name = base.name
            if getattr(base, "longness", 0) == 1 and name == "int":
                name = "long"
            elif getattr(base, "longness", 0) == 2 and name == "int":
                name = "long long"
            if getattr(base, "signed", 1) == 0:
                name = "unsigned " + name
            if name is None or (getattr(base, "is_self_arg", False)):
                name = "object"
            if ptr:
                return CType("ptr", name + "*" * (ptr - 1))
            return CType("simple", name)
        if tn == "TemplatedTypeNode":
            bname = getattr(base.base_type_node, "name", "")
            dtype = None
            kw = {}
            for p in base.positional_args:
                dtype = getattr(p, "name", None) or pp(self.expr(p))
            if base.keyword_args is not None:
                for it in base.keyword_args.key_value_pairs:
                    kw[it.key.value] = self.expr(it.value)
            if bname != "ndarray":
                self.mod.unhandled.append(f"templated type {bname}")
            ndim = kw.get("ndim")
            mode = kw.get("mode")
            cast = kw.get("cast")
            return CType("buffer", dtype or "", int(ndim.a[0]) if ndim is not None else 1,
                         mode.a[0] if mode is not None else None,
                         bool(cast.a[0]) if cast is not None else False)
        if tn == "MemoryViewSliceTypeNode":
            return CType("memview", getattr(base.base_type_node, "name", ""),
                         len(base.axes))
        self.mod.unhandled.append(f"type node {tn}")
        return CType("object", tn)

    # -- expressions
    def expr(self, n):
        if n is None:
            return None
        tn = type(n).__name__
        line = n.pos[1] if getattr(n, "pos", None) else 0
        if tn == "NameNode":
            return X("name", n.name, line=line)
        if tn == "IntNode":
            try:
                return X("num", int(n.value.rstrip("LlUu"), 0), line=line)
            except ValueError:
                return X("num", n.value, line=line)
        if tn == "FloatNode":
            return X("num", float(n.value), line=line)
        if tn in ("UnicodeNode", "StringNode", "BytesNode", "IdentifierStringNode"):
            return X("str", str(n.value), line=line)
        if tn == "NoneNode":
            return X("none", line=line)
        if tn == "NullNode":
            return X("null", line=line)
        if tn == "BoolNode":
            return X("bool", bool(n.value), line=line)
        if tn in BINOPS and BINOPS[tn]:
            return X("bin", BINOPS[tn], self.expr(n.operand1), self.expr(n.operand2),
                     line=line)
        if tn.endswith("BinopNode") and tn != "BoolBinopNode" and hasattr(n, "operator"):
            return X("bin", n.operator, self.expr(n.operand1), self.expr(n.operand2),
                     line=line)
        if tn == "UnaryMinusNode":
            return X("un", "-", self.expr(n.operand), line=line)
        if tn == "UnaryPlusNode":
            return self.expr(n.operand)
        if tn == "NotNode":
            return X("not", self.expr(n.operand), line=line)
        if tn == "PrimaryCmpNode":
            x = X("cmp", n.operator, self.expr(n.operand1), self.expr(n.operand2),
                  line=line)
            if getattr(n, "cascade", None) is not None:
                parts = [x]
                left = n.operand2
                c = n.cascade
                while c is not None:
                    parts.append(X("cmp", c.operator, self.expr(left),
                                   self.expr(c.operand2), line=line))
                    left = c.operand2
                    c = c.cascade
                return X("boolop", "and", parts, line=line)
            return x
        if tn == "BoolBinopNode":
            l, r = self.expr(n.operand1), self.expr(n.operand2)
            parts = []
            for p in (l, r):
                if p.k == "boolop" and p.a[0] == n.operator:
                    parts.extend(p.a[1])
                else:
                    parts.append(p)
            return X("boolop", n.operator, parts, line=line)
        if tn == "IndexNode":
            idx = n.index
            if type(idx).__name__ == "TupleNode":
                ids = [self.expr(a) for a in idx.args]
            else:
                ids = [self.expr(idx)]
            return X("index", self.expr(n.base), ids, line=line)
        if tn == "SliceIndexNode":
            return X("index", self.expr(n.base),
                     [X("slice", self.expr(n.start), self.expr(n.stop), None,
                        line=line)], line=line)
        if tn == "SliceNode":
            def nn(v):
                return None if v is None or type(v).__name__ == "NoneNode" \
                    else self.expr(v)
            return X("slice", nn(n.start), nn(n.stop), nn(n.step), line=line)
        if tn == "AttributeNode":
            return X("attr", self.expr(n.obj), n.attribute, line=line)
        if tn == "SimpleCallNode":
            return X("call", self.expr(n.function), [self.expr(a) for a in n.args],
                     {}, line=line)
        if tn == "GeneralCallNode":
            pos = n.positional_args
            args = [self.expr(a) for a in pos.args] if type(pos).__name__ == "TupleNode" \
                else [X("other", "starargs")]
            kw = {}
            if n.keyword_args is not None and type(n.keyword_args).__name__ == "DictNode":
                for it in n.keyword_args.key_value_pairs:
                    kw[str(it.key.value)] = self.expr(it.value)
            return X("call", self.expr(n.function), args, kw, line=line)
        if tn == "TupleNode":
            return X("tuple", [self.expr(a) for a in n.args], line=line)
        if tn == "ListNode":
            return X("list", [self.expr(a) for a in n.args], line=line)
        if tn == "DictNode":
            return X("dict", {str(getattr(it.key, "value", pp(self.expr(it.key)))):
                              self.expr(it.value) for it in n.key_value_pairs},
                     line=line)
        if tn == "TypecastNode":
            t = self.ctype(n.base_type, n.declarator)
            return X("cast", str(t), self.expr(n.operand), line=line)
        if tn == "ImportNode":
            return X("other", "import", line=line)
        if tn == "CondExprNode":
            return X("cond", self.expr(getattr(n, "test", None) or n.condition), self.expr(n.true_val),
                     self.expr(n.false_val), line=line)
        if tn == "JoinedStrNode":
            # f-string: a message; its pieces are kept for name look-ups
            return X("fstr", [self.expr(getattr(v, "value", v)) for v in n.values],
                     line=line)
        if tn == "ComprehensionNode" and type(n.loop).__name__ == "ForInStatNode" and \
                type(n.loop.body).__name__ == "ComprehensionAppendNode" and \
                type(n.loop.iterator).__name__ == "IteratorNode":
            # [elt for target in seq]
            return X("listcomp", self.expr(n.loop.body.expr), self.expr(n.loop.target),
                     self.expr(n.loop.iterator.sequence), line=line)
        self.mod.unhandled.append(f"expr {tn} at line {line}")
        return X("other", tn, line=line)

    # -- statements
    def stats(self, n) -> list:
        if n is None:
            return []
        tn = type(n).__name__
        if tn == "StatListNode":
            out = []
            for s in n.stats:
                out.extend(self.stats(s))
            return out
        return [s for s in [self.stat(n)] if s is not None]

    def stat(self, n):
        tn = type(n).__name__
        line = n.pos[1] if getattr(n, "pos", None) else 0
        if tn == "SingleAssignmentNode":
            return S("assign", [self.expr(n.lhs)], self.expr(n.rhs), line=line)
        if tn == "CascadedAssignmentNode":
            return S("assign", [self.expr(l) for l in n.lhs_list], self.expr(n.rhs),
                     line=line)
        if tn == "InPlaceAssignmentNode":
            return S("aug", n.operator, self.expr(n.lhs), self.expr(n.rhs), line=line)
        if tn == "ExprStatNode":
            return S("expr", self.expr(n.expr), line=line)
        if tn == "ReturnStatNode":
            return S("return", self.expr(n.value), line=line)
        if tn == "ForInStatNode":
            it = n.iterator
            seqx = self.expr(it.sequence) if type(it).__name__ == "IteratorNode" \
                else self.expr(it)
            return S("for", self.expr(n.target), seqx, self.stats(n.body),
                     self.stats(n.else_clause), line=line)
        if tn == "WhileStatNode":
            return S("while", self.expr(n.condition), self.stats(n.body), line=line)
        if tn == "IfStatNode":
            clauses = [(self.expr(c.condition), self.stats(c.body))
                       for c in n.if_clauses]
            return S("if", clauses, self.stats(n.else_clause), line=line)
        if tn == "RaiseStatNode":
            return S("raise", self.expr(getattr(n, "exc_type", None)), line=line)
        if tn == "BreakStatNode":
            return S("break", line=line)
        if tn == "ContinueStatNode":
            return S("continue", line=line)
        if tn == "PassStatNode":
            return S("pass", line=line)
        if tn == "CVarDefNode":
            decls = []
            for d in n.declarators:
                dd = d
                while type(dd).__name__ == "CPtrDeclaratorNode":
                    dd = dd.base
                if type(dd).__name__ == "CFuncDeclaratorNode":
                    continue
                t = self.ctype(n.base_type, d)
                decls.append((dd.name, t, self.expr(getattr(dd, "default", None))))
            return S("cdef", decls, line=line)
        if tn in ("PrintStatNode",):
            return S("expr", X("call", X("name", "print"), [], {}), line=line)
        if tn in ("CImportStatNode", "FromCImportStatNode", "FromImportStatNode",
                  "CTypeDefNode", "CDefExternNode", "DefNode", "CFuncDefNode",
                  "GlobalNode", "AssertStatNode", "DelStatNode"):
            if tn == "AssertStatNode":
                return S("assert", self.expr(n.condition), line=line)
            return S("decl", tn, line=line)
        self.mod.unhandled.append(f"stat {tn} at line {line}")
        return S("other", tn, line=line)

    # -- functions
    def func(self, n) -> CyFunc:
        tn = type(n).__name__
        line = n.pos[1]
        if tn == "DefNode":
            args = []
            for a in n.args:
                t = self.ctype(a.base_type, a.declarator)
                if getattr(a, "not_none", False):
                    t.not_none = True
                dd = a.declarator
                while type(dd).__name__ == "CPtrDeclaratorNode":
                    dd = dd.base
                name = dd.name
                if not name and type(a.base_type).__name__ == "CSimpleBaseTypeNode":
                    # untyped python argument: the "type name" is the arg name
                    name = a.base_type.name
                    t = CType("object", "")
                args.append((name, t))
            f = CyFunc(n.name, "def", args, self.stats(n.body), line, self.mod)
            if n.decorators:
                f.decorators = [pp(self.expr(d.decorator)) for d in n.decorators]
        else:
            decl = n.declarator
            while type(decl).__name__ != "CFuncDeclaratorNode":
                decl = decl.base
            name = decl.base.name
            args = []
            for a in decl.args:
                t = self.ctype(a.base_type, a.declarator)
                dd = a.declarator
                while type(dd).__name__ == "CPtrDeclaratorNode":
                    dd = dd.base
                args.append((dd.name, t))
            f = CyFunc(name, "cdef", args, self.stats(n.body), line, self.mod,
                       ret=str(self.ctype(n.base_type)),
                       inline="inline" in (n.modifiers or []))
            if getattr(n, "decorators", None):
                f.decorators = [pp(self.expr(d.decorator)) for d in n.decorators]
        # locals
        for s in walk(f.body):
            if isinstance(s, X) and s.k == "cdef":
                for (nm, t, init) in s.a[0]:
                    f.locals[nm] = (t, init, s.line)
        return f


def _parse(path: str, modname: str, srcroot: str):
    from Cython.Compiler.Main import Context, CompilationOptions, default_options
    from Cython.Compiler.Scanning import FileSourceDescriptor
    from Cython.Compiler import Errors
    opts = CompilationOptions(default_options)
    ctx = Context([srcroot], {}, options=opts, language_level=3)
    src = FileSourceDescriptor(path, os.path.basename(path))
    scope = ctx.find_module(modname, pos=(src, 1, 0), need_pxd=False)
    try:
        tree = ctx.parse(src, scope, pxd=False, full_module_name=modname)
    except Exception as e:           # Cython CompileError
        raise AnalysisError(f"cannot parse {path}: {e}") from e
    if Errors.get_errors_count() if hasattr(Errors, "get_errors_count") else 0:
        raise AnalysisError(f"Cython reported errors while parsing {path}")
    return tree


def load_module(repo: str, modname: str) -> CyModule:
    srcroot = os.path.join(repo, "src")
    path = os.path.join(srcroot, modname.replace(".", os.sep) + ".pyx")
    if not os.path.exists(path):
        raise AnalysisError(f"missing {path}")
    tree = _parse(path, modname, srcroot)
    mod = CyModule(modname, path, os.path.relpath(path, repo))
    with open(path, encoding="utf-8") as f:
        mod.source = f.read()
    for ln in mod.source.splitlines():
        s = ln.strip()
        if not s:
            continue
        if s.startswith("#"):
            if s.lstrip("#").strip().startswith("cython:"):
                mod.header_directives.append(s)
            continue
        break
    conv = _Conv(mod)

    def top(stats):
        for st in stats:
            tn = type(st).__name__
            if tn == "StatListNode":
                top(st.stats)
            elif tn in ("DefNode", "CFuncDefNode"):
                f = conv.func(st)
                mod.funcs[f.name] = f
            elif tn == "CDefExternNode":
                mod.extern_files.append(st.include_file)
                body = st.body.stats if type(st.body).__name__ == "StatListNode" \
                    else [st.body]
                for d in body:
                    if type(d).__name__ != "CVarDefNode":
                        continue
                    for decl in d.declarators:
                        dd = decl
                        retptr = 0
                        while type(dd).__name__ == "CPtrDeclaratorNode":
                            retptr += 1
                            dd = dd.base
                        if type(dd).__name__ != "CFuncDeclaratorNode":
                            continue
                        args = []
                        for a in dd.args:
                            t = conv.ctype(a.base_type, a.declarator)
                            an = a.declarator
                            while type(an).__name__ == "CPtrDeclaratorNode":
                                an = an.base
                            args.append((an.name, t))
                        mod.externs[dd.base.name] = (
                            str(conv.ctype(d.base_type)) + "*" * retptr, args,
                            st.include_file, d.pos[1])
            elif tn == "CTypeDefNode":
                dd = st.declarator
                nm = None
                while dd is not None and not hasattr(dd, "name"):
                    dd = getattr(dd, "base", None)
                nm = getattr(dd, "name", None)
                mod.ctypedefs[nm] = st
            elif tn == "CVarDefNode":
                for d in st.declarators:
                    dd = d
                    while type(dd).__name__ == "CPtrDeclaratorNode":
                        dd = dd.base
                    if hasattr(dd, "name"):
                        mod.globals[dd.name] = conv.expr(getattr(dd, "default", None))
            elif tn == "SingleAssignmentNode":
                l = conv.expr(st.lhs)
                if l.k == "name":
                    mod.globals[l.a[0]] = conv.expr(st.rhs)
    top(tree.body.stats if type(tree.body).__name__ == "StatListNode" else [tree.body])
    return mod


class CyProgram:
    def __init__(self, repo: str, modnames):
        self.repo = repo
        self.modules = {m: load_module(repo, m) for m in sorted(modnames)}
        self.types = load_types(repo)

    def func(self, modname, name) -> Optional[CyFunc]:
        m = self.modules.get(modname)
        return m.funcs.get(name) if m else None

    def all_funcs(self):
        for m in self.modules.values():
            for f in m.funcs.values():
                yield f


# ---------------------------------------------------------------------------
# types.pxd / types.py agreement

NUMPY_WIDTH = {"int8": 1, "int16": 2, "int32": 4, "int64": 8, "float32": 4,
               "float64": 8, "uint8": 1, "bool": 1}


def load_types(repo: str) -> dict:
    """ctypedef alias (ADJ_t ...) -> numpy dtype name, from types.pxd, and the
    python alias (ADJ ...) -> dtype from types.py; verified to agree."""
    import ast as pyast
    import re
    pxd = os.path.join(repo, "src/pyunicorn/core/_ext/types.pxd")
    py = os.path.join(repo, "src/pyunicorn/core/_ext/types.py")
    ct = {}
    with open(pxd, encoding="utf-8") as f:
        for ln in f:
            m = re.match(r"\s*ctypedef\s+([\w.]+)\s+(\w+)\s*$", ln)
            if m:
                ct[m.group(2)] = m.group(1)

    def resolve_c(n, depth=0):
        if depth > 10:
            raise AnalysisError("types.pxd typedef cycle")
        if n.startswith("cnp.") and n.endswith("_t"):
            return n[4:-2]
        if n in ct:
            return resolve_c(ct[n], depth + 1)
        raise AnalysisError(f"types.pxd: cannot resolve {n}")
    ctypes = {k: resolve_c(k) for k in ct}
    pt = {}
    with open(py, encoding="utf-8") as f:
        tree = pyast.parse(f.read())
    for st in tree.body:
        if isinstance(st, pyast.Assign) and len(st.targets) == 1 and \
                isinstance(st.targets[0], pyast.Name):
            v = st.value
            if isinstance(v, pyast.Attribute) and isinstance(v.value, pyast.Name) \
                    and v.value.id == "np":
                pt[st.targets[0].id] = v.attr
            elif isinstance(v, pyast.Name) and v.id in pt:
                pt[st.targets[0].id] = pt[v.id]
    # agreement: X_t <-> X
    mism = []
    for cname, dt in ctypes.items():
        pn = cname[:-2] if cname.endswith("_t") else cname
        if pn in pt and pt[pn] != dt:
            mism.append((cname, dt, pn, pt[pn]))
    # to_cy must copy into C order
    to_cy_ok = False
    for st in tree.body:
        if isinstance(st, pyast.FunctionDef) and st.name == "to_cy":
            src = pyast.unparse(st)
            to_cy_ok = "order='c'" in src.replace('"', "'") and "copy=True" in src
    return {"c": ctypes, "py": pt, "mismatch": mism, "to_cy_c_copy": to_cy_ok}


def rename_x(x, mapping: dict):
    """Copy of an IR tree with `name` nodes renamed (simultaneously)."""
    if isinstance(x, X):
        if x.k == "name":
            return X("name", mapping.get(x.a[0], x.a[0]), line=x.line)
        return X(x.k, *[rename_x(v, mapping) for v in x.a], line=x.line)
    if isinstance(x, list):
        return [rename_x(v, mapping) for v in x]
    if isinstance(x, tuple):
        return tuple(rename_x(v, mapping) for v in x)
    if isinstance(x, dict):
        return {k: rename_x(v, mapping) for k, v in x.items()}
    return x


def canonical_mapping(roles: dict, all_names) -> dict:
    """roles: actual name -> canonical name.  Names that are not roles but
    collide with a canonical name are moved out of the way."""
    m = dict(roles)
    taken = set(roles.values())
    for n in all_names:
        if n not in m and n in taken:
            m[n] = "_u_" + n
    return m
