"""C14 - visibility graphs: sibling/partition clauses V1..V3."""
from __future__ import annotations

import ast
import re

from .pymodel import Program
from .cymodel import CyProgram, X, pp, walk, rename_x, canonical_mapping, names_in
from .kernels import report_sites
from .loopir import count_sites, canon_loopvars, quotient_numerators
from .report import Run, AnalysisError

TS = "pyunicorn.timeseries._ext.numerics"


def _canon_body(f):
    """The kernel body with identifiers renamed by *role* (alpha-normalised):
    parameters by declared type (x, t: 1-D FIELD_t in order; mv_indices: 1-D
    MASK_t; A: the 2-D buffer; N: the integer), loop variables by nesting
    (i outer, j inner), k = the variable the scan loop increments, ref = the
    name the scan compares against.  Renaming a local does not change it."""
    roles = {}
    def bufs(nd, tn=None):
        return [n for n, t in f.args if t.kind in ("buffer", "memview")
                and t.ndim == nd and (tn is None or t.name == tn)]
    for n, c in zip(bufs(1, "FIELD_t"), ("x", "t")):
        roles[n] = c
    for n in bufs(1, "MASK_t")[:1]:
        roles[n] = "mv_indices"
    for n in bufs(2)[:1]:
        roles[n] = "A"
    for n in [n for n, t in f.args if t.kind == "simple"][:1]:
        roles[n] = "N"
    out = []
    from .loopir import inline_element_locals, normalise_scans
    fbody = normalise_scans(inline_element_locals(f.body))
    for st in fbody:
        r = dict(roles)
        if st.k == "for" and st.a[0].k == "name":
            r[st.a[0].a[0]] = "i"
            inner = [s for s in st.a[2] if s.k == "for" and s.a[0].k == "name"]
            if inner:
                J = inner[0].a[0].a[0]
                r[J] = "j"
                for w in walk(inner[0].a[2]):
                    if isinstance(w, X) and w.k == "while":
                        # the scan variable: `k += 1` or `k = k + 1`
                        incs = [q.a[1].a[0] for q in w.a[1]
                                if q.k == "aug" and q.a[1].k == "name"]
                        for q in w.a[1]:
                            if q.k == "assign" and len(q.a[0]) == 1 and \
                                    q.a[0][0].k == "name" and q.a[1].k == "bin" and \
                                    q.a[1].a[0] == "+" and q.a[0][0].a[0] in (
                                        pp(q.a[1].a[1]), pp(q.a[1].a[2])):
                                incs.append(q.a[0][0].a[0])
                        if not incs:
                            continue
                        K = incs[0]
                        r[K] = "k"
                        for c in _conj(w.a[0]):
                            if c.k != "cmp":
                                continue
                            for side in (c.a[1], c.a[2]):
                                if side.k == "name" and side.a[0] not in (K, J) \
                                        and side.a[0] not in r:
                                    r[side.a[0]] = "ref"
        out.append(rename_x(st, canonical_mapping(r, names_in(st))))
    return out


def _shape(f):
    """Structural summary of a visibility kernel: pair loops, slope test,
    while-condition conjuncts, stores."""
    body = _canon_body(f)
    loops = []
    whiles = []
    stores = []
    tests = []
    assigns = {}

    def go(stmts, chain):
        for st in stmts:
            if st.k == "for":
                loops.append((pp(st.a[0]), pp(st.a[1]).replace(" ", ""), len(chain)))
                go(st.a[2], chain + [st])
            elif st.k == "while":
                whiles.append(st)
                go(st.a[1], chain)
            elif st.k == "if":
                for c, b in st.a[0]:
                    tests.append((pp(c), [pp(s) for s in b]))
                    go(b, chain)
                go(st.a[1], chain)
            elif st.k == "assign":
                if any(t.k == "index" and pp(t.a[0]) == "A" for t in st.a[0]):
                    stores.append((st, [pp(l.a[0]) for l in chain],
                                   [pp(c) for c in []]))
                for t in st.a[0]:
                    if t.k == "name":
                        assigns.setdefault(t.a[0], []).append(pp(st.a[1]))
    go(body, [])
    return {"loops": loops, "whiles": whiles, "stores": stores, "tests": tests,
            "assigns": assigns, "body": body}


def _conj(c: X):
    if c.k == "boolop" and c.a[0] == "and":
        out = []
        for x in c.a[1]:
            out += _conj(x)
        return out
    return [c]


def v1(run: Run, cy: CyProgram):
    names = ["_visibility_relations_missingvalues",
             "_visibility_relations_no_missingvalues",
             "_visibility_relations_horizontal"]
    fs = {}
    for n in names:
        f = cy.func(TS, n)
        if f is None:
            raise AnalysisError(f"{n} vanished")
        fs[n] = (f, _shape(f))
    mv, nomv = fs[names[0]], fs[names[1]]
    # identical loop domains
    ok = mv[1]["loops"] == nomv[1]["loops"]
    run.oblige("V1", "natural:loop-domains", ok, sample={
        "mv": mv[1]["loops"], "no_mv": nomv[1]["loops"]})
    if not ok:
        run.add("V1", "natural/loop-domains", mv[0].where,
                f"the two natural-visibility kernels iterate different pair domains: "
                f"{mv[1]['loops']} vs {nomv[1]['loops']}")
    # identical slope expression for `test`
    ok = mv[1]["assigns"].get("ref") == nomv[1]["assigns"].get("ref") and \
        mv[1]["assigns"].get("k") == nomv[1]["assigns"].get("k")
    run.oblige("V1", "natural:slope", ok, sample={"ref": mv[1]["assigns"].get("ref")})
    if not ok:
        run.add("V1", "natural/slope", mv[0].where,
                f"the two natural-visibility kernels compute different reference "
                f"slopes / start indices: {mv[1]['assigns'].get('ref')} vs "
                f"{nomv[1]['assigns'].get('ref')}")
    # while condition: mv = no_mv + extra conjunct on mv_indices
    if len(mv[1]["whiles"]) != 1 or len(nomv[1]["whiles"]) != 1:
        raise AnalysisError("visibility kernels: expected exactly one scan loop each")
    cm = [pp(c) for c in _conj(mv[1]["whiles"][0].a[0])]
    cn = [pp(c) for c in _conj(nomv[1]["whiles"][0].a[0])]
    extra = [c for c in cm if c not in cn]
    missing = [c for c in cn if c not in cm]
    ok = not missing and len(extra) == 1 and "mv_indices[k]" in extra[0] and \
        extra[0].startswith("(not")
    run.oblige("V1", "natural:scan-condition", ok, sample={
        "mv": cm, "no_mv": cn})
    if not ok:
        run.add("V1", "natural/scan-condition",
                f"{mv[0].module.relpath}:{mv[1]['whiles'][0].line}",
                f"the missing-value kernel must scan with the complete-data condition "
                f"{cn} plus exactly `not mv_indices[k]`; it uses {cm}")
    # strict comparison `<` between intermediate slope and reference slope
    for n, (f, sh) in fs.items():
        conds = _conj(sh["whiles"][0].a[0])
        rel = [c for c in conds if c.k == "cmp" and "ref" in names_in(c)]
        ok = len(rel) == 1 and ((rel[0].a[0] == "<" and pp(rel[0].a[2]) == "ref") or
                                (rel[0].a[0] == ">" and pp(rel[0].a[1]) == "ref"))
        run.oblige("V1", f"{n}:strict", ok, sample={
            "where": f"{f.module.relpath}:{sh['whiles'][0].line}",
            "cond": [pp(c) for c in conds]})
        if not ok:
            run.add("V1", f"{n}/strictness", f"{f.module.relpath}:{sh['whiles'][0].line}",
                    f"{n}: an intermediate sample must lie *strictly* below the line "
                    f"(`slope_k < test`), found {[pp(c) for c in rel]}")
        bound = [c for c in conds if pp(c).replace(" ", "") in ("(k<j)", "(j>k)")]
        run.oblige("V1", f"{n}:scan-bound", bool(bound), nontrivial=False)
        if not bound:
            run.add("V1", f"{n}/scan-bound", f"{f.module.relpath}:{sh['whiles'][0].line}",
                    f"{n}: the scan over intermediate samples is not bounded by k < j")
        # link iff the scan reached j
        tests = [t for t in sh["tests"] if "A[i, j]" in " ".join(t[1])]
        ok = len(tests) == 1 and tests[0][0].replace(" ", "") in ("(k==j)", "(j==k)")
        run.oblige("V1", f"{n}:link-condition", ok)
        if not ok:
            run.add("V1", f"{n}/link-condition", f.where,
                    f"{n}: a link must be set exactly when the scan reaches j (k == j)")
        # symmetric stores (chained or as neighbouring statements)
        from .loopir import symmetric_store_report
        for (arr, idx, v, st, sym) in symmetric_store_report(sh["body"], {"A"}):
            run.oblige("V1", f"{n}:symmetric-store@{st.line}", sym)
            if not sym:
                run.add("V1", f"{n}/asymmetric-store", f"{f.module.relpath}:{st.line}",
                        f"{n} stores `{pp(st)}`: visibility is symmetric, both "
                        f"orientations must be written")
    # trivial neighbour links: guarded in the mv kernel, unconditional otherwise
    # (a neighbour store is A[p, q] with q = p + 1, however p is spelled: the
    # guard must test the mask at both p and q)
    def _neighbour_guard_ok(test_src, stores_src):
        for m_ in re.finditer(r"A\[([^,\]]+), ([^\]]+)\]", stores_src):
            p_, q_ = m_.group(1).strip(), m_.group(2).strip()

            def off(a, b):
                # b == a + 1 as text forms: "(a + 1)" / a == "(b - 1)"
                return b.replace(" ", "") in (f"({a}+1)".replace(" ", ""),
                                              f"(1+{a})".replace(" ", "")) or \
                    a.replace(" ", "") == f"({b}-1)".replace(" ", "")
            if off(p_, q_) or off(q_, p_):
                return f"mv_indices[{p_}]" in test_src and f"mv_indices[{q_}]" in test_src
        return None
    triv_mv = [t for t in mv[1]["tests"]
               if _neighbour_guard_ok(t[0], " ".join(t[1])) is not None]
    ok = len(triv_mv) == 1 and _neighbour_guard_ok(triv_mv[0][0], " ".join(triv_mv[0][1]))
    run.oblige("V1", "natural:trivial-links-guard", ok)
    if not ok:
        run.add("V1", "natural/trivial-links-guard", mv[0].where,
                "missing-value kernel: neighbouring samples may only be linked when "
                "neither of them is missing")


def _row_part(m):
    """How a time-directed degree method selects its part of row i:
    ('slice', lower, upper, row)  for  A[i, lower:upper].sum()
    ('tri', 'lower'|'upper', k, axis) for np.tril/np.triu(A, k).sum(axis=..)
    with locals inlined; None if the form is not recognised."""
    from .idioms import inline_locals
    subs = [s for s in ast.walk(m.node) if isinstance(s, ast.Subscript)
            and isinstance(s.slice, ast.Tuple) and len(s.slice.elts) == 2
            and isinstance(s.slice.elts[1], ast.Slice) and isinstance(s.ctx, ast.Load)]
    if len(subs) == 1:
        s = subs[0]
        d = s.slice.elts[1]
        return ("slice", ast.unparse(d.lower) if d.lower else None,
                ast.unparse(d.upper) if d.upper else None,
                ast.unparse(s.slice.elts[0]), s)
    for r in ast.walk(m.node):
        if not (isinstance(r, ast.Return) and r.value is not None):
            continue
        e = inline_locals(m.node, r.value)
        for c in ast.walk(e):
            if isinstance(c, ast.Call) and isinstance(c.func, ast.Attribute) and \
                    c.func.attr == "sum" and isinstance(c.func.value, ast.Call) and \
                    ast.unparse(c.func.value.func) in ("np.tril", "np.triu"):
                tri = c.func.value
                k = 0
                if len(tri.args) > 1:
                    k = tri.args[1]
                for kw in tri.keywords:
                    if kw.arg == "k":
                        k = kw.value
                try:
                    k = int(ast.literal_eval(k)) if not isinstance(k, int) else k
                except (ValueError, SyntaxError):
                    return None
                ax = None
                if c.args:
                    ax = c.args[0]
                for kw in c.keywords:
                    if kw.arg == "axis":
                        ax = kw.value
                try:
                    ax = int(ast.literal_eval(ax)) if ax is not None else None
                except (ValueError, SyntaxError):
                    return None
                return ("tri", "lower" if ast.unparse(tri.func) == "np.tril" else "upper",
                        k, ax, r)
    return None


def v2(run: Run, prog: Program):
    vg = prog.classes.get("VisibilityGraph")
    if vg is None:
        raise AnalysisError("VisibilityGraph vanished")
    sl = {}
    for mname in ("retarded_degree", "advanced_degree"):
        m = vg.methods.get(mname)
        if m is None:
            raise AnalysisError(f"VisibilityGraph.{mname} vanished")
        # a shared private helper selected by a constant flag is analysed as the
        # statements it stands for under that constant
        import copy
        from .idioms import inline_simple_helpers, fold_constants

        def resolve(hn, _c=vg):
            h = prog.lookup(_c, hn)
            return h.node if h is not None and hn.startswith("_") else None
        m2 = copy.copy(m)
        m2.node = fold_constants(inline_simple_helpers(m.node, resolve), {})
        part = _row_part(m2)
        if part is None:
            run.unknowns.append(f"V2: {m.where}: row selection of {mname} not "
                                f"recognised; partition of the row not decided")
            return
        sl[mname] = (part, m)
    (r, rm), (a, am) = sl["retarded_degree"], sl["advanced_degree"]
    if r[0] == "slice" and a[0] == "slice":
        ok = r[3] == a[3] and r[1] is None and a[2] is None and r[2] is not None and \
            a[1] in (r[2], f"{r[2]} + 1") and r[2] == r[3]
        desc = (f"`[{r[3]}, {r[1]}:{r[2]}]`", f"`[{a[3]}, {a[1]}:{a[2]}]`")
    elif r[0] == "tri" and a[0] == "tri":
        # row i of the strictly lower / strictly upper triangle, summed along the
        # row (axis=1); the diagonal is empty, so k = 0 is equivalent to k = -/+1
        ok = r[1] == "lower" and a[1] == "upper" and r[2] in (-1, 0) and a[2] in (0, 1) \
            and r[3] == a[3] == 1
        desc = (f"`np.tril(A, {r[2]}).sum(axis={r[3]})`",
                f"`np.triu(A, {a[2]}).sum(axis={a[3]})`")
    else:
        ok = False
        desc = (str(r[:4]), str(a[:4]))
    run.oblige("V2", "retarded+advanced=degree", ok, sample={
        "retarded": desc[0], "advanced": desc[1]})
    if not ok:
        run.add("V2", "VisibilityGraph/complementary-slices", am.where,
                f"retarded_degree sums {desc[0]} and advanced_degree {desc[1]}: the two "
                f"selections must partition row i (diagonal is empty) and be summed "
                f"along the row, otherwise retarded + advanced != degree")


def v5(run: Run, prog: Program):
    """Retarded / advanced closeness average the path lengths over the strict
    past / strict future of a node: a window that contains the node itself
    averages in the zero diagonal, so the two measures are no longer exchanged
    by time reversal."""
    import copy
    from .idioms import inline_simple_helpers, fold_constants, single_defs
    from .rules_c15 import _specialise
    vg = prog.classes.get("VisibilityGraph")
    if vg is None:
        raise AnalysisError("VisibilityGraph vanished")

    def slice_calls_to_slices(node):
        """`w = slice(a, b)` ... `X[i, w]`  ->  `X[i, a:b]`"""
        node = copy.deepcopy(node)
        defs = single_defs(node)

        def as_slice(e):
            if isinstance(e, ast.Name) and isinstance(defs.get(e.id), ast.AST):
                e = defs[e.id]
            if isinstance(e, ast.Call) and ast.unparse(e.func) == "slice" and \
                    1 <= len(e.args) <= 2 and not e.keywords:
                a = list(e.args)
                lo, hi = (None, a[0]) if len(a) == 1 else a

                def none(x):
                    return None if x is None or (isinstance(x, ast.Constant)
                                                 and x.value is None) else x
                return ast.Slice(lower=none(lo), upper=none(hi), step=None)
            return None
        for sub in ast.walk(node):
            if isinstance(sub, ast.Subscript) and isinstance(sub.slice, ast.Tuple) and \
                    len(sub.slice.elts) == 2:
                r = as_slice(sub.slice.elts[1])
                if r is not None:
                    sub.slice.elts[1] = r
        return node

    def body_of(m):
        sn = m.params[0]
        for c in ast.walk(m.node):
            if isinstance(c, ast.Call) and isinstance(c.func, ast.Attribute) and \
                    isinstance(c.func.value, ast.Name) and c.func.value.id == sn and \
                    c.func.attr.startswith("_"):
                h = prog.lookup(vg, c.func.attr)
                if h is None or h.kind != "method":
                    continue
                try:
                    sp = _specialise(h.node, c, lambda a: isinstance(
                        a, (ast.Constant, ast.Attribute, ast.Name)) and not (
                        isinstance(a, ast.Name) and a.id == sn))
                except Exception:      # noqa
                    sp = None
                if sp is not None:
                    node = slice_calls_to_slices(sp[0])
                    m2 = copy.copy(h)
                    m2.node = node
                    if _row_part(m2) is not None:
                        return m2

        def resolve(hn, _c=vg):
            h = prog.lookup(_c, hn)
            return h.node if h is not None and hn.startswith("_") else None
        m2 = copy.copy(m)
        m2.node = slice_calls_to_slices(
            fold_constants(inline_simple_helpers(m.node, resolve), {}))
        return m2

    def mean_reduced(m2, sub):
        """Is the selected window reduced by an arithmetic mean?  True / False /
        None (not recognised)."""
        parents = {}
        for n in ast.walk(m2.node):
            for ch in ast.iter_child_nodes(n):
                parents[id(ch)] = n
        par = parents.get(id(sub))
        if isinstance(par, ast.Attribute) and isinstance(parents.get(id(par)), ast.Call):
            return par.attr == "mean" if par.attr in ("mean", "sum", "max", "min") \
                else None
        if isinstance(par, ast.Call) and sub in par.args:
            fn = ast.unparse(par.func)
            if fn in ("np.mean", "numpy.mean"):
                return True
            if fn in ("np.sum", "numpy.sum", "sum", "np.max", "np.min"):
                return False
            g = None
            if isinstance(par.func, ast.Attribute) and isinstance(par.func.value, ast.Name):
                g = prog.lookup(vg, par.func.attr)
            if g is not None:
                gp = [p_ for p_ in g.params if p_ not in ("self", "cls")]
                if len(gp) == 1:
                    for n in ast.walk(g.node):
                        if isinstance(n, ast.Call) and isinstance(n.func, ast.Attribute) \
                                and n.func.attr == "mean" and \
                                ast.unparse(n.func.value) == gp[0]:
                            return True
                        if isinstance(n, ast.Call) and ast.unparse(n.func) in (
                                "np.mean", "numpy.mean") and n.args and \
                                ast.unparse(n.args[0]) == gp[0]:
                            return True
        return None

    for mname, side in (("retarded_closeness", "past"), ("advanced_closeness", "future")):
        m = vg.methods.get(mname)
        if m is None:
            run.unknowns.append(f"V5: VisibilityGraph.{mname} not found; window of the "
                                f"time-directed closeness not decided")
            continue
        m2 = body_of(m)
        part = _row_part(m2)
        if part is None or part[0] != "slice":
            run.unknowns.append(f"V5: {m.where}: window of {mname} not recognised")
            continue
        _, lo, hi, row, sub = part
        red = mean_reduced(m2, sub)
        if red is None:
            run.unknowns.append(f"V5: {m.where}: reduction of the window of {mname} "
                                f"not recognised")
            continue
        norm = lambda x: x.replace(" ", "") if x else x        # noqa: E731
        lo, hi, rown = norm(lo), norm(hi), norm(row)
        if side == "past":
            contains_self = hi in (f"{rown}+1", f"1+{rown}") and lo in (None, "0")
            strict = hi == rown and lo in (None, "0")
        else:
            contains_self = lo == rown and hi is None
            strict = lo in (f"{rown}+1", f"1+{rown}") and hi is None
        if not (contains_self or strict):
            run.unknowns.append(f"V5: {m.where}: window `[{lo}:{hi}]` of {mname} is "
                                f"neither the strict {side} nor the {side} with the node")
            continue
        ok = strict or not red
        run.oblige("V5", f"{mname}:strict-{side}", ok, sample={
            "where": m.where, "window": f"[{row}, {lo or ''}:{hi or ''}]",
            "mean": red})
        if not ok:
            run.add("V5", f"VisibilityGraph.{mname}/window-contains-node", m.where,
                    f"{mname} averages the path lengths over `[{row}, {lo or ''}:"
                    f"{hi or ''}]`, which contains the node itself (distance 0): the "
                    f"mean is taken over one element too many, so {mname} is not the "
                    f"mirror image of its time-reversed counterpart")


def v3(run: Run, cy: CyProgram):
    """Retarded / advanced clustering kernels: triangle completeness and the
    past/future pair domains."""
    for kname, dom in (("_retarded_local_clustering", "past"),
                       ("_advanced_local_clustering", "future")):
        f = cy.func(TS, kname)
        if f is None:
            raise AnalysisError(f"{kname} vanished")
        from .loopir import inline_value_helpers
        body = canon_loopvars(inline_value_helpers(f))
        nums = set(quotient_numerators(body))
        sites = [s for s in count_sites(body) if s.counter in nums]
        if len(sites) != 1:
            raise AnalysisError(f"{f.where}: counter site not found")
        s = sites[0]
        adj = next((n for n, t in f.args if t.kind in ("buffer", "memview")
                    and t.ndim == 2), "A")
        size = next((n for n, t in f.args if t.kind == "simple"), "N")
        pairs = sorted(tuple(sorted(p)) for p in s.pairs(adj))
        ok = pairs == [("i", "j"), ("i", "k"), ("j", "k")]
        run.oblige("V3", f"{kname}:triangle", ok, sample={"pairs": pairs})
        if not ok:
            run.add("V3", f"{kname}/triangle", f"{f.module.relpath}:{s.line}",
                    f"{kname} counts triangles testing only the links {pairs}")
        loops = {v: pp(it).replace(" ", "") for v, it in s.loops}
        # the pairs lo <= k < j < hi with (lo, hi) = (0, i) in the past and
        # (i+1, N) in the future of i; range bounds are compared as linear
        # forms, and j may start at lo or lo + 1 (k has no value for j = lo)
        itx = dict(s.loops)

        def lin(e):
            if e is None:
                return None
            if e.k == "num":
                return {"": e.a[0]} if e.a[0] != 0 else {}
            if e.k == "name":
                return {e.a[0]: 1}
            if e.k == "bin" and e.a[0] in "+-":
                l, r = lin(e.a[1]), lin(e.a[2])
                if l is None or r is None:
                    return None
                out = dict(l)
                for k_, v_ in r.items():
                    out[k_] = out.get(k_, 0) + (v_ if e.a[0] == "+" else -v_)
                return {k_: v_ for k_, v_ in out.items() if v_ != 0}
            return None

        def bounds(it):
            if it is None or it.k != "call" or pp(it.a[0]) != "range" or \
                    len(it.a[1]) not in (1, 2):
                return None, None
            if len(it.a[1]) == 1:
                return {}, lin(it.a[1][0])
            return lin(it.a[1][0]), lin(it.a[1][1])
        lo, hi = ({}, {"i": 1}) if dom == "past" else ({"i": 1, "": 1}, {size: 1})
        ja, jb = bounds(itx.get("j"))
        ka, kb = bounds(itx.get("k"))
        lo1 = dict(lo)
        lo1[""] = lo1.get("", 0) + 1
        okd = ja in (lo, lo1) and jb == hi and ka == lo and kb == {"j": 1}
        if not okd:
            # the same pairs with the earlier node in the outer loop:
            # outer in [lo, hi) or [lo, hi-1), inner in [outer+1, hi)
            hi1 = dict(hi)
            hi1[""] = hi1.get("", 0) - 1
            hi1 = {k_: v_ for k_, v_ in hi1.items() if v_ != 0}
            okd = ja == lo and jb in (hi, hi1) and ka == {"j": 1, "": 1} and kb == hi
        run.oblige("V3", f"{kname}:domain", okd, sample={"loops": loops})
        if not okd:
            run.add("V3", f"{kname}/domain", f"{f.module.relpath}:{s.line}",
                    f"{kname} must enumerate unordered pairs in the {dom} of i, "
                    f"loops are {loops}")


def v4(run: Run, prog: Program):
    """Sibling agreement of the two relation builders: the horizontal builder
    consults the missing-value switch like the natural one (missing samples
    block visibility and stay isolated in *both* graph types)."""
    from .idioms import truthiness_flags
    vg = prog.classes.get("VisibilityGraph")
    builders = {n: vg.methods.get(n) for n in ("visibility_relations",
                                               "visibility_relations_horizontal")}
    if any(m is None for m in builders.values()):
        raise AnalysisError("VisibilityGraph relation builders vanished")
    flags = {n: truthiness_flags(m.node, m.params[0]) for n, m in builders.items()}
    mode = set().union(*flags.values()) - {"silence_level"}
    for n, m in sorted(builders.items()):
        missing = sorted(mode - flags[n])
        run.oblige("V4", f"{m.qualname}:modes", not missing, sample={
            "where": m.where, "consults": sorted(flags[n])})
        if missing:
            run.add("V4", f"{m.qualname}/missing-dispatch:" + ",".join(missing), m.where,
                    f"{m.qualname} builds the graph without consulting "
                    f"{['self.' + x for x in missing]}, which its sibling builder "
                    f"dispatches on: with missing values the samples that are missing "
                    f"are linked like ordinary samples instead of blocking visibility "
                    f"and staying isolated")


def check(run: Run, prog: Program, cy: CyProgram, sites):
    run.rule("V4", "both relation builders (natural, horizontal) consult the "
             "missing-value switch")
    run.rule("V1", "the two natural-visibility kernels agree (domains, slope, strict "
             "relation) and differ exactly by the missing-value conjunct and guard; "
             "all kernels store symmetrically and link iff the scan reaches j")
    run.rule("V2", "retarded and advanced degree sum complementary slices of a row")
    run.rule("V5", "retarded / advanced closeness average path lengths over the "
             "strict past / future of a node (the zero diagonal is not averaged in)")
    run.rule("V3", "retarded/advanced clustering kernels count complete triangles over "
             "past/future pairs; kernel boundary typing")
    run.explanation = (
        "Sibling/partition clauses of C14. The geometric criterion on values, "
        "ties, float32 effects and invariances are NOT decided.")
    v1(run, cy)
    v2(run, prog)
    v5(run, prog)
    run.rule("V6", "memoised results of a VisibilityGraph (degrees, path lengths, "
             "adjacency-derived arrays) are never edited in place: a later "
             "retarded / advanced query sees the same graph")
    from .rules_c06 import p1_restricted
    p1_restricted(run, "V6", prog, lambda o: o.startswith("cached:VisibilityGraph."),
                  "memoised VisibilityGraph result", floor=0)
    v3(run, cy)
    v4(run, prog)
    n = report_sites(run, "V3", sites,
                     lambda s: "visibility_graph" in s.func.module.relpath)
    run.floor("V3 call sites", n, 1)
