"""C12 - grid distances: structural clauses G1..G5."""
from __future__ import annotations

import ast
import re

from .pymodel import Program
from .cymodel import CyProgram, X, pp, walk, names_in
from .kernels import report_sites
from .report import Run, AnalysisError

PAIRWISE = [
    ("pyunicorn.core._ext.numerics", "_calculate_angular_distance", "cosangdist"),
    ("pyunicorn.core._ext.numerics", "_calculate_euclidean_distance", "distance"),
    ("pyunicorn.timeseries._ext.numerics", "_manhattan_distance_matrix_rp", "distance"),
    ("pyunicorn.timeseries._ext.numerics", "_euclidean_distance_matrix_rp", "distance"),
    ("pyunicorn.timeseries._ext.numerics", "_supremum_distance_matrix_rp", "distance"),
]


def _loops(body, acc=None, chain=()):
    """[(stmt, chain of enclosing for-loops)] for every statement."""
    out = []
    for st in body:
        out.append((st, chain))
        if st.k == "for":
            out += _loops(st.a[2], None, chain + (st,))
        elif st.k == "while":
            out += _loops(st.a[1], None, chain)
        elif st.k == "if":
            for c, b in st.a[0]:
                out += _loops(b, None, chain)
            out += _loops(st.a[1], None, chain)
    return out


def g1(run: Run, cy: CyProgram):
    for modname, kname, out in PAIRWISE:
        f = cy.func(modname, kname)
        if f is None:
            raise AnalysisError(f"pairwise kernel {kname} vanished")
        from .loopir import symmetric_store_report
        # the output is the 2-D array the pair loops store to (its name is the
        # kernel author's choice)
        cands = sorted({r[0] for r in symmetric_store_report(f.body)})
        if out not in cands and len(cands) == 1:
            out = cands[0]
        chains = {id(st): chain for st, chain in _loops(f.body)}
        rep = [r for r in symmetric_store_report(f.body, {out})]
        if not rep:
            raise AnalysisError(f"{f.where}: no store to `{out}` in {kname}")
        stores = []
        seen = set()
        # a separate mirror pass `for a in R1: for b in R2: out[b, a] = out[a, b]`
        # over the same pair loops completes one-sided stores
        mirror_domains = []
        for st_, ch_ in _loops(f.body):
            if st_.k == "assign" and len(st_.a[0]) == 1 and st_.a[0][0].k == "index" \
                    and st_.a[1].k == "index" and pp(st_.a[0][0].a[0]) == out == \
                    pp(st_.a[1].a[0]) and len(st_.a[0][0].a[1]) == 2 and \
                    [pp(i_) for i_ in st_.a[0][0].a[1]] == \
                    [pp(i_) for i_ in reversed(st_.a[1].a[1])] and len(ch_) >= 2:
                ren = {pp(ch_[-2].a[0]): "_o", pp(ch_[-1].a[0]): "_i"}
                src_idx = tuple(ren.get(pp(i_), pp(i_)) for i_ in st_.a[1].a[1])
                dom = tuple(re.sub(r"\b(%s)\b" % "|".join(map(re.escape, ren)),
                                   lambda m_: ren[m_.group(1)],
                                   pp(l_.a[1]).replace(" ", "")) for l_ in ch_[-2:])
                mirror_domains.append((src_idx, dom, id(st_)))

        def mirrored_later(st_, idx0_):
            ch_ = chains.get(id(st_), ())
            if len(ch_) < 2:
                return False
            ren = {pp(ch_[-2].a[0]): "_o", pp(ch_[-1].a[0]): "_i"}
            idx_c = tuple(ren.get(x_, x_) for x_ in idx0_)
            dom = tuple(re.sub(r"\b(%s)\b" % "|".join(map(re.escape, ren)),
                               lambda m_: ren[m_.group(1)],
                               pp(l_.a[1]).replace(" ", "")) for l_ in ch_[-2:])
            return any(s_idx == idx_c and d_ == dom and sid != id(st_)
                       for s_idx, d_, sid in mirror_domains)
        rep = [r_ for r_ in rep if id(r_[3]) not in {m_[2] for m_ in mirror_domains}]
        rep = [(a_, i_, v_, s_, m_ or mirrored_later(s_, i_)) for a_, i_, v_, s_, m_ in rep]
        for (arr, idx0, v, st, mirrored) in rep:
            run.oblige("G1", f"{kname}:symmetric-store", mirrored, sample={
                "where": f"{f.module.relpath}:{st.line}", "target": idx0})
            if not mirrored:
                run.add("G1", f"{kname}/asymmetric-store", f"{f.module.relpath}:{st.line}",
                        f"{kname} stores `{pp(st)[:80]}` to [{idx0[0]},{idx0[1]}] but the "
                        f"same value is not written to [{idx0[1]},{idx0[0]}] next to it: "
                        f"the distance matrix is not exactly symmetric")
                continue
            key = (tuple(sorted(idx0)), tuple(id(l) for l in chains.get(id(st), ())))
            if key in seen:
                continue
            seen.add(key)
            stores.append((st, chains.get(id(st), ()), idx0))
        allst = _loops(f.body)
        for st, chain, idx0 in stores:
            # a scalar accumulated in a loop nested inside the pair loops and
            # consumed by this store must start afresh for every pair
            vnames = names_in(st.a[1]) if st.k == "assign" else set()
            for nm in sorted(vnames):
                def self_ref(s_):
                    return s_.k == "aug" and s_.a[1].k == "name" and s_.a[1].a[0] == nm \
                        or s_.k == "assign" and any(
                            t.k == "name" and t.a[0] == nm for t in s_.a[0]) and \
                        nm in names_in(s_.a[1])
                accum = [(s_, c_) for s_, c_ in allst if self_ref(s_)
                         and len(c_) > len(chain) and c_[:len(chain)] == chain]
                if not accum:
                    continue
                resets = [c_ for s_, c_ in allst if s_.k == "assign" and any(
                    t.k == "name" and t.a[0] == nm for t in s_.a[0])
                    and nm not in names_in(s_.a[1])]
                # only resets that can precede this store: on its loop chain
                resets = [c_ for c_ in resets if chain[:len(c_)] == c_]
                ok = any(len(c_) == len(chain) for c_ in resets)
                run.oblige("G1", f"{kname}:fresh-accumulator", ok, sample={
                    "accumulator": nm, "reset_depths": sorted(len(c_) for c_ in resets),
                    "pair_loop_depth": len(chain)})
                if not ok and resets:
                    run.add("G1", f"{kname}/accumulator-reset",
                            f"{f.module.relpath}:{accum[0][0].line}",
                            f"{kname}: the value stored for a pair accumulates in a loop "
                            f"over the remaining axis, but the accumulator is reset at loop "
                            f"depth {sorted(len(c_) for c_ in resets)} instead of once per "
                            f"pair (depth {len(chain)}): later pairs of a row include the "
                            f"sums of the earlier ones")
            idx = [idx0]
            # loop domain: the two index variables enumerate the full triangle
            a, b = idx[0]
            if a == b:
                continue        # the diagonal element, stored on its own
            loops = {pp(l.a[0]): l for l in chain}
            if a not in loops or b not in loops:
                # the pairs are not enumerated by two nested for loops (a cursor
                # advanced by hand, say): the covered domain is not derived
                run.unknowns.append(f"G1: {f.where}: {kname} does not enumerate the pairs "
                                    f"{idx[0]} with two nested for loops; coverage of the "
                                    f"triangle not decided")
                continue
            outer, inner = (a, b) if list(loops).index(a) < list(loops).index(b) else (b, a)
            orange = pp(loops[outer].a[1]).replace(" ", "")
            irange = pp(loops[inner].a[1]).replace(" ", "")
            size = None
            alloc = f.locals.get(out)
            zero_init = alloc is not None and alloc[1] is not None and \
                pp(alloc[1].a[0]) == "np.zeros" if alloc and alloc[1] is not None and \
                alloc[1].k == "call" else False
            incl = irange in (f"range(({outer}+1))", f"range({outer}+1)")
            excl = irange == f"range({outer})"
            # the output may also be a parameter that the caller zero-initialises
            caller_zero = f.argtype(out) is not None
            # the diagonal peeled out of the inner loop: `out[o, o] = ...` once per
            # iteration of the outer loop
            oi = [pp(l_.a[0]) for l_ in chain].index(outer)
            diag = any(
                s2.k == "assign" and any(
                    t.k == "index" and pp(t.a[0]) == out and len(t.a[1]) == 2 and
                    pp(t.a[1][0]) == outer == pp(t.a[1][1]) for t in s2.a[0])
                and [id(l_) for l_ in c2] == [id(l_) for l_ in chain[:oi + 1]]
                for s2, c2 in allst)
            full = orange.startswith("range(") and "," not in orange and \
                (incl or (excl and (zero_init or caller_zero or diag)))
            run.oblige("G1", f"{kname}:domain", full, sample={
                "outer": orange, "inner": irange, "zero_initialised_output": zero_init})
            if not full:
                run.add("G1", f"{kname}/domain", f"{f.module.relpath}:{loops[inner].line}",
                        f"{kname}: the pair loops `{outer} in {orange}`, `{inner} in "
                        f"{irange}` do not cover the full lower triangle (with a "
                        f"zero-initialised output for the diagonal): some pairs keep "
                        f"their initial value")


def _num(x):
    """Numeric value of a constant IR expression (num, -num, casts) or None."""
    while isinstance(x, X) and x.k == "cast":
        x = x.a[1]
    if isinstance(x, X) and x.k == "num":
        return float(x.a[0])
    if isinstance(x, X) and x.k == "un" and x.a[0] == "-":
        v = _num(x.a[1])
        return -v if v is not None else None
    return None


def _clamped_sides(body, val):
    """(lower, upper): is the scalar local `val` clamped to >= -1 / <= 1 by an
    if-chain (`if val > 1: val = 1`, either orientation, strict or not), by
    min/max/fmin/fmax nests or by np.clip - whatever the spelling."""
    lo = hi = False
    if val is None:
        return lo, hi

    def side_of(cond):
        # -> ("hi"|"lo", bound) when cond says val is beyond a constant bound
        if cond.k != "cmp":
            return None
        op, l, r = cond.a[0], cond.a[1], cond.a[2]
        if pp(r) == val and _num(l) is not None:
            l, r = r, l
            op = {"<": ">", ">": "<", "<=": ">=", ">=": "<="}.get(op, op)
        if pp(l) != val or _num(r) is None:
            return None
        if op in (">", ">="):
            return ("hi", _num(r))
        if op in ("<", "<="):
            return ("lo", _num(r))
        return None
    for s in walk(body):
        if isinstance(s, X) and s.k == "if":
            for cond, b in s.a[0]:
                sd = side_of(cond)
                if sd is None:
                    continue
                for st in b:
                    if st.k == "assign" and pp(st.a[0][0]) == val and \
                            _num(st.a[1]) == sd[1]:
                        if sd == ("hi", 1.0):
                            hi = True
                        if sd == ("lo", -1.0):
                            lo = True
        if isinstance(s, X) and s.k == "assign" and pp(s.a[0][0]) == val:
            for c in walk(s.a[1]):
                if not (isinstance(c, X) and c.k == "call"):
                    continue
                fn = pp(c.a[0]).split(".")[-1]
                nums = [_num(a) for a in c.a[1]]
                if fn in ("min", "fmin", "minimum") and 1.0 in nums:
                    hi = True
                if fn in ("max", "fmax", "maximum") and -1.0 in nums:
                    lo = True
                if fn == "clip" and len(nums) >= 3 and nums[1] == -1.0 and nums[2] == 1.0:
                    lo = hi = True
    return lo, hi


def _clamp_function_sides(hf):
    """(lower, upper) for a one-parameter helper that returns its argument
    restricted to [-1, 1]: `if p > 1: return 1`, `if p < -1: return -1`, a
    conditional expression, or min/max/clip on the returned value."""
    if hf is None or len(hf.args) != 1:
        return False, False
    p = hf.args[0][0]
    lo = hi = False

    def side_of(cond):
        if cond.k != "cmp":
            return None
        op, l, r = cond.a[0], cond.a[1], cond.a[2]
        if pp(r) == p and _num(l) is not None:
            l, r = r, l
            op = {"<": ">", ">": "<", "<=": ">=", ">=": "<="}.get(op, op)
        if pp(l) != p or _num(r) is None:
            return None
        return ("hi" if op in (">", ">=") else "lo" if op in ("<", "<=") else None,
                _num(r))

    def ret_expr(e):
        nonlocal lo, hi
        if e.k == "cond":                      # a if c else b
            sd = side_of(e.a[0])
            if sd and _num(e.a[1]) == sd[1]:
                if sd == ("hi", 1.0):
                    hi = True
                if sd == ("lo", -1.0):
                    lo = True
            ret_expr(e.a[2])
            return
        for c in walk(e):
            if isinstance(c, X) and c.k == "call":
                fn = pp(c.a[0]).split(".")[-1]
                nums = [_num(a) for a in c.a[1]]
                if fn in ("min", "fmin", "minimum") and 1.0 in nums:
                    hi = True
                if fn in ("max", "fmax", "maximum") and -1.0 in nums:
                    lo = True
                if fn == "clip" and len(nums) >= 3 and nums[1] == -1.0 and nums[2] == 1.0:
                    lo = hi = True
    for s_ in walk(hf.body):
        if not isinstance(s_, X):
            continue
        if s_.k == "if":
            for cond, b in s_.a[0]:
                sd = side_of(cond)
                if sd is None:
                    continue
                for st in b:
                    if st.k == "return" and st.a and st.a[0] is not None and \
                            _num(st.a[0]) == sd[1]:
                        if sd == ("hi", 1.0):
                            hi = True
                        if sd == ("lo", -1.0):
                            lo = True
        elif s_.k == "return" and s_.a and s_.a[0] is not None:
            ret_expr(s_.a[0])
    # a clamp inside the helper on a local copy of the parameter counts too
    l2, h2 = _clamped_sides(hf.body, p)
    return lo or l2, hi or h2


def g2(run: Run, prog: Program, cy: CyProgram):
    """Values reaching arccos are clamped to [-1, 1] on both sides."""
    # compiled: expr is clamped by an if/elif pair before the store
    f = cy.func("pyunicorn.core._ext.numerics", "_calculate_angular_distance")
    from .loopir import symmetric_store_report
    outs = sorted({r[0] for r in symmetric_store_report(f.body)})
    out = outs[0] if len(outs) == 1 else "cosangdist"
    stores = [s for s in walk(f.body) if isinstance(s, X) and s.k == "assign"
              and any(t.k == "index" and pp(t.a[0]) == out for t in s.a[0])]
    val = pp(stores[0].a[1]) if stores else None
    lo, hi = _clamped_sides(f.body, val)
    # the clamp may live in a helper of the same module: stored `H(e)`, or a
    # local last assigned `v = H(...)`
    def helper_of(e):
        while e.k == "cast":
            e = e.a[1]
        if e.k == "call" and e.a[0].k == "name" and len(e.a[1]) == 1:
            return f.module.funcs.get(e.a[0].a[0])
        return None
    cand = []
    if stores:
        cand.append(stores[0].a[1])
        if stores[0].a[1].k == "name":
            cand += [s_.a[1] for s_ in walk(f.body) if isinstance(s_, X)
                     and s_.k == "assign" and pp(s_.a[0][0]) == val]
    for e in cand:
        l2, h2 = _clamp_function_sides(helper_of(e))
        lo, hi = lo or l2, hi or h2
    for side, ok in (("upper", hi), ("lower", lo)):
        run.oblige("G2", f"_calculate_angular_distance:{side}-clamp", ok, sample={
            "where": f.where, "value": val})
        if not ok:
            run.add("G2", f"_calculate_angular_distance/{side}-clamp", f.where,
                    f"_calculate_angular_distance: the cosine `{val}` stored for arccos "
                    f"is not clamped on the {side} side: rounding can push it outside "
                    f"[-1, 1] for coincident/antipodal nodes and arccos returns NaN")
    # python: node_number clamps expr before np.arccos
    gg = prog.classes.get("GeoGrid")
    for mname in ("node_number", "angular_distance"):
        m = gg.methods.get(mname)
        if m is None:
            raise AnalysisError(f"GeoGrid.{mname} vanished")
        for call in [c for c in ast.walk(m.node) if isinstance(c, ast.Call)
                     and ast.unparse(c.func) == "np.arccos"]:
            arg = ast.unparse(call.args[0])
            if mname == "angular_distance":
                # the argument must be the kernel's (clamped) output buffer
                ok = any(isinstance(c2, ast.Call) and isinstance(c2.func, ast.Name)
                         and c2.func.id == "_calculate_angular_distance"
                         and arg in [ast.unparse(a) for a in c2.args]
                         for c2 in ast.walk(m.node))
                run.oblige("G2", f"GeoGrid.{mname}:arccos-arg", ok)
                if not ok:
                    run.add("G2", f"GeoGrid.{mname}/arccos-arg",
                            f"{m.module.relpath}:{call.lineno}",
                            f"GeoGrid.{mname}: np.arccos is applied to `{arg}`, which is "
                            f"not the clamped output of _calculate_angular_distance")
                continue
            hi = lo = False
            for st in ast.walk(m.node):
                if isinstance(st, ast.Assign) and isinstance(st.targets[0], ast.Subscript) \
                        and ast.unparse(st.targets[0].value) == arg:
                    c = ast.unparse(st.targets[0].slice).replace(" ", "")
                    v = ast.unparse(st.value)
                    if c in (f"{arg}>1.0", f"{arg}>1") and v in ("1.0", "1"):
                        hi = True
                    if c in (f"{arg}<-1.0", f"{arg}<-1") and v in ("-1.0", "-1"):
                        lo = True
                if isinstance(st, ast.Assign) and ast.unparse(st.targets[0]) == arg and \
                        isinstance(st.value, ast.Call) and \
                        ast.unparse(st.value.func) == "np.clip":
                    hi = lo = True
            def _num_is(e, v):
                try:
                    return float(ast.literal_eval(e)) == v
                except Exception:
                    return False
            for c2 in ast.walk(m.node):
                # np.clip(x, -1, 1, out=x)  |  x.clip(-1, 1, out=x)  |  arccos(np.clip(x, -1, 1))
                if isinstance(c2, ast.Call) and ast.unparse(c2.func) == "np.clip" and \
                        len(c2.args) >= 3 and _num_is(c2.args[1], -1.0) and \
                        _num_is(c2.args[2], 1.0):
                    outk = next((ast.unparse(k.value) for k in c2.keywords
                                 if k.arg == "out"), None)
                    if (ast.unparse(c2.args[0]) == arg and outk == arg) or \
                            ast.unparse(c2) == arg:
                        hi = lo = True
            for side, ok in (("upper", hi), ("lower", lo)):
                run.oblige("G2", f"GeoGrid.{mname}:{side}-clamp", ok)
                if not ok:
                    run.add("G2", f"GeoGrid.{mname}/{side}-clamp",
                            f"{m.module.relpath}:{call.lineno}",
                            f"GeoGrid.{mname}: `{arg}` reaches np.arccos without the "
                            f"{side} clamp to [-1, 1]")


def g3(run: Run, prog: Program):
    """Axis roles: lat <-> row 0, lon <-> row 1 of the stacked space sequence."""
    gg = prog.classes.get("GeoGrid")
    n = 0

    def expect(fn, what, ok, where, msg):
        nonlocal n
        n += 1
        run.oblige("G3", f"{fn}:{what}", ok, sample={"where": where})
        if not ok:
            run.add("G3", f"{fn}/{what}", where, msg)
    init = gg.methods["__init__"]
    stack = [c for c in ast.walk(init.node) if isinstance(c, ast.Call)
             and ast.unparse(c.func) == "np.vstack"]
    ok = bool(stack) and ast.unparse(stack[0].args[0]).replace(" ", "") in (
        "(lat_seq,lon_seq)", "[lat_seq,lon_seq]")
    expect("GeoGrid.__init__", "stack-order", ok, init.where,
           "GeoGrid.__init__ no longer stacks (lat_seq, lon_seq): row 0 must be "
           "latitude, row 1 longitude")
    for mname, idx in (("lat_sequence", 0), ("lon_sequence", 1)):
        m = gg.methods[mname]
        rets = [r for r in ast.walk(m.node) if isinstance(r, ast.Return)]
        ok = len(rets) == 1 and ast.unparse(rets[0].value).replace(" ", "") in (
            f"self.sequence({idx})", f"self._grid['space'][{idx}]")
        expect(f"GeoGrid.{mname}", "row", ok, m.where,
               f"GeoGrid.{mname} must return row {idx} of the stacked coordinates, "
               f"returns `{ast.unparse(rets[0].value) if rets else '?'}`")
    for mname in ("grid", "boundaries"):
        m = gg.methods[mname]
        for d in [x for x in ast.walk(m.node) if isinstance(x, ast.Dict)]:
            for k, v in zip(d.keys, d.values):
                if not isinstance(k, ast.Constant) or not isinstance(k.value, str):
                    continue
                key = k.value
                if key.startswith(("lat", "lon")):
                    want = 0 if key.startswith("lat") else 1
                    src = ast.unparse(v)
                    ok = src.endswith(f"[{want}]")
                    expect(f"GeoGrid.{mname}", key, ok,
                           f"{m.module.relpath}:{v.lineno}",
                           f"GeoGrid.{mname}()['{key}'] is `{src}`; {key[:3]} is row "
                           f"{want} of the stacked coordinates")
    for mname, role in (("cos_lat", "lat"), ("sin_lat", "lat"), ("cos_lon", "lon"),
                        ("sin_lon", "lon")):
        m = gg.methods[mname]
        src = ast.unparse(m.node)
        ok = f"self.{role}_sequence()" in src and \
            f"self.{'lon' if role == 'lat' else 'lat'}_sequence()" not in src and \
            f"np.{mname[:3]}(" in src
        expect(f"GeoGrid.{mname}", "role", ok, m.where,
               f"GeoGrid.{mname} must be {mname[:3]} of the {role}itude sequence")
    # kernel call argument order
    ad = gg.methods["angular_distance"]
    for c in ast.walk(ad.node):
        if isinstance(c, ast.Call) and isinstance(c.func, ast.Name) and \
                c.func.id == "_calculate_angular_distance":
            from .idioms import expand_starred_args, inline_locals
            cargs = expand_starred_args(
                c, lambda hn: (prog.lookup(gg, hn).node if prog.lookup(gg, hn) is not None
                               else None))
            if cargs is None:
                run.unknowns.append(f"G3: {ad.where}: starred kernel arguments not "
                                    f"expanded; argument order not decided")
                continue
            order = [ast.unparse(inline_locals(ad.node, a)) for a in cargs[:4]]
            want = ["cos_lat", "sin_lat", "cos_lon", "sin_lon"]
            ok = all(w in o for w, o in zip(want, order))
            expect("GeoGrid.angular_distance", "kernel-args", ok,
                   f"{ad.module.relpath}:{c.lineno}",
                   f"angular_distance passes {order} for the kernel parameters {want}")
    # geographic node weights use cos(lat)
    gn = prog.classes.get("GeoNetwork")
    m = gn.methods["set_node_weight_type"]
    from .idioms import private_closure
    src = "\n".join(ast.unparse(g.node) for g in private_closure(prog, gn, [m]))
    # (how many branches / table rows use it is the author's choice: the weight
    # types may be spelled as an if-chain or as a table of functions of cos_lat)
    ok = src.count(".grid.cos_lat()") >= 1 and "cos_lon" not in src and \
        "sin_lat" not in src and "sin_lon" not in src and "lon_sequence" not in src
    expect("GeoNetwork.set_node_weight_type", "cos-lat", ok, m.where,
           "geographic node weights must be (powers of) the cosine of latitude")
    # area-weighted measures take each node's area from its own latitude: the
    # configurable n.s.i. node weights (None / surface / irrigation / set by the
    # user) are a different quantity and must not be read instead
    from .pymodel import iter_events
    k = 0
    for mname, m in sorted(prog.all_methods(gn).items()):
        if "area_weighted_connectivity" not in mname or m.cls is not gn:
            continue
        k += 1
        t = prog.tree(m, gn, {})
        reads = {e.cell for e in iter_events(t) if e.kind == "read"}
        bad = sorted(reads & {"node_weights", "_node_weights", "total_node_weight",
                              "mean_node_weight"})
        expect(f"GeoNetwork.{mname}", "area-from-latitude", not bad, m.where,
               f"GeoNetwork.{mname} reads {bad}: the area of a node is the cosine of "
               f"its own latitude (grid.cos_lat()), whereas the node weights follow "
               f"node_weight_type (None, 'irrigation') or what the user assigned")
    run.floor("G3 area-weighted measures", k, 3)
    # Data.set_window pairs lat/lon bounds with the lat/lon sequences
    dt = prog.classes.get("Data")
    m = dt.methods["set_window"]
    for cmp_ in [c for c in ast.walk(m.node) if isinstance(c, ast.Compare)]:
        l = ast.unparse(cmp_.left)
        r = ast.unparse(cmp_.comparators[0])
        for role in ("lat", "lon", "time"):
            if f"full_{role}" in l and "window[" in r:
                ok = f"'{role}_" in r
                expect("Data.set_window", f"{role}:{r}", ok,
                       f"{m.module.relpath}:{cmp_.lineno}",
                       f"Data.set_window compares the {role} sequence with `{r}`")
    run.floor("G3 role sites", n, 15)


def check(run: Run, prog: Program, cy: CyProgram, sites):
    run.rule("G1", "pairwise-distance kernels store [i,j] and [j,i] in one chained "
             "store over the full lower triangle")
    run.rule("G2", "every value reaching arccos passes both clamps to [-1, 1]")
    run.rule("G3", "latitude is row 0 and longitude row 1 at every accessor, weight "
             "and window site")
    run.rule("G4", "grid kernels are called with the dtype/rank their signature demands")
    run.rule("G5", "memoised distance matrices are never edited in place")
    run.explanation = (
        "Structural necessary conditions of C12 (exact symmetry by construction, "
        "arccos domain, axis-role agreement, applicability, immutability of the "
        "memoised matrices). Error bounds, triangle inequality and nearest-node "
        "minimality are NOT decided.")
    g1(run, cy)
    g2(run, prog, cy)
    g3(run, prog)
    n = report_sites(run, "G4", sites, lambda s: s.kernel.name in (
        "_calculate_angular_distance", "_calculate_euclidean_distance"))
    run.floor("G4 call sites", n, 1)
    from .rules_c06 import p1_restricted
    p1_restricted(run, "G5", prog,
                  lambda o: ("Grid." in o or "GeoGrid." in o) and
                  o.startswith(("cached:", "shared:")),
                  "memoised grid distance matrix", floor=1)
