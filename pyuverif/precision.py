"""Floating-point width agreement inside compiled kernels (rules L9 / U5).

A threshold comparison decides membership ("distance < eps").  When one storage
mode / code path performs it in double precision and another narrows either the
distance or the threshold to single precision, the two disagree for thresholds
that are not representable in float32.  The rule: a floating scalar that takes
part in a comparison must be at least as wide as the widest floating value it is
compared with or assigned from."""
from __future__ import annotations

import re

from .cymodel import X, walk, pp

BASE = {"float": 4, "double": 8}


def float_widths(types: dict) -> dict:
    """C type / ctypedef alias -> width in bytes, for floating types only."""
    w = dict(BASE)
    for alias, dt in (types.get("c", {}) if isinstance(types.get("c"), dict) else {}).items():
        if str(dt).startswith("float"):
            w[alias] = int(str(dt)[5:]) // 8
    return w


def narrowing_report(mod, f, W):
    decl = {}
    bufw = {}
    for n, t in f.args:
        if t.kind == "simple" and t.name in W:
            decl[n] = (W[t.name], "parameter", t.name)
        elif t.kind in ("buffer", "memview") and t.name in W:
            bufw[n] = W[t.name]
    for n, (t, init, ln) in f.locals.items():
        if t.kind == "simple" and t.name in W:
            decl[n] = (W[t.name], "local", t.name)
        elif t.kind in ("buffer", "memview") and t.name in W:
            bufw[n] = W[t.name]
    fptr_ret = {m.group(2): m.group(1) for m in
                re.finditer(r"ctypedef\s+(\w+)\s+\(\*(\w+)\)", mod.source or "")}
    param_fptr = {n: fptr_ret[t.name] for n, t in f.args
                  if t.kind == "simple" and t.name in fptr_ret}

    def width(e):
        if not isinstance(e, X):
            return 0
        if e.k == "name":
            return decl[e.a[0]][0] if e.a[0] in decl else 0
        if e.k == "index" and e.a[0].k == "name":
            return bufw.get(e.a[0].a[0], 0)
        if e.k == "cast":
            return W.get(str(e.a[0]).strip(), width(e.a[1]))
        if e.k == "call":
            fn = pp(e.a[0])
            if fn in param_fptr:
                return W.get(param_fptr[fn], 0)
            g = mod.funcs.get(fn)
            if g is not None and g.ret in W:
                return W[g.ret]
            return max([width(a) for a in e.a[1]] or [0])
        if e.k in ("bin", "un", "cmp", "boolop", "not", "cond"):
            return max([width(a) for a in e.a if isinstance(a, X)] +
                       [width(b) for a in e.a if isinstance(a, (list, tuple)) for b in a]
                       or [0])
        return 0
    compared = set()
    out = []
    for n in walk(f.body):
        if isinstance(n, X) and n.k == "cmp":
            l, r = n.a[1], n.a[2]
            for a in (l, r):
                if a.k == "name":
                    compared.add(a.a[0])
            wl, wr = width(l), width(r)
            for a, wa, wo in ((l, wl, wr), (r, wr, wl)):
                if a.k == "name" and a.a[0] in decl and 0 < wa < wo:
                    out.append((a.a[0], decl[a.a[0]], wo, "compared with", n.line))
    for n in walk(f.body):
        if isinstance(n, X) and n.k == "assign":
            wv = width(n.a[1])
            for t in n.a[0]:
                if t.k == "name" and t.a[0] in decl and t.a[0] in compared and \
                        0 < decl[t.a[0]][0] < wv:
                    out.append((t.a[0], decl[t.a[0]], wv, "assigned from", n.line))
    seen = set()
    res = []
    for r in out:
        if (r[0], r[3]) not in seen:
            seen.add((r[0], r[3]))
            res.append(r)
    return res, len(compared)
