"""What each check claims (single source for MANIFEST.json)."""

NOTES = ("Static analysis only (DESIGN.md). Exit 0 = all obligations of the "
         "property's rules discharged on /repo's working tree, or only findings "
         "listed in known_findings.json (printed as KNOWN-FINDING); exit 1 = "
         "VIOLATION; exit 2 = ANALYSIS-ERROR (front end or floor failure, never a "
         "verdict). For C03, C05, C07-C18 only the named structural clauses are "
         "decided, never the numerical behaviour.")

NOT_APPLICABLE = {
    "C02": ("node-splitting invariance is an algebraic identity between values "
            "on two inputs; no fact about the shape of the code is a necessary "
            "condition of it (DESIGN.md §6), so static analysis cannot decide "
            "it and no proxy is claimed"),
    "C04": ("equality of numerical results under relabelling; the code-shape "
            "facts one could lint are consistent with the property by theorems a "
            "syntactic rule cannot tell from violations (DESIGN.md §6)"),
}

CLAIMS = {
    "C01": {
        "text": ("Whole-program cache-coherence analysis: for each of the ~30 "
                 "classes deriving from Cached, every cached method's transitive "
                 "read set is compared with its resolved key (C3 MRO, "
                 "__cache_state__ expansion, attrs) and a staleness automaton is "
                 "run over the inlined effect tree of every public mutator "
                 "activation. A discharged obligation holds for every history "
                 "of mutators and queries, which the tests cannot enumerate."),
        "note": ("Assumes: no exceptional exits of mutators, no user assignment "
                 "to setter-less public attributes, no lru eviction effects; "
                 "frozen in-place/igraph tables in pymodel.py; constant-parameter "
                 "specialisation for None/True/False/str only. Genuine defects "
                 "that are recorded rather than fixed are in known_findings.json."),
        "technique": "static effect/dataflow analysis over Python ast (key coverage + staleness automaton)",
    },
    "C03": {
        "text": ("Structural necessary conditions only: the clique-counting "
                 "(cliquishness) kernels test every pair of enumerated neighbour "
                 "roles and normalise by the matching falling factorial (derived "
                 "from the kernels' own loop structure); compiled kernels used by "
                 "network.py are called with the dtype/rank they declare; virtual "
                 "self-calls of inherited Network methods are accepted by every "
                 "override. Needs e.g. a degree>=4 non-clique neighbourhood to show "
                 "in a test; holds for all graphs once shown on the source. Also: pair-count normalisers keep both factors in the denominator (no `x / N * (N - 1)`); the clique kernels may enumerate ordered tuples or each subset once (then with the r! factor and a correct `previous + 1` chain of loop starts); the direction convention A[i,j] = link i->j holds in every in/out-degree method (axis 0 / axis 1) and behind a direction=\"in\"/\"out\" parameter folded to either constant (M7). Also: `*` is never applied to two matrices that are scipy sparse on one path and dense on another (M8)."),
        "note": ("Does NOT decide that any measure equals its definition "
                 "(igraph/scipy/spectral measures are out of reach)."),
        "technique": "loop-nest guard-set extraction over the Cython parse tree, kernel-boundary type inference, override-signature check",
    },
    "C05": {
        "text": ("Structural clauses: who-may-write the primary state groups, the "
                 "loader idiom (attach the loaded graph to an object built from it, "
                 "bump the link-attribute counter), copy completeness, agreement of "
                 "the attribute names written by save and read by the loaders, "
                 "definite assignment of constructor activations under the "
                 "loaders' call-site constants, one edge enumeration for link "
                 "count and graph, mirrored stores for undirected link attributes. Also a freshness typestate: the vertex attribute carrying node weights into a file is attached by save() or re-attached by every graph rebuild; attribute names are resolved through module/class constants and constant tuples (a reader may accept several); edge arrays built from an edge list are made (E, 2) for E = 0 before their columns are selected (S7). S8: the vertex attribute name is a valid GML key or the loaders also accept its GML spelling."),
        "note": ("Does NOT decide what igraph preserves per file format, "
                 "degenerate edge lists or numeric equality of weights."),
        "technique": "who-may-write, def-use and definite-assignment analysis over Python ast effect trees",
    },
    "C06": {
        "text": ("Flow-sensitive may-alias analysis of arrays in every function "
                 "(~900) with inter-procedural mutation/return-origin summaries: "
                 "every in-place operation whose target may alias a memoised "
                 "return value, a value obtained from a held object, or a caller's "
                 "argument is an obligation; only proven restore pairs and "
                 "documented in-place functions discharge it. Holds for all call "
                 "orders, which tests cannot enumerate. Also: a memoised method "
                 "never edits arrays of the object's own state, directly or through "
                 "a view (P5); `param op= e` on a bare parameter of a public function "
                 "is an edit of the caller's array unless the parameter is declared "
                 "scalar or the edit documented; values returned through a registry "
                 "of functions and row views `a[i][j] = v` are followed."),
        "note": ("Decides array edits only (not 'a random query repeats "
                 "identically'); assumes path-length matrices have a zero diagonal "
                 "(restore idiom); closures/dynamic callables not followed; "
                 "frozen tables of alias-preserving and in-place numpy operations."),
        "technique": "static may-alias + in-place mutation analysis over Python ast with fixpoint summaries",
    },
    "C07": {
        "text": ("Structural clauses: every compiled entry point of the "
                 "recurrence-plot family is applicable (dtype/rank at the kernel "
                 "boundary, declared vs allocated rank of local buffers); "
                 "plot+network classes rebuild the adjacency from a diagonal-free "
                 "copy after every public rewrite of the matrix (must-pass-through); "
                 "all thresholding siblings use one relation and exclude missing "
                 "states as rows and columns; N stored next to a matrix is its "
                 "size; the adaptive kernel links a state to its own neighbours. Also: library calls in kernels respect argument types (T6), block assemblies are sized by the series the plots were built from (T7), distance kernels keep intermediates at input precision (T8), the adjacency handed to Network.__init__ is a cleared copy also through helper methods and keeps the shape of the recurrence matrix (T10: N is shared by plot and network); a size measured on the freshly built joint matrix is not overwritten later in the method (T11); the missing-value mask is computed on the embedded states (T12) and applied by every method that rebuilds the matrix (T13)."),
        "note": "Does NOT decide distance kernels, quantiles, neighbourhood sizes or NaN semantics of values.",
        "technique": "kernel-boundary type inference, must-pass-through over effect trees, sibling agreement",
    },
    "C08": {
        "text": ("Dispatch clause: the nine wrappers of _line_dist form a "
                 "consistent table (line type x storage mode x missing values x "
                 "colour), the Python methods call the wrapper matching the branch "
                 "condition, the cache key covers the dispatch flags, per-row scan "
                 "flags are reset unconditionally, derived RQA measures read the "
                 "histograms only and never edit them in place. Also: the three histograms consult the same mode flags (L7), _line_dist addresses samples only by sample indices (L8), the sequential mode compares at the precision of the matrix mode (L9); a dispatch handed to a private helper with a constant line type and a class-level kernel table (dict / namedtuple slots) is followed slot by slot (L1); summary methods forward l_min / v_min to the measure parameter of the same role, also through table-driven getattr loops (L11)."),
        "note": "Does NOT verify the run-length algorithm itself or the measure formulas.",
        "technique": "table agreement over the Cython parse tree and path conditions over Python ast",
    },
    "C09": {
        "text": ("Funnel clause: every public method changing threshold, "
                 "locality flag or similarity re-derives the adjacency afterwards "
                 "(must-pass-through on every class of the family); one strict "
                 "thresholding function whose diagonal clearing post-dominates the "
                 "thresholding; the stored similarity matrix is never edited in "
                 "place."),
        "note": "Does NOT decide the quantile/density relation, ties or the distance weight.",
        "technique": "must-pass-through over effect trees, def-use, alias/mutation analysis",
    },
    "C10": {
        "text": ("Applicability only: kernel-boundary typing for all estimators, "
                 "no float-constant array index, literal option values accepted by "
                 "the callee's validation, consistent running-absmax idiom. Also: "
                 "the C estimators address their 2-D inputs row-major with the row "
                 "length of the shape the caller hands over (A5, re-using C20's "
                 "affine pointer analysis: a transposed hand-over with swapped "
                 "extents stays in bounds but reads the wrong elements); a name "
                 "bound inside a loop to a list/array built before the loop is not "
                 "changed in place (A6: per-iteration work objects are fresh); a local "
                 "memo dict inside loops is keyed on every loop variable its value "
                 "depends on (A7)."),
        "note": "Does NOT decide numerical equality with reference statistics.",
        "technique": "kernel-boundary type inference, option-flow and idiom-consistency rules over ast; affine access-polynomial vs shape layout check over the clang AST",
    },
    "C11": {
        "text": ("Structural clauses: compiled kernels and their _sparse "
                 "siblings count under the same link tests over the same role "
                 "domains; role-suffixed locals are computed from the matching node "
                 "list; sub-block helpers return copies; edge-loop fills mirror "
                 "independently; virtual calls survive the coupled overrides. Also: tested links have the same orientation in compiled and sparse siblings, and results built through igraph's order-normalising subgraph() are mapped back to the caller's node order (X7); a loop over igraph edges stores the reversed orientation only on paths the directed flag excludes (X8). X9: a scan latch of a cross kernel is re-initialised for every node of the outer loop."),
        "note": "Does NOT decide equality with sub-block definitions or limits.",
        "technique": "sibling guard-set agreement (Cython vs Python loop IR), role dataflow, override-signature check",
    },
    "C12": {
        "text": ("Structural clauses: pairwise-distance kernels store [i,j] and "
                 "[j,i] in one chained store over the full triangle (exact "
                 "symmetry by construction); every value reaching arccos passes "
                 "both clamps; latitude is row 0 / longitude row 1 at every "
                 "accessor, weight and window site; memoised distance matrices are "
                 "never edited in place. Also: a scalar accumulated over the "
                 "remaining axis starts afresh for every pair (reset at the depth "
                 "of the pair loops); area-weighted connectivity measures take the "
                 "node areas from the grid's cosine of latitude, never from the "
                 "configurable n.s.i. node weights."),
        "note": "Does NOT decide error bounds, the triangle inequality or nearest-node minimality.",
        "technique": "store/loop-domain pattern rules over the Cython parse tree, table agreement, alias/mutation analysis",
    },
    "C13": {
        "text": ("Structural clauses: only the constructor and set_window read "
                 "the unwindowed data; set_global_window funnels into the virtual "
                 "set_window with coinciding bounds; ClimateData's setters rewrite "
                 "the view and bump the cache counter; the axis masks are closed "
                 "intervals of one sibling form; memoised anomalies are never "
                 "edited in place. Also: phase_mean() and anomaly() select a phase with the same selector (D5); a remembered last window is a copy (D6)."),
        "note": "Does NOT decide the selected indices or the anomaly arithmetic.",
        "technique": "who-may-read, funnel and sibling-form rules over Python ast",
    },
    "C14": {
        "text": ("Sibling/partition clauses: the two natural-visibility kernels "
                 "agree (domains, slope expression, strict relation) and differ "
                 "exactly by the missing-value conjunct and guard; every kernel "
                 "links iff the scan reaches j and stores symmetrically; retarded "
                 "and advanced degree sum complementary slices; the clustering "
                 "kernels count complete triangles over past/future pairs. Also: both relation builders consult the missing-value switch (V4); the row partition may be spelled with slices or tril/triu; retarded / advanced closeness average over the strict past / future, also through a shared window helper (V5); memoised results of a VisibilityGraph are never edited in place (V6)."),
        "note": ("Does NOT decide the geometric criterion on values; a rewritten "
                 "kernel outside the analysed scan shape yields ANALYSIS-ERROR, not a verdict."),
        "technique": "sibling kernel agreement over the Cython parse tree; call-site specialisation and alias/mutation analysis over Python ast",
    },
    "C15": {
        "text": ("Clauses: memoised spectrum/twins are never edited in place and "
                 "conditionally recomputed memos are refreshed by every writer of "
                 "their sources (repeated generation does not degrade); the "
                 "twin-surrogate kernels are applicable; per-series work buffers "
                 "are re-initialised for every series. Also: the twin machinery compares distances with a threshold of at least their precision (U5); only methods that declare a data change to the cache edit the held input series in place - generators leave original_data alone, also through row helpers specialised per call site (U6)."),
        "note": "Does NOT decide permutation exactness, spectra or the twin transition structure.",
        "technique": "alias/mutation analysis, kernel-boundary typing, loop-carried work-array rule",
    },
    "C16": {
        "text": ("Registry clauses: the symmetrisation registry is exhaustive "
                 "and bound key-to-function consistently, lookups use the "
                 "validated name; attributes read on self exist after name "
                 "mangling; literal options flowing into validated parameters are "
                 "accepted; the memoised directed matrix is never edited in place. "
                 "Exchange clause: in the pairwise ES and ECA kernels, swapping the "
                 "roles of the two sequences maps every statement onto a statement of "
                 "the same branch and the first returned direction onto the second. "
                 "Event positions are not narrowed below 32-bit integers (E5); the "
                 "threshold array of make_event_matrix is floating (E6)."),
        "note": ("Does NOT decide the counting formulas themselves, ranges, shift or "
                 "rescaling invariance of the values."),
        "technique": ("registry/table agreement, undefined-attribute and option-flow rules, "
                      "and a syntactic role-swap analysis (swap map grown to a fixpoint, "
                      "comparisons in polynomial normal form) over Python ast"),
    },
    "C17": {
        "text": ("Swap clause: each rewiring swap removes and adds the same "
                 "end-point multiset under a guard that rules out double links and "
                 "loops and keeps the link list consistent; prescribed-count "
                 "generators set one unset cell per link; the cross-block "
                 "write-back touches only [nodes1[i], nodes2[j]]; the three "
                 "geographical wrappers feed the kernel alike; node arrays keep the "
                 "caller's order. Also: the Barabasi-Albert node under construction is not drawable before its links are drawn (W11); cross-link models start from a copy of the whole input adjacency (W12); rebuilding a network from an edge list passes the node count (W8); every alternative of a rewiring acceptance condition implies the conserved quantity, decided by union-find over its atoms (W9)."),
        "note": "Does NOT decide igraph generators, distributions or tolerance semantics.",
        "technique": "multiset/guard analysis of the swap block over the Cython parse tree, sibling agreement of wrappers",
    },
    "C18": {
        "text": ("'Follows a change of the resistances': update_resistances "
                 "stores, then rebuilds the admittance on the network's links and "
                 "then R, in that order; C01's coherence rules restricted to "
                 "ResNetwork; current-flow kernels applicable; no conjugating "
                 "product in the defining sums; no path of update_resistances "
                 "returns before the rebuild (a 'nothing changed' shortcut is sound "
                 "only against a private copy); a positional read of the flat "
                 "pair store uses the triangle order it is filled in (Z6)."),
        "note": "Does NOT decide the circuit laws (metric, Foster, series/parallel).",
        "technique": "ordering/def-use rules over Python ast, reuse of the cache-coherence analysis",
    },
    "C19": {
        "text": ("Source-level equivalence of the distributed and serial "
                 "branches of the four distributable betweenness measures (dead "
                 "code under the tests): submit/collect pairing, static resolution "
                 "of the worker string, position-wise argument correspondence "
                 "under chunk restriction, chunk-template membership (partition "
                 "lemma on paper), result re-assembly vs worker result shape, "
                 "chunk-relative/absolute index discipline in the workers, "
                 "loop-carried state of the batched kernel, and repo-wide "
                 "independence from silence_level. Also: a chunk-relative counter is never compared with an absolute node index in a worker. Chunk tables are read as the loop they stand for; the chunk rule answers proven / refuted (offset, gap, overlap, floor step, missing min) / unknown."),
        "note": ("utils/mpi.py itself (scheduling, FIFO per worker, pickling) and "
                 "numpy's array_split are trusted; floating-point summation order "
                 "not considered; accepted chunk idioms are the ceil-division "
                 "template and np.array_split."),
        "technique": "static sibling agreement, template matching and control-dependence analysis over Python ast + Cython parse tree",
    },
    "C20": {
        "text": ("Memory-safety argument for the compiled layer, for all sizes: "
                 "typed buffers are bounds-checked by directive and no kernel "
                 "overrides it; every raw-pointer hand-off has the array's element "
                 "width (also in the C definition), is contiguous, and its extents "
                 "are tied to the buffer's shape at the wrapper or at each Python "
                 "call site; every dereference in the six C functions is inside "
                 "its buffer (affine pointer analysis with induction variables over "
                 "the clang AST, polynomial bounds); data-dependent bin indices are "
                 "clamped on both sides; integer product chains cannot overflow; no stack allocation (alloca) grows with an extent of the data; an array parameter whose raw data pointer is taken is `not None` or every call site passes a freshly made array (B10). Also: an extent taken from object state is re-established (or guarded by a shape test) whenever the size cell can be rewritten without the buffer cells."),
        "note": ("LP64; extents >= 0; numpy/igraph internals trusted; the Cython "
                 "compiler's boundscheck is trusted for typed buffers; unsupported C "
                 "constructs give ANALYSIS-ERROR."),
        "technique": "abstract interpretation of pointer offsets as polynomials over the clang AST + Cython parse-tree rules",
    },
}
