"""What each check claims (single source for MANIFEST.json)."""

NOTES = ("Static analysis only (DESIGN.md). Exit 0 = all obligations of the "
         "property's rules discharged on /repo's working tree, or only findings "
         "listed in known_findings.json (printed as KNOWN-FINDING); exit 1 = "
         "VIOLATION; exit 2 = ANALYSIS-ERROR (front end or floor failure, never a "
         "verdict). For C03, C05, C07-C18 only the named structural clauses are "
         "decided, never the numerical behaviour.")

NOT_APPLICABLE = {
    "C02": ("node-splitting invariance is an algebraic identity between values "
            "on two inputs; no fact about the shape of the code is a necessary "
            "condition of it (DESIGN.md §6), so static analysis cannot decide "
            "it and no proxy is claimed"),
    "C04": ("equality of numerical results under relabelling; the code-shape "
            "facts one could lint are consistent with the property by theorems a "
            "syntactic rule cannot tell from violations (DESIGN.md §6)"),
}

CLAIMS = {
    "C01": {
        "text": ("Whole-program cache-coherence analysis: for each of the ~30 "
                 "classes deriving from Cached, every cached method's transitive "
                 "read set is compared with its resolved key (C3 MRO, "
                 "__cache_state__ expansion, attrs) and a staleness automaton is "
                 "run over the inlined effect tree of every public mutator "
                 "activation. A discharged obligation holds for every history "
                 "of mutators and queries, which the tests cannot enumerate."),
        "note": ("Assumes: no exceptional exits of mutators, no user assignment "
                 "to setter-less public attributes, no lru eviction effects; "
                 "frozen in-place/igraph tables in pymodel.py; constant-parameter "
                 "specialisation for None/True/False/str only. Genuine defects "
                 "that are recorded rather than fixed are in known_findings.json."),
        "technique": "static effect/dataflow analysis over Python ast (key coverage + staleness automaton)",
    },
    "C03": {"text": "", "note": "", "technique": "motif-kernel completeness and kernel-boundary typing over the Cython parse tree"},
    "C05": {"text": "", "note": "", "technique": "who-may-write, copy-completeness and save/load table agreement over Python ast"},
    "C06": {
        "text": ("Flow-sensitive may-alias analysis of arrays in every function "
                 "(~900) with inter-procedural mutation/return-origin summaries: "
                 "every in-place operation whose target may alias a memoised "
                 "return value, a value obtained from a held object, or a caller's "
                 "argument is an obligation; only proven restore pairs and "
                 "documented in-place functions discharge it. Holds for all call "
                 "orders, which tests cannot enumerate."),
        "note": ("Decides array edits only (not 'a random query repeats "
                 "identically'); assumes path-length matrices have a zero diagonal "
                 "(restore idiom); closures/dynamic callables not followed; "
                 "frozen tables of alias-preserving and in-place numpy operations."),
        "technique": "static may-alias + in-place mutation analysis over Python ast with fixpoint summaries",
    },
    "C07": {"text": "", "note": "", "technique": "kernel-boundary typing, must-pass-through and sibling agreement"},
    "C08": {"text": "", "note": "", "technique": "wrapper/dispatch table agreement over the Cython parse tree and Python ast"},
    "C09": {"text": "", "note": "", "technique": "must-pass-through (funnel) analysis over Python ast"},
    "C10": {"text": "", "note": "", "technique": "kernel-boundary typing, index typing and option-flow analysis"},
    "C11": {"text": "", "note": "", "technique": "sibling guard-set agreement, role-suffix dataflow, override-signature check"},
    "C12": {"text": "", "note": "", "technique": "symmetric-store, clamp must-pass-through and axis-role table agreement"},
    "C13": {"text": "", "note": "", "technique": "who-may-read, invalidation and sibling-form rules over Python ast"},
    "C14": {"text": "", "note": "", "technique": "sibling kernel agreement and complementary-slice rule"},
    "C15": {"text": "", "note": "", "technique": "memoised-array purity and kernel-boundary typing"},
    "C16": {"text": "", "note": "", "technique": "registry exhaustiveness, option flow, undefined-attribute rule"},
    "C17": {"text": "", "note": "", "technique": "swap multiset/guard analysis over the Cython parse tree"},
    "C18": {"text": "", "note": "", "technique": "update-order and memo-reset rules over Python ast"},
    "C19": {
        "text": ("Source-level equivalence of the distributed and serial "
                 "branches of the four distributable betweenness measures (dead "
                 "code under the tests): submit/collect pairing, static resolution "
                 "of the worker string, position-wise argument correspondence "
                 "under chunk restriction, chunk-template membership (partition "
                 "lemma on paper), result re-assembly vs worker result shape, "
                 "chunk-relative/absolute index discipline in the workers, "
                 "loop-carried state of the batched kernel, and repo-wide "
                 "independence from silence_level."),
        "note": ("utils/mpi.py itself (scheduling, FIFO per worker, pickling) and "
                 "numpy's array_split are trusted; floating-point summation order "
                 "not considered; accepted chunk idioms are the ceil-division "
                 "template and np.array_split."),
        "technique": "static sibling agreement, template matching and control-dependence analysis over Python ast + Cython parse tree",
    },
    "C20": {"text": "", "note": "", "technique": "directive check, pointer-width/contiguity/size provenance, affine bounds over clang AST"},
}
